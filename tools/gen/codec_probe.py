#!/usr/bin/env python3
"""
Codec probe: the decimal writer / reader of the C++ runtime gama is built with, against the
exact (rational) codec model of lean/Driver (drv_codec).  Plugin independent; used by C12, C13, C19:

    sys.path.insert(0, str(ctx.verif / "tools"))
    from gen.codec_probe import check_codec
    check_codec(ctx, corr)                      # stream name defaults to "codec"

Implementation side: harness/codec_probe.cpp
    fmt <k> <p> <0xbits>  ->  ok <text> <0xbits of strtod(text)> [MISMATCH-READERS]
    rd  <text>            ->  ok <IsFloat(text)> <0xbits of atof(text)>
Model side: drv_codec, same op lines
    fmt ...               ->  ok <text> <value>         value = num/den | num | none | big
    rd  ...               ->  ok <flag> <value>

Comparison: texts identical as strings; float(Fraction(value)) bit-identical to the harness bits
(-0.0 == +0.0 when the exact value is 0; exact |value| >= 2^1024 - 2^970 must be +-inf on the
harness side); `none` on a fmt line is a disagreement; `big` skips the value comparison; for rd the
flags must agree and the value is only compared when the flag is 1.

Standalone self-test of the harness alone (no Lean driver), against an independent Python
reference (decimal / fractions / CPython's own correctly rounded float formatting):

    python3 tools/gen/codec_probe.py [seed] [--thorough]
"""
import os
import random
import re
import struct
import subprocess
import sys
from decimal import Decimal, ROUND_HALF_EVEN, ROUND_HALF_UP, localcontext
from fractions import Fraction
from pathlib import Path

VERIF = Path(__file__).resolve().parents[2]
REPO = Path(os.environ.get("GAMA_REPO", "/repo"))

CASE_LEN = 50                 # op lines per case
MAX_PREC = 40
# the precisions gama itself uses when it writes numbers
F_PRECS = [1, 2, 3, 4, 5, 6, 7, 9, 16, 17]
E_PRECS = [1, 5, 7, 16, 17]
G_PRECS = [0, 1, 6, 8, 16, 17]
ALL_PRECS = [0, 1, 2, 3, 6, 16, 17]
INF_THRESHOLD = 2 ** 1024 - 2 ** 970      # exact values at or above this round to +inf (round-half-even)

RD_HAND = ["1e5", "1E5", ".5", "5.", "+3.25", "-0.0000", "-0", "1e+06", "1e-05", "0.000100", "12.",
           "1.5e", "e5", ".", "+", "1.2.3", "1e5.5", "0x10", "1d5", "12-30-45", "--1", "1,5", "007",
           "1e0005", "123456789012345678901234567890", "0.1e-400",
           # a few more of the same kind
           "-", "-.", "+.e1", ".e1", "1e", "1e+", "1e-", "1E+5", "1E-5", "+.5", "-5.", "5.e3", ".5e3", "5.e",
           "1e5e5", "1f", "inf", "nan", "-inf", "INF", "NaN", "infinity", "1_000", "1'000", "0.5f", "1.e+00", "00", "0",
           "-0.0", "+0", "0e0", "0.0e+00", "1e400", "-1e400", "1e-400", "4.9406564584124654e-324",
           "2.4703282292062327e-324", "2.4703282292062328e-324", "1.7976931348623157e+308",
           "1.7976931348623158e+308", "1.797693134862315807e+308", "1.797693134862315808e+308",
           "179769313486231580793728971405303415079934132710037826936173778980444968292764750946649017977587207096"
           "330286416692887910946555547851940402630657488671505820681908902000708383676273854845817711531764475730"
           "270069855571366959622842914819860834936475292719074168444365510704342711559699508093042880177904174497791",
           "0.3", "0.1", "0.30000000000000004", "9007199254740993", "9007199254740992.5", "1e22", "1e23",
           "8.5e-5", "5e-324", "3e-324", "2e-324"]


# ------------------------------------------------------------------------------ small helpers

def f2h(x):
    return "0x" + struct.pack(">d", float(x)).hex()


def h2f(tok):
    return struct.unpack(">d", bytes.fromhex(tok[2:].rjust(16, "0")))[0]


def _finite(x):
    return x == x and abs(x) != float("inf")


def is_tie(k, p, x):
    """is the exact binary value of x exactly half-way between two neighbouring outputs of format k at precision p"""
    if x == 0 or not _finite(x):
        return False
    q = abs(Fraction(x))
    if k == "f":
        shift = p
    else:
        sig = p + 1 if k == "e" else max(p, 1)          # significant digits kept
        shift = sig - 1 - Decimal(x).adjusted()          # Decimal(float) is exact
    y = q * 2 * (Fraction(10) ** shift)
    return y.denominator == 1 and y.numerator % 2 == 1


_negzero = re.compile(r"^-[0.]*0[0.]*$")


def is_neg_zero_text(text):
    return bool(_negzero.match(text))


# ------------------------------------------------------------------------------ generators (ONLY from rng)

class _Ops:
    def __init__(self):
        self.groups = []          # (category, [(k, p, x)])

    def group(self, name):
        g = []
        self.groups.append((name, g))

        def add(k, p, x):
            x = float(x)
            if not _finite(x) or not 0 <= p <= MAX_PREC:
                return
            if x == 0:
                x = 0.0            # never -0.0 (the rational model cannot represent it)
            g.append((k, p, x))
        return add

    def total(self):
        return sum(len(g) for _, g in self.groups)


def _sigdigits(lit):
    d = lit.lstrip("+-").replace(".", "").lstrip("0")
    return len(d)


def _fixed_ops(ops):
    # ---- near ties: decimal literals ending in 5 parsed to the nearest double (mostly NOT ties in binary)
    add = ops.group("near-tie-literal")
    lits = ["0.125", "2.675", "1.005", "0.285", "1.45", "8.345", "0.115", "1.115", "2.5", "0.045", "1.255", "10.005",
            "0.15", "0.25", "0.35", "0.45", "0.55", "0.65", "0.75", "0.85", "0.95", "1.15", "1.25", "1.35",
            "2.345", "2.355", "0.0005", "0.0015", "0.0025", "1.0005", "1.0015", "1.0025", "5.015", "5.025",
            "1234.5675", "1234.5685", "100.5", "101.5", "0.5", "1.5", "0.05", "0.005", "0.000005", "1.00000005",
            "123456.7895", "4503599627370496.5", "4503599627370497.5", "1000000.5", "0.3125", "0.4375", "2.0625"]
    for lit in lits:
        d = len(lit.split(".")[1])
        s = _sigdigits(lit)
        for sgn in ("", "-"):
            x = float(sgn + lit)
            add("f", d - 1, x)
            add("f", d, x)
            if s >= 2:
                add("e", s - 2, x)
                add("g", s - 1, x)
    # ---- rounding up across a digit boundary / presentation thresholds of %g
    add = ops.group("digit-boundary")
    for sgn in (1.0, -1.0):
        add("f", 4, sgn * 0.99996)
        add("f", 3, sgn * 9.9999999)
        add("f", 0, sgn * 99.5)
        add("f", 0, sgn * 98.5)
        add("f", 1, sgn * 0.0499999)
        add("f", 1, sgn * 0.05)
        add("f", 1, sgn * 0.95)
        add("f", 2, sgn * 0.995)
        add("f", 2, sgn * 0.9949999)
        add("f", 0, sgn * 0.5)
        add("f", 0, sgn * 0.4999999999999999)
        add("f", 0, sgn * 0.5000000000000001)
        add("f", 0, sgn * 0.4)
        add("f", 4, sgn * 0.00004)
        add("f", 4, sgn * 0.00005)
        add("f", 4, sgn * 0.00006)
        add("f", 4, sgn * 1e-300)
        add("f", 0, sgn * 1e-300)
        add("f", 40, sgn * 1e-41)
        add("f", 40, sgn * 4e-41)
        add("f", 40, sgn * 6e-41)
        add("f", 40, sgn * 1e-40)
        for p in (0, 1, 2, 3, 4, 5):
            add("e", p, sgn * 9.9999e-5)
            add("g", p, sgn * 9.9999e-5)
            add("e", p, sgn * 9.9996)
            add("g", p, sgn * 9.9996)
            add("e", p, sgn * 99999.5)
            add("g", p, sgn * 99999.5)
        for p in (0, 1, 5, 6, 7, 8):
            add("g", p, sgn * 999999.5)
            add("g", p, sgn * 999999.4)
            add("g", p, sgn * 1000000.0)
            add("g", p, sgn * 100000.0)
            add("g", p, sgn * 123456.0)
            add("g", p, sgn * 1234567.0)
        for v in (0.0001, 0.00001, 0.000099999, 0.00009999995, 0.000099999949, 0.00012345, 0.001):
            for p in (0, 1, 2, 3, 4, 5, 6, 7, 8, 16, 17):
                add("g", p, sgn * v)
        for p in range(6, 18):
            add("g", p, sgn * 123456789.0)
        for v in (1e15, 1e16, 1e17, 1e21, 1e22, 1e23, 9007199254740992.0, 9007199254740994.0, 123456789012345680.0):
            for p in (15, 16, 17, 18):
                add("g", p, sgn * v)
                add("e", p, sgn * v)
            for p in (0, 1, 2, 3):
                add("f", p, sgn * v)
    # ---- tiny and huge
    add = ops.group("tiny-huge")
    ext = [1e-300, 5e-324, 1e-323, 2.2250738585072014e-308, 2.225073858507201e-308, 1.7976931348623157e308,
           8.98846567431158e307, 1e308, 1e-308, 1e-310, 1e300, 1e100, 1e-100, 1.5e-45, 1e-40, 1e-39, 1e-41, 3e-41,
           2.0 ** -1022, 2.0 ** -1074, 2.0 ** 1023, 2.0 ** 52, 2.0 ** 53, 2.0 ** 63, 2.0 ** 64, 2.0 ** -30, 2.0 ** -40]
    for v in ext:
        for sgn in (1.0, -1.0):
            for p in (0, 4, 17, 40):
                add("f", p, sgn * v)
                add("e", p, sgn * v)
                add("g", p, sgn * v)
    # ---- integers and simple fractions at every k and p
    add = ops.group("integers-halves")
    simple = [0.0, 1.0, -1.0, 2.0, 5.0, 9.0, 10.0, -10.0, 15.0, 25.0, 99.0, 100.0, 101.0, 1000.0, 1e6, -1e6, 1e7,
              0.5, -0.5, 0.1, -0.1, 0.2, 0.3, 0.7, 0.9, 0.25, 0.75, 1.5, 2.5, -2.5, 3.5, 0.01, 0.001, 1.0 / 3, 2.0 / 3,
              400.0, 399.9999, 200.0, 3.141592653589793, 6378137.0, 298.257223563]
    for v in simple:
        for k in "feg":
            for p in ALL_PRECS:
                add(k, p, v)


def _random_ops(ops, rng, budget):
    """fills about `budget` further ops, split over the random categories"""
    share = {"tie-f": 0.14, "tie-eg": 0.08, "near-tie": 0.13, "nines": 0.08, "bits": 0.22, "geodetic": 0.30,
             "small-ints": 0.05}
    n = {k: max(20, int(budget * v)) for k, v in share.items()}

    # ---- exact ties for f: odd m / 2^(p+1) has exactly p+1 decimals, the last one is 5
    add = ops.group("tie-f")
    while len(ops.groups[-1][1]) < n["tie-f"]:
        r = rng.random()
        if r < 0.55:
            p = rng.randrange(0, 7)
        elif r < 0.9:
            p = rng.randrange(7, 21)
        else:
            p = rng.randrange(21, MAX_PREC + 1)
        top = rng.choice([4, 40, 4000, 10 ** 6, 10 ** 9])          # magnitude of the value
        m = 2 * rng.randrange(0, min(top * 2 ** p, 2 ** 52 - 1)) + 1
        if m >= 2 ** 53:
            continue
        x = m / 2.0 ** (p + 1)                                     # exact
        add("f", p, x if rng.random() < 0.6 else -x)
    # ---- exact ties for e / g: odd m / 2^j (or an integer ending in 5), precision = significant digits - 1
    add = ops.group("tie-eg")
    while len(ops.groups[-1][1]) < n["tie-eg"]:
        j = rng.randrange(0, 12)
        if j == 0:
            m = 10 * rng.randrange(0, 10 ** rng.randrange(1, 8)) + 5
            x = float(m) * rng.choice([1.0, 10.0, 1000.0])
        else:
            m = 2 * rng.randrange(0, 10 ** rng.randrange(1, 6)) + 1
            x = m / 2.0 ** j
            if rng.random() < 0.3:
                x *= 2.0 ** rng.randrange(-20, 0)                  # still exact, more digits
        s = len(str(Fraction(x).numerator * 5 ** (Fraction(x).denominator.bit_length() - 1)).rstrip("0"))
        if s < 2 or s - 1 > MAX_PREC:
            continue
        if rng.random() < 0.5:
            x = -x
        if rng.random() < 0.5:
            add("e", s - 2, x)
        else:
            add("g", s - 1, x)
    # ---- near ties: random decimal literals ending in 5, parsed to the nearest double
    add = ops.group("near-tie")
    while len(ops.groups[-1][1]) < n["near-tie"]:
        d = rng.randrange(1, 10)
        ip = rng.choice([0, 0, rng.randrange(0, 10), rng.randrange(0, 1000), rng.randrange(0, 10 ** 7)])
        frac = "".join(rng.choice("0123456789") for _ in range(d - 1)) + "5"
        lit = f"{ip}.{frac}"
        x = float(lit) * (1 if rng.random() < 0.7 else -1)
        r = rng.random()
        s = _sigdigits(lit)
        if r < 0.6:
            add("f", d - 1, x)
        elif r < 0.8 and s >= 2:
            add("e", s - 2, x)
        elif s >= 2:
            add("g", s - 1, x)
    # ---- runs of nines that carry into a new leading digit
    add = ops.group("nines")
    while len(ops.groups[-1][1]) < n["nines"]:
        a, b = rng.randrange(0, 8), rng.randrange(1, 12)
        tail = rng.choice("456789") + "".join(rng.choice("0123456789") for _ in range(rng.randrange(0, 4)))
        lit = ("9" * a or "0") + "." + "9" * b + tail
        scale = rng.choice([1.0, 1.0, 1e-5, 1e-4, 1e-3, 1e5, 1e6])
        x = float(lit) * scale * (1 if rng.random() < 0.7 else -1)
        k = rng.choice("ffeg")
        if k == "f":
            add("f", rng.randrange(0, b + 2), x)
        else:
            add(k, rng.randrange(0, a + b + 2), x)
    # ---- random bit patterns with a finite exponent (uniform exponent), any k, p in 0..40
    add = ops.group("bits")
    while len(ops.groups[-1][1]) < n["bits"]:
        b = rng.getrandbits(64)
        if (b >> 52) & 0x7ff == 0x7ff:
            continue
        r = rng.random()
        if r < 0.25:          # keep a good share in the range where %f prints digits on both sides of the point
            e = rng.randrange(1023 - 133, 1023 + 70)
            b = (b & ~(0x7ff << 52)) | (e << 52)
        elif r < 0.32:        # denormals
            b &= ~(0x7ff << 52)
        x = struct.unpack(">d", struct.pack(">Q", b))[0]
        k = rng.choice("ffeg")
        p = rng.choice([rng.randrange(0, MAX_PREC + 1), rng.choice(ALL_PRECS), rng.choice(F_PRECS)])
        add(k, p, x)
    # ---- geodetic values at the precisions gama uses
    add = ops.group("geodetic")
    while len(ops.groups[-1][1]) < n["geodetic"]:
        r = rng.random()
        if r < 0.45:
            v = 10 ** rng.uniform(2, 7)                            # coordinates
        elif r < 0.7:
            v = rng.uniform(0, 400)                                # angles (gon / degrees)
        elif r < 0.9:
            v = 10 ** rng.uniform(-4, 2)                           # standard deviations, corrections
        else:
            v = rng.uniform(-1, 1) * 10 ** rng.uniform(-9, 0)      # residuals
        if rng.random() < 0.5:                                     # as read from an input file with few decimals
            v = float("%.*f" % (rng.randrange(0, 7), v))
        if rng.random() < 0.25:
            v = -v
        k = rng.choice("fffeg")
        p = rng.choice({"f": F_PRECS, "e": E_PRECS, "g": G_PRECS}[k])
        add(k, p, v)
    # ---- small integers / multiples of simple steps
    add = ops.group("small-ints")
    while len(ops.groups[-1][1]) < n["small-ints"]:
        v = rng.randrange(-2000, 2001) * rng.choice([1.0, 0.5, 0.25, 0.1, 0.01, 10.0, 1000.0])
        add(rng.choice("feg"), rng.choice(ALL_PRECS), v)


def _pyfmt(k, p, x):
    """CPython's own correctly rounded formatting (used for the rd texts and as reference for e / g)"""
    if k == "f":
        return format(x, ".%df" % p)
    return ("%%.%d%s" % (p, k)) % x


def _rd_texts(rng, fmt_ops, n):
    texts = list(RD_HAND)
    pool = [_pyfmt(k, p, x) for (k, p, x) in (rng.choice(fmt_ops) for _ in range(n))]
    for t in pool:
        r = rng.random()
        if len(t) > 400:
            t = t[:rng.randrange(1, 40)]
        if r < 0.55:
            pass                                                   # exactly what the writer produces
        elif r < 0.62:
            t = t.replace("e", "E")
        elif r < 0.68:
            t = "+" + t.lstrip("-")
        elif r < 0.74 and t.lstrip("-").startswith("0."):
            t = t.replace("0.", ".", 1)
        elif r < 0.80:
            t = t + "."                                            # second point or trailing point
        elif r < 0.86:
            i = rng.randrange(0, len(t) + 1)
            t = t[:i] + rng.choice("eE+-.,xd 5") .strip() + t[i:]    # one inserted character
        elif r < 0.92 and len(t) > 1:
            i = rng.randrange(0, len(t))
            t = t[:i] + t[i + 1:]                                  # one deleted character
        elif r < 0.96:
            t = t + "e" + str(rng.randrange(-30, 30))
        else:
            t = t + rng.choice(["e", "e+", "f", "d0", "-", "e1.5"])
        if t and not any(c.isspace() for c in t):
            texts.append(t)
    return texts


def gen_cases(rng, n_fmt, n_rd=200):
    """-> (cases, meta); cases = list of list-of-op-lines, meta[i] = category of case i"""
    ops = _Ops()
    _fixed_ops(ops)
    _random_ops(ops, rng, max(n_fmt - ops.total(), n_fmt // 3))
    cases, meta = [], []
    allops = []
    for name, g in ops.groups:
        allops += g
        for i in range(0, len(g), CASE_LEN):
            cases.append(["fmt %s %d %s" % (k, p, f2h(x)) for (k, p, x) in g[i:i + CASE_LEN]])
            meta.append(name)
    texts = _rd_texts(rng, allops, n_rd)
    for i in range(0, len(texts), CASE_LEN):
        cases.append(["rd " + t for t in texts[i:i + CASE_LEN]])
        meta.append("rd")
    return cases, meta


# ------------------------------------------------------------------------------ comparison

_ratre = re.compile(r"^-?\d+(/\d+)?$")
_hexre = re.compile(r"^0x[0-9a-f]{16}$")


def value_matches(bits_tok, val_tok):
    """harness 0x-bits of the double read back  vs  exact value printed by the model -> (ok, why)"""
    if not _hexre.match(bits_tok):
        return False, "implementation value is not a 0x double"
    if val_tok == "big":
        return True, ""
    if not _ratre.match(val_tok):
        return False, f"model value `{val_tok}` is not a rational"
    h = h2f(bits_tok)
    q = Fraction(val_tok)
    if q == 0:
        return (h == 0.0), ("" if h == 0.0 else "exact value 0, implementation read a non-zero double")
    if abs(q) >= INF_THRESHOLD:
        want = float("inf") if q > 0 else float("-inf")
    else:
        want = q.numerator / q.denominator          # int / int true division is correctly rounded
    if f2h(want) == bits_tok:
        return True, ""
    return False, f"nearest double of the model's value is {f2h(want)} ({want!r}), implementation read {bits_tok} ({h!r})"


def compare_line(op, a, b):
    """one op line, implementation output a, model output b -> '' if they agree, else the reason"""
    name = op.split()[0] if op.split() else ""
    ta, tb = a.split(), b.split()
    if name not in ("fmt", "rd") or not ta or not tb or ta[0] != "ok" or tb[0] != "ok":
        return "" if a == b else "lines differ"
    if len(ta) != 3:
        return "implementation: " + (" ".join(ta[3:]) if len(ta) > 3 else "malformed line")
    if len(tb) != 3:
        return "model: malformed line"
    if name == "fmt":
        if ta[1] != tb[1]:
            return "texts differ"
        if tb[2] == "none":
            return "the model's reader rejects the model's own output"
        ok, why = value_matches(ta[2], tb[2])
        return "" if ok else "value read back: " + why
    if ta[1] != tb[1]:
        return "IsFloat flags differ"
    if ta[1] == "0":
        return ""
    if tb[2] == "none":
        return "model accepts the literal but gives no value"
    ok, why = value_matches(ta[2], tb[2])
    return "" if ok else "value: " + why



# ------------------------------------------------------------------------------ which printer gama uses where

SITES = [
    # (name, file under the repo, regex that must match the source, what the Lean side assumes)
    ("to_xmlstr", "lib/gnu_gama/local/observation.cpp",
     r"std::string\s+to_xmlstr\s*\(\s*double\s+val\s*,\s*int\s+prec\s*\)\s*\{[^}]*?ostr\s*<<\s*std::setprecision\(prec\)\s*<<\s*std::defaultfloat\s*<<\s*val\s*;",
     "C13 realCodec.fmt = fmtGen p (%.{prec}g)"),
    ("to_xmlstr-default-prec", "lib/gnu_gama/local/observation.h",
     r"to_xmlstr\s*\(\s*double\s+val\s*,\s*int\s+prec\s*=\s*std::numeric_limits<double>::max_digits10\s*\)",
     "default precision 17"),
    ("g3-dump-precision", "src/gama-g3.cpp",
     r"std::ofstream\s+out\(arg_projeq\);\s*out\.precision\(16\);[^}]*?model->write_xml_adjustment_input_data\(out\);",
     "C19 streamCodec = fmtGen 16, default floatfield"),
    ("xml-make-check-precision", "lib/gnu_gama/xml/localnetworkxml.cpp",
     r"int\s+make_check_precision\(int\)\s*\{\s*return\s+16;\s*\}",
     "C12 coordinates / observations: fixed, 16 decimals"),
    ("xml-fixed", "lib/gnu_gama/xml/localnetworkxml.cpp",
     r"out\.setf\(ios_base::fixed,\s*ios_base::floatfield\);", "C12 realNum (Fmt.fixed p)"),
    ("xml-scientific", "lib/gnu_gama/xml/localnetworkxml.cpp",
     r"out\.setf\(ios_base::scientific,\s*ios_base::floatfield\);\s*out\.precision\(7\);", "C12 realNum (Fmt.sci 7)"),
]


def check_sites(ctx, corr, stream="codec"):
    """the source still prints through the stream formats the Lean instances are stated for"""
    ok = True
    for name, rel, rx, what in SITES:
        corr.case(key="site " + name)
        f = ctx.repo / rel
        txt = f.read_text(errors="replace") if f.exists() else ""
        if re.search(rx, txt, re.S):
            corr.count("codec_sites_ok")
        else:
            ok = False
            corr.disagree(stream, ["site " + name + " " + rel], ["pattern not found in the source"], [what],
                          "the printer call the Lean instance models is no longer in the source")
    return ok


def check_codec(ctx, corr, stream="codec"):
    """build harness/codec_probe.cpp, run it and drv_codec on the same seeded op lines, compare line by line"""
    try:
        from lib.core import run_cases
    except ImportError:
        sys.path.insert(0, str(Path(__file__).resolve().parents[1]))
        from lib.core import run_cases
    sites_ok = check_sites(ctx, corr, stream)
    exe = ctx.build_cpp("codec_probe", [ctx.verif / "harness" / "codec_probe.cpp"], includes=[ctx.verif / "harness"])
    drv = ctx.driver("drv_codec")
    cases, meta = gen_cases(ctx.rng, ctx.size(3000, 30000), ctx.size(200, 1000))
    impl, crashes = run_cases(exe, cases)
    model, mcrashes = run_cases(drv, cases)
    reported = 0

    def disagree(ops, a, b, why):
        nonlocal reported
        reported += 1
        if reported <= 40:
            corr.disagree(stream, ops, a, b, why)
        else:
            corr.count("codec_disagreements_not_listed")

    for i, c in enumerate(cases):
        if i in crashes:
            for _ in c:
                corr.case()
            corr.fail("codec probe harness crashed / sanitizer report", {"stream": stream, "category": meta[i], "ops": c},
                      site="harness/codec_probe.cpp", detail=crashes[i][1])
            continue
        out, mout = impl[i], model[i]
        if len(out) != len(c) or len(mout) != len(c):
            for _ in c:
                corr.case()
            disagree(c[:10], out[:10], mout[:10],
                     f"{len(c)} ops, {len(out)} implementation lines, {len(mout)} model lines"
                     + (" (driver crashed: %s)" % mcrashes[i][1][-300:] if i in mcrashes else ""))
            continue
        for op, a, b in zip(c, out, mout):
            t = op.split()
            corr.case(key=op, sample={"stream": stream, "category": meta[i], "op": op, "impl": a[:200], "model": b[:200]}
                      if corr.evaluations % 701 == 3 else None)
            ta = a.split()
            if t[0] == "fmt":
                corr.count("codec_fmt_" + t[1])
                if is_tie(t[1], int(t[2]), h2f(t[3])):
                    corr.count("codec_ties")
                    corr.count("codec_ties_" + t[1])
                if len(ta) >= 2 and is_neg_zero_text(ta[1]):
                    corr.count("codec_neg_zero_text")
                if len(ta) >= 2:
                    corr.maxstat("codec_max_text_length", len(ta[1]))
                if len(ta) >= 3 and ta[2] in ("0x7ff0000000000000", "0xfff0000000000000"):
                    corr.count("codec_overflow_text")      # finite double whose text reads back as +-inf
            else:
                corr.count("codec_rd")
                if len(ta) >= 2 and ta[1] == "0":
                    corr.count("codec_rd_rejected")
            why = compare_line(op, a, b)
            if why:
                disagree([op], [a], [b], f"{meta[i]}: {why}")
            else:
                corr.count("codec_lines_agree")
    for k in ("codec_fmt_f", "codec_fmt_e", "codec_fmt_g", "codec_ties", "codec_neg_zero_text", "codec_rd", "codec_rd_rejected"):
        corr.count(k, 0)
    if corr.stats.get("codec_ties", 0) < 50:
        corr.inconclusive.append(f"{stream}: only {corr.stats.get('codec_ties', 0)} exact ties exercised (< 50)")
    if corr.stats.get("codec_neg_zero_text", 0) < 5:
        corr.inconclusive.append(f"{stream}: only {corr.stats.get('codec_neg_zero_text', 0)} negative-zero texts exercised (< 5)")
    return reported == 0 and sites_ok


# ------------------------------------------------------------------------------ standalone self-test of the harness

_isfloat_re = re.compile(r"^[+-]?(?:\d+\.?\d*|\.\d+)(?:[eE][+-]?\d+)?$")      # the grammar GNU_gama::IsFloat decides


def ref_fixed(x, p, rounding=ROUND_HALF_EVEN):
    """exact binary value of x rounded at p decimals, sign taken from the sign bit"""
    with localcontext() as c:
        c.prec = 1200
        q = Decimal(x).quantize(Decimal(1).scaleb(-p), rounding=rounding)      # Decimal(float) is exact
        body = format(abs(q), "f")
    neg = struct.pack(">d", x)[0] & 0x80
    return ("-" if neg else "") + body


def main(argv):
    args = [a for a in argv if not a.startswith("--")]
    seed = args[0] if args else "1"
    thorough = "--thorough" in argv
    exe = Path("/tmp") / f"codec_probe_selftest_{os.getpid()}"
    cmd = ["g++", "-O1", "-std=c++17", "-I" + str(VERIF / "harness"), "-I" + str(REPO / "lib"),
           str(VERIF / "harness" / "codec_probe.cpp"), "-o", str(exe)]
    r = subprocess.run(cmd, capture_output=True, text=True)
    if r.returncode != 0:
        print("build failed:\n" + r.stderr)
        return 2
    rng = random.Random(f"codec-{seed}")
    cases, meta = gen_cases(rng, 30000 if thorough else 3000, 1000 if thorough else 200)
    text = "".join(f"case {i}\n" + "".join(l + "\n" for l in c) for i, c in enumerate(cases)) + "nonsense op\n"
    r = subprocess.run([str(exe)], input=text, capture_output=True, text=True)
    try:
        exe.unlink()
    except OSError:
        pass
    if r.returncode != 0:
        print(f"harness exit code {r.returncode}\n{r.stderr[-2000:]}")
        return 2
    outs, cur = {}, None
    for l in r.stdout.splitlines():
        if l.startswith("case "):
            cur = int(l.split()[1])
            outs[cur] = []
        elif cur is not None:
            outs[cur].append(l)
    cnt, diffs = {}, []

    def count(k, n=1):
        cnt[k] = cnt.get(k, 0) + n

    def diff(cat, op, got, want, what):
        count("DIFFERENCES")
        count("diff: " + what)
        if len(diffs) < 10:
            diffs.append(f"[{cat}] {op}\n      c++      : {got[:300]}\n      reference: {want[:300]}   ({what})")

    if outs[len(cases) - 1][-1:] != ["bad-op"]:
        diff("protocol", "nonsense op", str(outs[len(cases) - 1][-1:]), "bad-op", "unknown op")
    else:
        outs[len(cases) - 1].pop()
    for i, c in enumerate(cases):
        out = outs.get(i, [])
        if len(out) != len(c):
            diff(meta[i], f"case {i}", f"{len(out)} lines", f"{len(c)} lines", "line count")
            continue
        for op, a in zip(c, out):
            t, ta = op.split(), a.split()
            if t[0] == "fmt":
                k, p, x = t[1], int(t[2]), h2f(t[3])
                count("fmt_" + k)
                count("category " + meta[i])
                if len(ta) != 3 or ta[0] != "ok":
                    diff(meta[i], op, a, "ok <text> <bits>", "readers disagree" if "MISMATCH-READERS" in a else "shape")
                    continue
                txt = ta[1]
                cnt["max_text_length"] = max(cnt.get("max_text_length", 0), len(txt))
                if is_neg_zero_text(txt):
                    count("neg_zero_text")
                    if x >= 0:
                        diff(meta[i], op, a, "no minus sign", "minus sign on a non-negative value")
                if ta[2] in ("0x7ff0000000000000", "0xfff0000000000000"):
                    count("overflow_text (finite double whose text reads back as inf)")
                if re.search(r"e[+-]\d\d\d$", txt):
                    count("three_digit_exponent")
                tie = is_tie(k, p, x)
                if k == "f":
                    want = ref_fixed(x, p)
                    if _pyfmt(k, p, x) != want:
                        count("python_format_differs_from_decimal_reference")
                else:
                    want = _pyfmt(k, p, x)
                if tie:
                    count("ties")
                    count("ties_" + k)
                    if k == "f":
                        away = ref_fixed(x, p, ROUND_HALF_UP)
                        if away != want:
                            count("ties_f where half-even and half-away differ")
                            if txt == want:
                                count("ties_f resolved half-EVEN by c++ (where the two differ)")
                            elif txt == away:
                                count("ties_f resolved half-AWAY by c++ (where the two differ)")
                if txt != want:
                    diff(meta[i], op + f"   ({x!r})", txt, want, f"text {k}" + (" at an exact tie" if tie else ""))
                back = float(txt)                     # CPython: correctly rounded, independent of the C library
                if f2h(back) != ta[2]:
                    diff(meta[i], op, a, f2h(back), "strtod of the text")
                # does the text, read back, identify the double?  (statistics only)
                if back == x:
                    count(f"roundtrip_exact_{k}")
            else:
                txt = t[1]
                count("rd")
                if len(ta) != 3 or ta[0] != "ok" or ta[1] not in ("0", "1"):
                    diff("rd", op, a, "ok <flag> <bits>", "shape")
                    continue
                flag = "1" if _isfloat_re.match(txt) else "0"
                if flag == "0":
                    count("rd_rejected")
                if ta[1] != flag:
                    diff("rd", op, a, "flag " + flag, "IsFloat flag")
                elif flag == "1":
                    try:
                        want = f2h(float(txt))
                    except ValueError:
                        want = "python cannot read it"
                    if want != ta[2]:
                        diff("rd", op, a, want, "atof of an accepted literal")
    print(f"codec_probe self-test: seed {seed}, {len(cases)} cases, "
          f"{sum(len(c) for c in cases)} ops ({'thorough' if thorough else 'quick'})")
    for k in sorted(cnt):
        print(f"  {k:70s} {cnt[k]}")
    if diffs:
        print(f"first {len(diffs)} differences:")
        for d in diffs:
            print("  " + d)
    else:
        print("no differences between the C++ harness and the Python reference")
    return 1 if diffs else 0


if __name__ == "__main__":
    sys.exit(main(sys.argv[1:]))
