"""
Correspondence stream for the ONE-function model of `LocalNetwork::project_equations()`
(lean/Gama/Model/ProjectEquations.lean, driver drv_pe, harness harness/pe_net.cpp).

    from gen.pe_stream import pe_stream
    fails = pe_stream(ctx, corr, n)          # list of Failure; disagreements / counts go to corr

Plugin independent: imports only lib.core and lib.gen_net.  Generators (everything from ctx.rng):
  * mixed networks in the style of C05's network stream (directions / orientations, distances, angles with
    bs = fs, azimuths, slope distances, zenith angles, height differences incl. a point levelled to itself, 3D
    points, height-only points, constrained points adj="XY"/"Z"), with the variants
      single_dir  one station observes a single direction (the single-direction rule of revision_observations)
      one_dist    a free / constrained point is tied by one distance only (numeric half of singular_coords, recursion)
      one_dir     a free point is the target of one direction only
      no_obs      a free point without any observation (structural half of singular_coords, recursion)
  * networks in the style of C01's façade stream (lib.gen_net: plane / levelling / space; correlated clusters with band
    covariance matrices, <coordinates> and <vectors> clusters, passive observations inside correlated clusters, free
    networks with constrained points)
Per network ONE harness case: load (every tenth mixed network `raw`, i.e. without Acord2: no orientations), pass, touch, pass, refine, pass, drop <victim>, pass[, rm_obs k, pass].
Every pass gives up to three model cases: the state between `revision_observations()` and the rest of the call (P lines)
must reproduce every R line; the state after the call (Q lines) must reproduce every R line except `R rm` (the call is
a fixpoint); the state before `revision_observations()` (O lines; only when the revision left the point lines alone,
i.e. revision_points had nothing to do) must reproduce every R line — this is where the model's `revise` does real work.

    python3 tools/gen/pe_stream.py [--seed N] [--n N] [--repo PATH]
"""
import math
import re
import os
import sys
import time
from pathlib import Path

if __name__ == "__main__":                     # lib.core reads GAMA_REPO when it is imported
    if "--repo" in sys.argv[1:-1]:
        os.environ["GAMA_REPO"] = sys.argv[sys.argv.index("--repo") + 1]
    sys.path.insert(0, str(Path(__file__).resolve().parents[1]))

import json        # noqa: E402
import shutil      # noqa: E402
import tempfile    # noqa: E402
from fractions import Fraction   # noqa: E402
from lib import core             # noqa: E402
from lib.core import Failure, BuildError, run_cases, lines_equal, sha   # noqa: E402
from lib import gen_net as gn    # noqa: E402

SITE = "LocalNetwork::project_equations"
ALGS = ["env", "chol", "gso", "svd"]
RTOL, ATOL = 1e-9, 1e-12


# ----------------------------------------------------------------------------- mixed networks (after C05's gen_network)

AXES = ["ne", "sw", "es", "wn", "en", "nw", "se", "ws"]
VARIANTS = [None, None, "single_dir", "one_dist", "one_dir", "no_obs"]


def _frame(axes, angles):
    comp = {"n": (0.0, 1.0), "s": (0.0, -1.0), "e": (1.0, 0.0), "w": (-1.0, 0.0)}
    (xE, xN), (yE, yN) = comp[axes[0]], comp[axes[1]]
    return xE, xN, yE, yN, angles == "left-handed"


def _north_angle(F, dx, dy):
    xE, xN, yE, yN, cw = F
    a = math.atan2(dx * xE + dy * yE, dx * xN + dy * yN)
    if not cw:
        a = -a
    return a % (2 * math.pi)


def gen_mixed(rng, variant=None):
    """a mixed network as .gkf text; returns (text, meta)"""
    axes, angles = rng.choice(AXES), rng.choice(["left-handed", "right-handed"])
    F = _frame(axes, angles)
    pts = {}           # id -> dict(x,y,z, kind)
    used = []

    def place():
        for _ in range(200):
            x, y = rng.uniform(1000, 2000), rng.uniform(5000, 6000)
            if all(math.hypot(x - u[0], y - u[1]) > 60 for u in used):
                break
        used.append((x, y))
        return x, y

    def pid(prefix):
        return prefix + str(len(pts) + 1) if rng.random() < 0.6 else str(100 * rng.randint(1, 9) + len(pts) + 1)

    n3 = rng.choice([0, 0, 1, 2])
    nfix = rng.choice([2, 2, 3])
    for i in range(nfix):
        x, y = place()
        pts[pid("F")] = dict(x=x, y=y, z=rng.uniform(200, 300), kind="fix3" if (n3 > 0 and i == 0) else "fix2")
    for i in range(rng.randint(1, 3)):
        x, y = place()
        pts[pid("P")] = dict(x=x, y=y, z=None, kind="free2", con=rng.random() < 0.3)
    for i in range(n3):
        x, y = place()
        pts[pid("T")] = dict(x=x, y=y, z=rng.uniform(200, 300), kind="free3", con=rng.random() < 0.25)
    hid = []
    h0 = pid("H")
    pts[h0] = dict(x=None, y=None, z=rng.uniform(200, 300), kind="hfix")
    hid.append(h0)
    for i in range(rng.choice([1, 2, 2, 3])):
        k = pid("H")
        pts[k] = dict(x=None, y=None, z=rng.uniform(200, 300), kind="hfree", con=rng.random() < 0.25)
        hid.append(k)
    xy = [k for k, p in pts.items() if p["x"] is not None]
    p3 = [k for k, p in pts.items() if p["kind"] in ("fix3", "free3")]
    lone = None
    if variant in ("one_dist", "one_dir", "no_obs"):
        x, y = place()
        lone = pid("Q")
        pts[lone] = dict(x=x, y=y, z=None, kind="lone2", con=(variant == "one_dist" and rng.random() < 0.5))
    L = ['<?xml version="1.0" ?>', '<gama-local xmlns="http://www.gnu.org/software/gama/gama-local">',
         f'<network axes-xy="{axes}" angles="{angles}">',
         f'<description>pe mixed variant={variant}</description>',
         f'<parameters sigma-act="apriori" sigma-apr="{rng.choice((1, 2.5, 10))}" />',
         '<points-observations direction-stdev="10" angle-stdev="10" distance-stdev="5" zenith-angle-stdev="10" azimuth-stdev="10">']
    for k, p in pts.items():
        noise = (lambda: rng.uniform(-0.3, 0.3)) if p["kind"] in ("free2", "free3", "hfree", "lone2") else (lambda: 0.0)
        a = f'<point id="{k}"'
        if p["x"] is not None:
            a += f' x="{p["x"] + noise():.4f}" y="{p["y"] + noise():.4f}"'
        if p["kind"] in ("fix3", "free3", "hfix", "hfree"):
            a += f' z="{p["z"] + noise():.4f}"'
        a += {"fix2": ' fix="xy"', "fix3": ' fix="xyz"', "hfix": ' fix="z"',
              "free2": ' adj="XY"' if p.get("con") else ' adj="xy"',
              "lone2": ' adj="XY"' if p.get("con") else ' adj="xy"',
              "free3": ' adj="XYZ"' if p.get("con") else ' adj="xyz"',
              "hfree": ' adj="Z"' if p.get("con") else ' adj="z"'}[p["kind"]]
        L.append(a + " />")

    def az(a, b):
        return _north_angle(F, pts[b]["x"] - pts[a]["x"], pts[b]["y"] - pts[a]["y"])

    def gon(r):
        return (r % (2 * math.pi)) * 200 / math.pi

    def hd(a, b):
        return math.hypot(pts[b]["x"] - pts[a]["x"], pts[b]["y"] - pts[a]["y"])

    nobs = 0
    stations = rng.sample(xy, min(len(xy), rng.randint(2, 4)))
    single = rng.choice(stations) if variant == "single_dir" else None
    lone_host = rng.choice(stations) if lone and variant != "no_obs" else None
    for st in stations:
        others = [k for k in xy if k != st]
        L.append(f'<obs from="{st}">')
        ori = rng.uniform(0, 2 * math.pi)
        ndir = 1 if st == single else rng.randint(2, 4)
        for t in rng.sample(others, min(len(others), ndir)):
            L.append(f'<direction to="{t}" val="{gon(az(st, t) - ori + rng.gauss(0, 2e-5)):.6f}" />')
            nobs += 1
        if st == lone_host and variant == "one_dir":
            L.append(f'<direction to="{lone}" val="{gon(az(st, lone) - ori + rng.gauss(0, 2e-5)):.6f}" />')
            nobs += 1
        for t in others:
            if rng.random() < 0.7:
                L.append(f'<distance to="{t}" val="{hd(st, t) + rng.gauss(0, 0.003):.4f}" />')
                nobs += 1
        if st == lone_host and variant == "one_dist":
            L.append(f'<distance to="{lone}" val="{hd(st, lone) + rng.gauss(0, 0.003):.4f}" />')
            nobs += 1
        if len(others) >= 2 and rng.random() < 0.6:
            b, f = rng.sample(others, 2)
            if rng.random() < 0.15:
                f = b                                   # angle with identical targets
            L.append(f'<angle bs="{b}" fs="{f}" val="{gon(az(st, f) - az(st, b) + rng.gauss(0, 2e-5)):.6f}" />')
            nobs += 1
        if rng.random() < 0.3:
            t = rng.choice(others)
            L.append(f'<azimuth to="{t}" val="{gon(az(st, t) + rng.gauss(0, 2e-5)):.6f}" />')
            nobs += 1
        if st in p3:
            for t in p3:
                if t != st:
                    dz = pts[t]["z"] - pts[st]["z"]
                    sd = math.sqrt(hd(st, t) ** 2 + dz * dz)
                    za = math.acos(dz / sd)
                    if rng.random() < 0.3:
                        za = 2 * math.pi - za              # second face
                    L.append(f'<s-distance to="{t}" val="{sd + rng.gauss(0, 0.003):.4f}" />')
                    L.append(f'<z-angle to="{t}" val="{gon(za + rng.gauss(0, 2e-5)):.6f}" />')
                    nobs += 2
        L.append("</obs>")
    # every free xy point (but the lone one) is tied by distances from two other points
    for k, p in pts.items():
        if p["kind"] in ("free2", "free3"):
            L.append(f'<obs from="{k}">')
            for t in rng.sample([q for q in xy if q != k], 2):
                L.append(f'<distance to="{t}" val="{hd(k, t) + rng.gauss(0, 0.003):.4f}" />')
                nobs += 1
            L.append("</obs>")
    L.append("<height-differences>")
    zs = hid + p3
    ring = hid + [hid[0]]
    for a, b in zip(ring, ring[1:]):
        L.append(f'<dh from="{a}" to="{b}" val="{pts[b]["z"] - pts[a]["z"] + rng.gauss(0, 0.001):.4f}" stdev="1.0" />')
        nobs += 1
    for t in p3:
        a = rng.choice(hid)
        L.append(f'<dh from="{a}" to="{t}" val="{pts[t]["z"] - pts[a]["z"] + rng.gauss(0, 0.001):.4f}" stdev="1.0" />')
        nobs += 1
    if rng.random() < 0.2:
        a = rng.choice(zs)
        L.append(f'<dh from="{a}" to="{a}" val="0.0003" stdev="1.0" />')      # a point levelled to itself
        nobs += 1
    L.append("</height-differences>")
    L += ["</points-observations>", "</network>", "</gama-local>"]
    free = [k for k, p in pts.items() if p["kind"] in ("free2", "free3", "hfree")]
    victim = rng.choice(free)
    what = {"free2": "xy", "hfree": "z", "free3": rng.choice(["xy", "z", "xyz"])}[pts[victim]["kind"]]
    meta = {"family": "mixed", "variant": variant, "drop": [victim, what], "nobs": nobs}
    return "\n".join(L) + "\n", meta


# ----------------------------------------------------------------------------- correlated networks (after C01's façade stream)

def _spd(rng, sds, band):
    """SPD band covariance matrix C = D L L' D / 4 (L lower triangular with bandwidth `band`, D = diag(sds))"""
    n = len(sds)
    band = max(1, min(band, n - 1)) if n > 1 else 0
    Lm = [[Fraction(0)] * n for _ in range(n)]
    for i in range(n):
        Lm[i][i] = Fraction(rng.choice((2, 2, 3)))
        for j in range(max(0, i - band), i):
            Lm[i][j] = Fraction(rng.choice((-2, -1, -1, 0, 1, 1, 2)), 2)
    if band:
        i = rng.randrange(band, n)
        if Lm[i][i - band] == 0:
            Lm[i][i - band] = Fraction(rng.choice((-1, 1)), 2)
    d = [Fraction(x) for x in sds]
    C = [[float(sum(Lm[i][k] * Lm[j][k] for k in range(n)) * d[i] * d[j] / 4) for j in range(n)] for i in range(n)]
    return band, C


def _band(rng, n):
    return rng.choice([1, 1, 2, 3, n - 1, rng.randint(1, max(1, n - 1))])


def _ghost_point(rng, net, mode):
    g = {"x": rng.uniform(100, 900), "y": rng.uniform(100, 900), "z": rng.uniform(100, 300)}
    if mode == "unmarked":
        p = {"status": "none", "approx": True}
        if net["dim"] in (2, 3):
            p.update(x=g["x"], y=g["y"])
        if net["dim"] in (1, 3):
            p.update(z=g["z"])
        net["points"]["G"] = p
    return g


def _correlate_obs(rng, net, o, ghost, gpt):
    items = o["items"]
    if ghost:
        s = net["points"][o["from"]]
        if rng.random() < 0.5:
            it = {"t": "distance", "to": "G", "val": gn.dist2(s, gpt), "stdev": 5.0}
        else:
            it = {"t": "direction", "to": "G", "val": (gn.bearing(s, gpt) * gn.GON - o["orient"]) % 400.0, "stdev": 10.0}
        items.insert(rng.randint(0, len(items)), it)
    sds = [it["stdev"] for it in items]
    for it in items:
        del it["stdev"]
    o["band"], o["cov"] = _spd(rng, sds, _band(rng, len(items)))


def _some_constrained(rng, net, free, lo):
    ids = list(net["points"])
    if free and rng.random() < 0.5:                    # only some of the points carry the regularisation
        keep = set(rng.sample(ids, rng.randint(lo, len(ids) - 1)))
        for p in ids:
            if p not in keep:
                net["points"][p]["status"] = "adj"
    return ids


def _plane(rng, free, corr, ghost, mode):
    npts = rng.randint(4, 6)
    net = gn.make_network(rng, npts=npts, dim=2, nfixed=2, kinds=("direction", "distance"), density=rng.choice((0.3, 0.5)),
                          noise=1.0, free=free)
    ids = _some_constrained(rng, net, free, 2)
    adjustable = [p for p in ids if net["points"][p]["status"] != "fix"]
    gpt = _ghost_point(rng, net, mode) if ghost else None
    if corr:
        what = rng.choice(("obs", "obs", "coords", "both"))
        g_left = ghost
        if what in ("obs", "both"):
            for o in rng.sample(net["obs"], rng.randint(1, 2)):
                _correlate_obs(rng, net, o, g_left, gpt)
                g_left = False
        if what in ("coords", "both"):
            items = []
            for p in rng.sample(adjustable, rng.randint(1, min(3, len(adjustable)))):
                t = net["points"][p]
                items.append({"id": p, "x": t["x"] + rng.gauss(0, 3e-3), "y": t["y"] + rng.gauss(0, 3e-3)})
            if g_left or (ghost and rng.random() < 0.5):
                items.insert(rng.randint(0, len(items)), {"id": "G", "x": gpt["x"], "y": gpt["y"]})
            sds = [rng.choice((2, 3, 5)) for _ in range(2 * len(items))]
            band, cov = _spd(rng, sds, _band(rng, len(sds)))
            net["obs"].insert(rng.randint(0, len(net["obs"])), {"kind": "coords", "items": items, "cov": cov, "band": band})
    return net


def _lev(rng, free, corr, ghost, mode):
    npts = rng.randint(4, 7)
    net = gn.levelling_network(rng, npts=npts, nfixed=1, extra=rng.randint(2, 4), noise=1.0, free=free)
    ids = _some_constrained(rng, net, free, 1)
    gpt = _ghost_point(rng, net, mode) if ghost else None
    if corr:
        g_left = ghost
        base = net["obs"][0]
        if rng.random() < 0.5:                       # the cluster of the whole network becomes correlated
            if g_left and rng.random() < 0.5:
                a = rng.choice(ids)
                base["items"].insert(rng.randint(0, len(base["items"])),
                                     {"from": a, "to": "G", "val": gpt["z"] - net["points"][a]["z"]})
                g_left = False
            for it in base["items"]:
                it.pop("dist", None)
            sds = [rng.choice((1, 1.5, 2, 3)) for _ in base["items"]]
            base["band"], base["cov"] = _spd(rng, sds, _band(rng, len(sds)))
        if g_left or rng.random() < 0.7 or not base.get("cov"):
            items = []
            for _ in range(rng.randint(2, 5)):
                a, b = rng.sample(ids, 2)
                items.append({"from": a, "to": b, "val": net["points"][b]["z"] - net["points"][a]["z"] + rng.gauss(0, 1e-3)})
            if g_left:
                a = rng.choice(ids)
                it = {"from": a, "to": "G", "val": gpt["z"] - net["points"][a]["z"]}
                if rng.random() < 0.5:
                    it = {"from": "G", "to": a, "val": -it["val"]}
                items.insert(rng.randint(0, len(items)), it)
            sds = [rng.choice((1, 1.5, 2, 3)) for _ in items]
            band, cov = _spd(rng, sds, _band(rng, len(sds)))
            net["obs"].insert(rng.randint(0, len(net["obs"])), {"kind": "hdiffs", "items": items, "cov": cov, "band": band})
    return net


def _space(rng, free, corr, ghost, mode):
    npts = rng.randint(4, 5)
    net = gn.make_network(rng, npts=npts, dim=3, nfixed=2, kinds=("direction", "distance", "dh", "vector"),
                          density=0.3, noise=1.0, free=free)
    ids = _some_constrained(rng, net, free, 2)
    gpt = _ghost_point(rng, net, mode) if ghost else None
    vec = [o for o in net["obs"] if o["kind"] == "vectors"][0]
    hd = [o for o in net["obs"] if o["kind"] == "hdiffs"][0]
    if corr:
        if ghost:
            ida = rng.choice(ids)
            a = net["points"][ida]
            it = {"from": ida, "to": "G", "dx": gpt["x"] - a["x"], "dy": gpt["y"] - a["y"], "dz": gpt["z"] - a["z"]}
            vec["items"].insert(rng.randint(0, len(vec["items"])), it)
        sds = [rng.choice((2, 3, 4)) for _ in range(3 * len(vec["items"]))]
        vec["band"], vec["cov"] = _spd(rng, sds, rng.choice((1, 2, 2, 5, len(sds) - 1)))
        if rng.random() < 0.4:
            if ghost and rng.random() < 0.5:
                a = rng.choice(ids)
                hd["items"].insert(rng.randint(0, len(hd["items"])),
                                   {"from": a, "to": "G", "val": gpt["z"] - net["points"][a]["z"], "stdev": 1.0})
            sds = [it.pop("stdev") for it in hd["items"]]
            hd["band"], hd["cov"] = _spd(rng, sds, _band(rng, len(sds)))
    return net


def gen_correlated(rng):
    fam = rng.choice(("plane", "plane", "lev", "space", "space"))
    free = rng.random() < 0.55
    corr = rng.random() < 0.9
    ghost = corr and rng.random() < 0.7
    mode = rng.choice(("undefined", "unmarked"))
    net = {"plane": _plane, "lev": _lev, "space": _space}[fam](rng, free, corr, ghost, mode)
    net["params"]["sigma-apr"] = rng.choice((1, 2.5, 10))
    net["params"]["sigma-act"] = rng.choice(("aposteriori", "apriori"))
    nobs = 0
    for o in net["obs"]:
        nobs += len(o["items"]) * {"obs": 1, "hdiffs": 1, "vectors": 3, "coords": 2}[o["kind"]]
    adjustable = [p for p, v in net["points"].items() if v["status"] in ("adj", "con")]
    victim = rng.choice(adjustable)
    what = {1: "z", 2: "xy", 3: rng.choice(("xy", "z", "xyz"))}[net["dim"]]
    meta = {"family": fam, "free": free, "corr": corr, "ghost": ghost, "drop": [victim, what], "nobs": nobs}
    text = gn.to_gkf(net, description="pe correlated " + " ".join(f"{k}={v}" for k, v in meta.items() if k != "drop"))
    return text, meta


def gen_networks(rng, n):
    """stratified: about 55% mixed (every variant in turn), 45% correlated"""
    out = []
    for i in range(n):
        if i % 9 in (1, 3, 5, 7):
            out.append(gen_correlated(rng))
        else:
            out.append(gen_mixed(rng, VARIANTS[(i // 2) % len(VARIANTS)] if i >= 2 else ("one_dist", "single_dir")[i]))
    return out


# ----------------------------------------------------------------------------- running

def pe_harness(ctx):
    for attempt in range(3):
        try:
            d = ctx.build_gama(sanitize=True, targets=("gama-local",))
            break
        except BuildError as e:
            if attempt == 2 or "No such file or directory" not in e.log:
                raise
            time.sleep(3 + 5 * attempt)
    objs = sorted(str(p) for p in (d / "CMakeFiles" / "libgama.dir").rglob("*.o"))
    if not objs:
        raise BuildError("pe_net", "no libgama objects under " + str(d))
    return ctx.build_cpp("pe_net", [ctx.verif / "harness" / "pe_net.cpp"], libs=objs + ["-lexpat"])


def ops_for(rng, path, meta, alg):
    ops = [f"load {path} {alg}" + (" raw" if meta.get("raw") else ""), "pass", "touch", "pass", "refine", "pass"]
    if meta.get("drop"):
        ops += [f"drop {meta['drop'][0]} {meta['drop'][1]}", "pass"]
    if meta.get("rm_obs") is not None:
        ops += [f"rm_obs {meta['rm_obs']}", "pass"]
    return ops


def split_passes(out):
    """harness output of one case -> list of passes {P, R, Q, E}"""
    passes, cur = [], None
    for l in out:
        if l.startswith("O net ") or (l.startswith("P net ") and not (cur and cur["O"] and not cur["P"])):
            cur = {"O": [], "P": [], "R": [], "Q": [], "E": []}
            passes.append(cur)
        if cur is None:
            continue
        if l.startswith("O "):
            cur["O"].append(l[2:])
        elif l.startswith("P "):
            cur["P"].append(l[2:])
        elif l.startswith("Q "):
            cur["Q"].append(l[2:])
        elif l.startswith("R "):
            cur["R"].append(l)
        else:
            cur["E"].append(l)
    return passes


def first_difference(impl, model, skip_rm=False):
    """None or a description of the first R line that differs"""
    a = [l for l in impl if not (skip_rm and l.startswith("R rm"))]
    b = [l for l in model if not (skip_rm and l.startswith("R rm"))]
    for x, y in zip(a, b):
        if not lines_equal(x, y, rtol=RTOL, atol=ATOL):
            return f"impl `{x[:300]}` model `{y[:300]}`"
    if len(a) != len(b):
        extra = (a[len(b):] or b[len(a):])[0]
        return f"{len(a)} R lines, model {len(b)}; first unmatched `{extra[:200]}`"
    return None


def parse_pass(ps):
    """the P and R lines of one pass as a dict (implementation side only)"""
    d = {"pts": [], "cls": [], "n": None, "rows": [], "unk": {}, "idx": {}, "ori": {}, "minx": None, "ranges": [], "covs": [],
         "st": [], "rm": [], "throw": None}
    for l in ps["P"]:
        t = l.split()
        if t[0] == "pt":
            d["pts"].append({"id": t[1], "sxy": t[5], "sz": t[6], "idx": tuple(map(int, t[7:10]))})
        elif t[0] == "cl":
            if t[1] == "S":
                d["cls"].append({"S": True, "station": int(t[2]), "has_ori": t[3] == "1", "dim": int(t[5]), "band": int(t[6]), "obs": []})
            else:
                d["cls"].append({"S": False, "dim": int(t[2]), "band": int(t[3]), "obs": []})
        elif t[0] == "ob":
            d["cls"][-1]["obs"].append({"active": t[1] == "1", "cls": t[2], "from": int(t[3]), "to": int(t[4]), "fs": int(t[5])})
    d["after"] = []        # the clusters after the call (Q lines): active() flags as the last inner call left them
    for l in ps["Q"]:
        t = l.split()
        if t[0] == "cl":
            d["after"].append({"S": t[1] == "S", "obs": []})
        elif t[0] == "ob":
            d["after"][-1]["obs"].append({"active": t[1] == "1", "cls": t[2], "to": int(t[4])})
    for l in ps["R"]:
        t = l.split()
        k = t[1]
        if k == "n":
            d["n"] = (int(t[2]), int(t[3]))
        elif k == "row":
            d["rows"].append([int(t[4 + 2 * i]) for i in range(int(t[3]))])
        elif k == "unk":
            d["unk"][int(t[2])] = tuple(t[3:6])
        elif k == "idx":
            d["idx"][int(t[2])] = tuple(map(int, t[3:6]))
        elif k == "ori":
            d["ori"][int(t[2])] = int(t[3])
        elif k == "minx":
            d["minx"] = list(map(int, t[3:]))
        elif k == "range":
            d["ranges"].append((int(t[2]), int(t[3])))
        elif k == "cov":
            d["covs"].append((int(t[2]), int(t[3])))
        elif k == "st":
            d["st"] = t[2:]
        elif k == "rm":
            d["rm"] = t[2:]
        elif k == "throw":
            d["throw"] = " ".join(t[2:])
    return d


def oracle(d):
    """properties of the implementation's own answer; None or a dict describing the first violation"""
    if d["throw"] or d["n"] is None:
        return None
    m, n = d["n"]
    for r, cols in enumerate(d["rows"]):
        for c in cols:
            if not 1 <= c <= n:
                return {"what": "row entry outside the design matrix", "row": r + 1, "column": c, "columns": n}
    if len(d["rows"]) != m:
        return {"what": "number of sparse rows differs from pocmer_", "rows": len(d["rows"]), "pocmer": m}
    for j in range(1, n + 1):
        if d["unk"].get(j, ("?",))[0] == "?":
            return {"what": "design-matrix column without an unknown", "column": j}
    seen = {}

    def claim(j, lab, who):
        if not 1 <= j <= n:
            return {"what": "index of an adjusted unknown outside 1..n", "index": j, "unknown": who, "columns": n}
        if j in seen:
            return {"what": "two adjusted unknowns share one column", "column": j, "unknowns": [seen[j], who]}
        seen[j] = who
        if d["unk"].get(j) != lab:
            return {"what": "unknown table does not name the unknown that carries this index", "column": j,
                    "table": list(d["unk"].get(j, ())), "expected": list(lab)}
        return None
    for p, pt in enumerate(d["pts"]):
        if p >= len(d["st"]):
            break
        sxy, sz = d["st"][p][0], d["st"][p][1]
        ix, iy, iz = d["idx"].get(p, (0, 0, 0))
        if sxy in "ac":
            if ix == 0 or iy == 0:
                return {"what": "adjusted xy point without a column after project_equations (singular_coords must have removed it)",
                        "point": pt["id"], "index_x": ix, "index_y": iy}
            bad = claim(ix, ("X", pt["id"], "-"), f"x {pt['id']}") or claim(iy, ("Y", pt["id"], "-"), f"y {pt['id']}")
            if bad:
                return bad
        if sz in "ac" and iz:
            bad = claim(iz, ("Z", pt["id"], "-"), f"z {pt['id']}")
            if bad:
                return bad
    for k, cl in enumerate(d["cls"]):
        io = d["ori"].get(k, 0)
        if cl["S"] and io:
            sid = d["pts"][cl["station"]]["id"] if cl["station"] < len(d["pts"]) else "?"
            bad = claim(io, ("R", sid, str(k)), f"orientation of cluster {k}")
            if bad:
                return bad
    if len(seen) != n:
        return {"what": "a column belongs to no adjusted coordinate / orientation", "columns": n,
                "claimed": sorted(seen), "unclaimed": [j for j in range(1, n + 1) if j not in seen][:6]}
    want = []
    for p, pt in enumerate(d["pts"]):
        if p >= len(d["st"]):
            break
        ix, iy, iz = d["idx"].get(p, (0, 0, 0))
        if d["st"][p][0] == "c" and ix:
            want += [iy, ix]
        if d["st"][p][1] == "c" and iz:
            want += [iz]
    if d["minx"] != want:
        return {"what": "min_x_ is not the list [index_y, index_x], [index_z] of the constrained points", "min_x": d["minx"], "expected": want}
    if len(set(want)) != len(want) or any(not 1 <= j <= n for j in want):
        return {"what": "min_x_ entries not distinct / outside 1..n", "min_x": d["minx"], "columns": n}
    at = 0
    if len(d["ranges"]) != len(d["covs"]):
        return {"what": "ranges / covariance blocks", "ranges": d["ranges"], "covs": d["covs"]}
    for (i0, N), (dim, band) in zip(d["ranges"], d["covs"]):
        if i0 != at or N != dim or N == 0:
            return {"what": "row ranges of the clusters are not consecutive / do not match the active covariance block",
                    "ranges": d["ranges"], "cov_dims": [c[0] for c in d["covs"]]}
        at += N
    if at != m:
        return {"what": "row ranges of the clusters do not end at the number of rows", "ranges": d["ranges"], "rows": m}
    for k, cl in enumerate(d["after"]):
        targets = {o["to"] for o in cl["obs"] if o["cls"] == "Direction" and o["active"]}
        if cl["S"] and len(targets) == 1:
            return {"what": "a stand-point is left with active directions to a single target (its orientation is an unknown of its own)",
                    "cluster": k, "index_orientation": d["ori"].get(k, 0)}
    return None


def stats_of(corr, d):
    corr.count("pe_passes")
    if d["throw"]:
        corr.count("pe_throws")
        corr.count("pe_throw:" + d["throw"][:40])
    if d["rm"]:
        corr.count("pe_passes_with_recursion")
    if any(p["sxy"] == "u" and p["sz"] == "u" and any(p["idx"]) for p in d["pts"]):
        corr.count("pe_passes_with_stale_index")
    act = lambda p, g: p < len(d["pts"]) and d["pts"][p][g] != "u"     # noqa: E731
    for cl in d["cls"]:
        if cl["band"] > 0:
            corr.count("pe_correlated_clusters")
            if any(not o["active"] for o in cl["obs"]) and any(o["active"] for o in cl["obs"]):
                corr.count("pe_passive_in_correlated")
        dirs = [o for o in cl["obs"] if o["cls"] == "Direction"]
        if cl["S"] and dirs and not any(o["active"] for o in dirs) and any(act(o["from"], "sxy") and act(o["to"], "sxy") for o in dirs):
            corr.count("pe_single_direction_stations")
    if d["minx"]:
        corr.count("pe_constrained_passes")
    if d["n"]:
        corr.maxstat("pe_max_rows", d["n"][0])
        corr.maxstat("pe_max_unknowns", d["n"][1])


def run_networks(ctx, nets):
    """harness + driver; returns per network {ops, passes, crash, model: [(pre lines, post lines)], mcrash}"""
    exe = pe_harness(ctx)
    drv = ctx.driver("drv_pe")
    tmp = Path(tempfile.mkdtemp(prefix="pe-", dir=str(ctx.build)))
    res = []
    try:
        cases = []
        for i, (text, meta) in enumerate(nets):
            p = tmp / f"n{i}.gkf"
            p.write_text(text)
            cases.append(ops_for(ctx.rng, p, meta, meta["alg"]))
        impl, crashes = run_cases(exe, cases)
        mcases, where = [], []
        allp = []
        for i, out in enumerate(impl):
            passes = split_passes(out)
            allp.append(passes)
            for k, ps in enumerate(passes):
                mcases.append(ps["P"] + ["run"])
                where.append((i, k, "pre"))
                if ps["Q"]:
                    mcases.append(ps["Q"] + ["run"])
                    where.append((i, k, "post"))
                if ps["O"] and [l for l in ps["O"] if l.startswith("pt ")] == [l for l in ps["P"] if l.startswith("pt ")]:
                    mcases.append(ps["O"] + ["run"])
                    where.append((i, k, "unrevised"))
        model, mcr = run_cases(drv, mcases, timeout=600) if mcases else ([], {})
        for i, (text, meta) in enumerate(nets):
            res.append({"ops": [o if not o.startswith("load") else f"load <gkf> {meta['alg']}" + (" raw" if meta.get("raw") else "") for o in cases[i]],
                        "passes": allp[i], "crash": crashes.get(i), "out": impl[i],
                        "model": [{"pre": None, "post": None, "unrevised": None} for _ in allp[i]], "mcrash": []})
        for j, (i, k, which) in enumerate(where):
            res[i]["model"][k][which] = model[j]
            if j in mcr:
                res[i]["mcrash"].append((k, which, mcr[j][1][-400:]))
    finally:
        shutil.rmtree(tmp, ignore_errors=True)
    return res


_TEXTS = {}      # sha of the network text -> (text, ops) of the networks judged in this process (for --keep)


def judge(corr, nets, res, fails, stats=True):
    for (text, meta), e in zip(nets, res):
        _TEXTS[sha(text)] = (text, e["ops"])
        payload = {"stream": "pe", "gkf": text, "alg": meta["alg"], "ops": e["ops"], "meta": meta}
        if stats:
            corr.count("pe_networks")
            corr.count("pe_family_" + meta["family"] + ("_" + meta["variant"] if meta.get("variant") else ""))
        if e["crash"]:
            corr.case()
            err = e["crash"][1].splitlines()
            rep = [l.strip() for l in err if "ERROR:" in l or "runtime error" in l]
            frames = [l.strip() for l in err if l.lstrip().startswith("#") and "/lib/" in l][:4]
            done = len(e["passes"])
            fails.append(Failure(f"project_equations crashed / sanitizer report in pass {done + 1}: " + (rep or ["crash"])[0][:160],
                                 dict(payload, pass_no=done + 1), SITE, "\n".join(rep[:2] + frames) or e["crash"][1][-1500:]))
            continue
        if not e["passes"]:
            corr.case()
            if stats:
                corr.count("pe_unusable")
                corr.count("pe_unusable:" + " ".join((e["out"] or ["no output"])[-1].split()[:5])[:60])
            continue
        for k, ps in enumerate(e["passes"]):
            d = parse_pass(ps)
            if stats:
                stats_of(corr, d)
                if any(l.startswith("E inserted") for l in ps["E"]):
                    corr.count("pe_passes_inserting_a_point_into_PD")
            nontrivial = d["n"] is not None and d["n"][1] >= 3
            corr.case(key=("pe", sha(text), k) if nontrivial else None,
                      sample={"stream": "pe", "ops": e["ops"], "pass": k + 1, "impl": [l[:120] for l in ps["R"][:3]]}
                      if (k == 0 and nontrivial) else None)
            tag = e["ops"] + [f"(pass {k + 1})", f"(net {sha(text)})"]
            mo = e["model"][k]
            for kk, which, err in e["mcrash"]:
                if kk == k:
                    corr.disagree("pe", tag, ps["R"][:4], [err], f"model driver crashed ({which}-state)")
            why = first_difference(ps["R"], mo["pre"] or [])
            if why:
                corr.disagree("pe", tag, ps["R"], mo["pre"], "state before the call: " + why)
            if ps["Q"]:
                if stats:
                    corr.count("pe_post_state_checks")
                why = first_difference(ps["R"], mo["post"] or [], skip_rm=True)
                if why:
                    corr.disagree("pe", tag, ps["R"], mo["post"], "state after the call (fixpoint): " + why)
            if mo["unrevised"] is not None:
                if stats:
                    corr.count("pe_unrevised_state_checks")
                    if ps["O"] != ps["P"]:
                        corr.count("pe_unrevised_state_checks_where_the_revision_changed_flags")
                why = first_difference(ps["R"], mo["unrevised"])
                if why:
                    corr.disagree("pe", tag, ps["R"], mo["unrevised"], "state before revision_observations(): " + why)
            bad = oracle(d)
            if bad:
                fails.append(Failure(bad["what"] + f" (project_equations pass {k + 1})", dict(payload, detail=bad, pass_no=k + 1),
                                     SITE, json.dumps(bad)))


def prepare_networks(ctx, n):
    nets = []
    corpus = ctx.verif / "corpus" / "C05"
    for f in sorted(corpus.glob("pe-*.gkf")) if corpus.exists() else []:
        meta = {"family": "corpus", "corpus": f.name, "drop": None}
        m = re.search(r"<!--\s*pe-script:\s*rm_obs\s+(\d+)\s*-->", f.read_text())
        if m:                                   # a corpus network may ask for one observation to be switched off
            meta["rm_obs"] = int(m.group(1))
        nets.append((f.read_text(), meta))
    nets += gen_networks(ctx.rng, n)
    for i, (text, meta) in enumerate(nets):
        meta["alg"] = ALGS[ctx.rng.randrange(4)]
        if meta["family"] == "mixed" and ctx.rng.random() < 0.1:
            meta["raw"] = True          # no Acord2: stand-points without orientation, project_equations throws `bad data`
        if meta.get("nobs") and ctx.rng.random() < 0.6:
            meta["rm_obs"] = ctx.rng.randrange(meta["nobs"])
    return nets


def pe_stream(ctx, corr, n):
    """the stream; returns the oracle failures (list of Failure)"""
    t0 = time.time()
    nets = prepare_networks(ctx, n)
    fails = []
    res = run_networks(ctx, nets)
    judge(corr, nets, res, fails)
    corr.stats["pe_seconds"] = round(time.time() - t0, 1)
    tot = corr.stats.get("pe_passes", 0)
    if tot < 3 * n:
        corr.inconclusive.append(f"pe: only {tot} passes from {n} networks")
    for k, least in (("pe_passes_with_recursion", 1), ("pe_correlated_clusters", 1), ("pe_single_direction_stations", 1),
                     ("pe_constrained_passes", 1)):
        if n >= 20 and corr.stats.get(k, 0) < least:
            corr.inconclusive.append(f"pe: {k} = {corr.stats.get(k, 0)}")
    return fails


def replay_pe(ctx, payload):
    """re-run a recorded network (payload: gkf, alg, ops) on the current tree; prints the passes, the comparison with
    the model and the oracle; returns 1 if anything still fails"""
    inp = payload.get("input", payload)
    meta = dict(inp.get("meta") or {})
    meta.setdefault("family", "replay")
    meta["alg"] = inp.get("alg", "env")
    ops = [o for o in inp.get("ops", []) if not o.startswith("(")]
    tmp = Path(tempfile.mkdtemp(prefix="pe-", dir=str(ctx.build)))
    try:
        p = tmp / "replay.gkf"
        p.write_text(inp["gkf"])
        exe = pe_harness(ctx)
        cases = [[o.replace("<gkf>", str(p)) for o in ops]]
        impl, crashes = run_cases(exe, cases)
        print(inp["gkf"])
        if crashes:
            print("harness crashed:", crashes[0][1][-2000:])
            return 1
        failed = 0
        for k, ps in enumerate(split_passes(impl[0])):
            same_pts = ps["O"] and [l for l in ps["O"] if l.startswith("pt ")] == [l for l in ps["P"] if l.startswith("pt ")]
            model, _ = run_cases(ctx.driver("drv_pe"), [ps["P"] + ["run"], ps["Q"] + ["run"], ps["O"] + ["run"]])
            print(f"--- pass {k + 1}")
            for l in ps["E"]:
                print("    ", l)
            for l in ps["R"]:
                if l.split()[1] in ("n", "unk", "minx", "range", "st", "rm", "throw", "idx", "ori"):
                    print("     impl ", l[:200])
            why = first_difference(ps["R"], model[0])
            why2 = first_difference(ps["R"], model[1], skip_rm=True) if ps["Q"] else None
            why3 = first_difference(ps["R"], model[2]) if same_pts else None
            bad = oracle(parse_pass(ps))
            print("     model <-> implementation (state before the call):", why or "agree")
            print("     model <-> implementation (state after the call): ", why2 or "agree")
            print("     model <-> implementation (state before revision_observations()):", why3 or ("agree" if same_pts else "not applicable"))
            print("     oracle:", json.dumps(bad) if bad else "ok")
            failed |= 1 if (why or why2 or why3 or bad) else 0
        return failed
    finally:
        shutil.rmtree(tmp, ignore_errors=True)


# ----------------------------------------------------------------------------- command line

def main(argv):
    import argparse
    ap = argparse.ArgumentParser()
    ap.add_argument("--seed", type=int, default=1)
    ap.add_argument("--n", type=int, default=25)
    ap.add_argument("--repo", default=None)
    ap.add_argument("--keep", default=None, help="directory to write the networks of disagreeing / failing cases to")
    a = ap.parse_args(argv)
    ctx = core.Ctx("C05", "quick", a.seed)
    corr = core.Corr()
    t0 = time.time()
    fails = pe_stream(ctx, corr, a.n)
    print(f"repo {core.REPO}  seed {a.seed}  n {a.n}  wall {time.time() - t0:.1f}s")
    for k in sorted(corr.stats):
        print(f"  {k} = {corr.stats[k]}")
    print(f"cases {corr.evaluations}, distinct non-trivial {len(corr.nontrivial)}, "
          f"disagreements {len(corr.disagreements)}, oracle failures {len(fails)}, inconclusive {corr.inconclusive}")
    for i, dsg in enumerate(corr.disagreements[:4]):
        print(f"--- disagreement {i + 1}: {' | '.join(dsg['case'][-8:])}")
        print("    ", dsg["why"])
    for i, f in enumerate(fails[:4]):
        print(f"--- failure {i + 1}: {f.what}")
        print("    ", " | ".join(f.replay.get("ops", [])))
        print("    ", f.detail[:600])
    if a.keep and (corr.disagreements or fails):
        keep = Path(a.keep)
        keep.mkdir(parents=True, exist_ok=True)
        shas = [d["case"][-1][5:-1] for d in corr.disagreements] + [sha(f.replay["gkf"]) for f in fails]
        for h in dict.fromkeys(shas):
            if h in _TEXTS:
                (keep / f"pe-seed{a.seed}-{h[:8]}.gkf").write_text(_TEXTS[h][0])
                (keep / f"pe-seed{a.seed}-{h[:8]}.ops").write_text("\n".join(_TEXTS[h][1]) + "\n")
                print("kept", keep / f"pe-seed{a.seed}-{h[:8]}.gkf")
    return 1 if (corr.disagreements or fails) else 0


if __name__ == "__main__":
    sys.exit(main(sys.argv[1:]))
