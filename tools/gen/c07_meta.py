"""
C07 — metamorphic pairs for gama-local: base networks (gen_net, noisy), re-expressions of the same
survey, a full reader of the adjustment XML and the comparison "results transform as prescribed".

Everything is a pure function of a `random.Random`; a transformation is described by a JSON-able
`spec` so that a failing pair replays and shrinks (the spec is re-applied to the reduced network).

Base description (gen_net): axes-xy="ne", angles="left-handed", gons.
"""
import copy
import math
import re

from lib import gen_net as G

AXES = ["ne", "sw", "es", "wn", "en", "nw", "se", "ws"]
ANG_KINDS = ("direction", "angle", "azimuth", "z-angle")


# --------------------------------------------------------------------------- serialisation
def _fmt(v, nd=10):
    return f"{v:.{nd}f}"


def gon2dms_str(g, nd=9):
    """centesimal value -> 'd-m-s' (deg2gon's grammar: non-negative fields, optional leading sign)"""
    neg = g < 0
    g = abs(g)
    sec = g * 0.9 * 3600.0            # gon -> degrees -> arc seconds
    # split on an integer number of 1e-nd seconds so that no field rounds up to 60
    unit = 10 ** nd
    tot = int(round(sec * unit))
    d, rem = divmod(tot, 3600 * unit)
    m, rem = divmod(rem, 60 * unit)
    s_int, s_frac = divmod(rem, unit)
    return f"{'-' if neg else ''}{d}-{m}-{s_int}.{s_frac:0{nd}d}"


def to_gkf(net, nd=10):
    """like gen_net.to_gkf, plus: net['axes'], net['angles'], item['deg'] (write value as d-m-s and
    the stdev in arc seconds), item['from'] on distances, cluster 'orientation' never written"""
    esc = G.xml_escape_attr
    out = ['<?xml version="1.0" ?>', '<gama-local xmlns="http://www.gnu.org/software/gama/gama-local">']
    na = ""
    if net.get("axes"):
        na += f' axes-xy="{net["axes"]}"'
    if net.get("angles"):
        na += f' angles="{net["angles"]}"'
    out.append(f"<network{na}>")
    out.append("<description>c07</description>")
    par = dict(net.get("params", {}))
    out.append("<parameters " + " ".join(f'{k}="{v}"' for k, v in par.items()) + " />")
    out.append("<points-observations>")
    for pid, p in net["points"].items():
        a = f'<point id="{esc(pid)}"'
        if "x" in p:
            a += f' x="{_fmt(p["x"], nd)}" y="{_fmt(p["y"], nd)}"'
        if "z" in p:
            a += f' z="{_fmt(p["z"], nd)}"'
        what = ("xy" if "x" in p else "") + ("z" if "z" in p else "")
        st = p["status"]
        if st == "fix":
            a += f' fix="{what}"'
        elif st == "adj":
            a += f' adj="{what}"'
        elif st == "con":
            a += f' adj="{what.upper()}"'
        out.append(a + " />")
    for o in net["obs"]:
        if o["kind"] == "obs":
            out.append(f'<obs from="{esc(o["from"])}">')
            for it in o["items"]:
                t = it["t"]
                a = f"<{t}"
                for k in ("from", "to", "bs", "fs"):
                    if k in it:
                        a += f' {k}="{esc(it[k])}"'
                if it.get("deg") and t in ANG_KINDS:
                    a += f' val="{gon2dms_str(it["val"])}" stdev="{it["stdev"] * 0.324!r}"'
                else:
                    a += f' val="{_fmt(it["val"], nd)}" stdev="{it["stdev"]!r}"'
                for k in ("from_dh", "to_dh", "bs_dh", "fs_dh"):
                    if k in it:
                        a += f' {k}="{_fmt(it[k], nd)}"'
                out.append(a + " />")
            out.append("</obs>")
        elif o["kind"] == "hdiffs":
            out.append("<height-differences>")
            for it in o["items"]:
                a = f'<dh from="{esc(it["from"])}" to="{esc(it["to"])}" val="{_fmt(it["val"], nd)}"'
                if "stdev" in it:
                    a += f' stdev="{it["stdev"]!r}"'
                if "dist" in it:
                    a += f' dist="{_fmt(it["dist"], 6)}"'
                out.append(a + " />")
            out.append("</height-differences>")
        elif o["kind"] == "vectors":
            out.append("<vectors>")
            for it in o["items"]:
                out.append(f'<vec from="{esc(it["from"])}" to="{esc(it["to"])}" '
                           f'dx="{_fmt(it["dx"], nd)}" dy="{_fmt(it["dy"], nd)}" dz="{_fmt(it["dz"], nd)}" />')
            out.append(G._cov_xml(o["cov"], o.get("band")))
            out.append("</vectors>")
        elif o["kind"] == "coords":
            out.append("<coordinates>")
            for it in o["items"]:
                a = f'<point id="{esc(it["id"])}"'
                for k in ("x", "y", "z"):
                    if k in it:
                        a += f' {k}="{_fmt(it[k], nd)}"'
                out.append(a + " />")
            out.append(G._cov_xml(o["cov"], o.get("band")))
            out.append("</coordinates>")
    out += ["</points-observations>", "</network>", "</gama-local>", ""]
    return "\n".join(out)


# --------------------------------------------------------------------------- base networks
def _spd(rng, n, scale=1.0, full=True):
    """exactly symmetric positive definite n x n matrix L L^T (mm^2), diagonal if not full"""
    if not full:
        return [[(scale * rng.choice([1.0, 4.0, 9.0]) if i == j else 0.0) for j in range(n)] for i in range(n)]
    L = [[0.0] * n for _ in range(n)]
    for i in range(n):
        for j in range(i + 1):
            L[i][j] = float(rng.randint(2, 4)) if i == j else float(rng.randint(-1, 1))
    return [[scale * sum(L[i][k] * L[j][k] for k in range(n)) for j in range(n)] for i in range(n)]


def base_network(rng, family=None):
    """(family, net).  Families exercise all 13 observation types; all are noisy (noise=1)."""
    fams = ["2d-dd", "2d-ang-azi", "3d-all", "3d-vec-coords", "2d-free", "2d-coords-full", "1d-level"]
    fam = family or rng.choice(fams)
    if fam == "2d-dd":
        net = G.make_network(rng, npts=rng.randint(4, 7), dim=2, nfixed=2, kinds=("direction", "distance"), noise=1.0,
                             density=rng.choice([0.5, 0.8, 1.0]))
    elif fam == "2d-ang-azi":
        net = G.make_network(rng, npts=rng.randint(4, 6), dim=2, nfixed=rng.choice([1, 2]),
                             kinds=("direction", "distance", "angle", "azimuth"), noise=1.0, density=0.8)
    elif fam == "3d-all":
        net = G.make_network(rng, npts=rng.randint(4, 6), dim=3, nfixed=2,
                             kinds=("direction", "distance", "s-distance", "z-angle", "dh"), noise=1.0, density=0.8,
                             heights=rng.random() < 0.5)
    elif fam == "3d-vec-coords":
        net = G.make_network(rng, npts=rng.randint(4, 6), dim=3, nfixed=1,
                             kinds=("direction", "distance", "z-angle", "vector", "dh"), noise=1.0, density=0.8)
        for o in net["obs"]:
            if o["kind"] == "vectors":
                o["cov"] = _spd(rng, 3 * len(o["items"]), full=rng.random() < 0.7)
                o["band"] = len(o["cov"]) - 1
    elif fam == "2d-free":
        net = G.make_network(rng, npts=rng.randint(4, 6), dim=2, nfixed=0, free=True,
                             kinds=("direction", "distance"), noise=1.0, density=0.9)
    elif fam == "2d-coords-full":
        net = G.make_network(rng, npts=rng.randint(4, 6), dim=2, nfixed=1, kinds=("direction", "distance"), noise=1.0,
                             density=0.8)
        ids = [p for p in net["points"] if net["points"][p]["status"] == "adj"]
        pick = ids[:rng.randint(1, min(3, len(ids)))]
        items = [{"id": p, "x": net["points"][p]["x"] + rng.gauss(0, 2e-3), "y": net["points"][p]["y"] + rng.gauss(0, 2e-3)}
                 for p in pick]
        cov = _spd(rng, 2 * len(items), full=True)
        net["obs"].append({"kind": "coords", "items": items, "cov": cov, "band": len(cov) - 1})
    else:
        net = G.levelling_network(rng, npts=rng.randint(4, 8), nfixed=1, extra=rng.randint(1, 4), noise=1.0)
    for o in net["obs"]:
        if o["kind"] == "vectors" and not o.get("cov"):
            n = 3 * len(o["items"])
            o["cov"] = [[1.0 if i == j else 0.0 for j in range(n)] for i in range(n)]
            o["band"] = 0
        o.pop("orient", None)
    for ci, o in enumerate(net["obs"]):
        o["cid"] = str(ci)
        for ii, it in enumerate(o["items"]):
            it["uid"] = f"{ci}.{ii}"
    net["family"] = fam
    return net


def with_unused_points(rng, net):
    """the same network plus one or two points that are LISTED WITH COORDINATES ONLY (neither fix= nor adj=: they
    do not take part in the adjustment) and a few distances / slope distances / height differences measured to
    them from points of the network.  gama-local leaves these observations out; whether it does must not depend
    on which end of the observation the unused point is written at (swap).  The uids of the added observations
    are in net['unused_uids']."""
    n = copy.deepcopy(net)
    P = n["points"]
    ids = [i for i in P if P[i].get("status") in ("fix", "adj", "con")]
    level = not any("x" in P[i] for i in ids)
    has_z = any("z" in P[i] for i in ids)
    added = []
    for k in range(rng.randint(1, 2)):
        pid = f"U{k + 1}"
        q = {"status": "none"}
        if not level:
            xs, ys = [P[i]["x"] for i in ids if "x" in P[i]], [P[i]["y"] for i in ids if "x" in P[i]]
            q["x"] = rng.uniform(min(xs), max(xs)) + rng.choice([-1, 1]) * rng.uniform(20, 80)
            q["y"] = rng.uniform(min(ys), max(ys)) + rng.choice([-1, 1]) * rng.uniform(20, 80)
        if has_z:
            zs = [P[i]["z"] for i in ids if "z" in P[i]]
            q["z"] = sum(zs) / len(zs) + rng.uniform(-5, 5)
        P[pid] = q
        for ci, o in enumerate(n["obs"]):
            if o["kind"] == "obs" and not level and "x" in P.get(o["from"], {}) and rng.random() < 0.7:
                a = P[o["from"]]
                d2 = math.hypot(q["x"] - a["x"], q["y"] - a["y"])
                kinds = ["distance"]
                if "z" in a and "z" in q and any(it["t"] == "s-distance" for it in o["items"]):
                    kinds.append("s-distance")
                for t in kinds:
                    val = d2 if t == "distance" else math.sqrt(d2 * d2 + (q["z"] - a["z"]) ** 2)
                    it = {"t": t, "to": pid, "val": val + rng.gauss(0, 0.004), "stdev": 5.0, "uid": f"{ci}.u{len(o['items'])}"}
                    o["items"].append(it)
                    added.append(it["uid"])
            elif o["kind"] == "hdiffs" and has_z and o["items"]:
                for _ in range(rng.randint(1, 2)):
                    a = rng.choice([i for i in ids if "z" in P[i]])
                    it = dict(o["items"][0])
                    it.update({"from": a, "to": pid, "val": q["z"] - P[a]["z"] + rng.gauss(0, 0.001), "uid": f"{ci}.u{len(o['items'])}"})
                    if rng.random() < 0.5:
                        it["from"], it["to"], it["val"] = it["to"], it["from"], -it["val"]
                    o["items"].append(it)
                    added.append(it["uid"])
    n["unused_uids"] = added
    return n


# --------------------------------------------------------------------------- expectations
def ident_expect():
    """how the results of the transformed run are predicted from those of the original run"""
    return {"idmap": None,                # old id -> new id
            "shift": (0.0, 0.0, 0.0),     # adjusted/fixed coordinates: new = M(old) + shift
            "M": [[1, "x"], [1, "y"]],    # new x = s*old[c], new y = ...
            "angsign": 1,                 # -1: right-handed angles (angular residuals / orientations change sign)
            "orient": {},                 # station (old id) -> shift of the adjusted orientation in gon
            "swap": [],                   # observation keys (type, from, to) whose ends were swapped
            "tolscale": 1.0}


# --------------------------------------------------------------------------- transformations
def t_translate(net, spec):
    tx, ty, tz = spec["t"]
    n = copy.deepcopy(net)
    for p in n["points"].values():
        if "x" in p:
            p["x"] += tx
            p["y"] += ty
        if "z" in p:
            p["z"] += tz
    for o in n["obs"]:
        if o["kind"] == "coords":
            for it in o["items"]:
                if "x" in it:
                    it["x"] += tx
                    it["y"] += ty
                if "z" in it:
                    it["z"] += tz
    e = ident_expect()
    e["shift"] = (tx, ty, tz)
    e["tolscale"] = 1.0 + max(abs(tx), abs(ty), abs(tz)) * 1e-9      # ulp(T)/1e-6 m: 1e7 m -> 1 %
    return n, e


def t_rotate(net, spec):
    """spec['c'] : {cluster index (as str) : gon added to every direction of that cluster}"""
    n = copy.deepcopy(net)
    e = ident_expect()
    for o in n["obs"]:
        c = spec["c"].get(o["cid"])
        if c is None:
            continue
        for it in o["items"]:
            if it["t"] == "direction":
                it["val"] = (it["val"] + c) % 400.0
        e["orient"][o["cid"]] = -c
    return n, e


def _perm(rng_seed, n):
    import random
    idx = list(range(n))
    random.Random(rng_seed).shuffle(idx)
    return idx


def t_permute(net, spec):
    """shuffle points, clusters and (inside clusters without a full covariance) observations"""
    n = copy.deepcopy(net)
    s = spec["seed"]
    ids = list(n["points"])
    n["points"] = {ids[i]: n["points"][ids[i]] for i in _perm(f"{s}p", len(ids))}
    obs = n["obs"]
    if spec.get("clusters", True):
        obs = [obs[i] for i in _perm(f"{s}c", len(obs))]
    for ci, o in enumerate(obs):
        if not spec.get("items", True):
            continue
        k = len(o["items"])
        p = _perm(f"{s}o{ci}", k)
        if o["kind"] in ("obs", "hdiffs"):
            o["items"] = [o["items"][i] for i in p]
        elif o["kind"] in ("vectors", "coords"):
            w = 3 if o["kind"] == "vectors" else (len(o["cov"]) // k)
            o["items"] = [o["items"][i] for i in p]
            full = [a for i in p for a in range(w * i, w * i + w)]
            o["cov"] = [[o["cov"][a][b] for b in full] for a in full]
            o["band"] = len(full) - 1
    n["obs"] = obs
    return n, ident_expect()


def t_rename(net, spec):
    mp = spec["map"]
    n = copy.deepcopy(net)
    n["points"] = {mp[k]: v for k, v in n["points"].items()}
    for o in n["obs"]:
        if "from" in o:
            o["from"] = mp[o["from"]]
        for it in o["items"]:
            for k in ("from", "to", "bs", "fs", "id"):
                if k in it:
                    it[k] = mp[it[k]]
    e = ident_expect()
    e["idmap"] = mp
    return n, e


def t_degrees(net, spec):
    n = copy.deepcopy(net)
    for ci, o in enumerate(n["obs"]):
        if o["kind"] == "obs":
            for ii, it in enumerate(o["items"]):
                if it["t"] in ANG_KINDS and (spec.get("all") or it["uid"] in spec.get("which", [])):
                    it["deg"] = True
    if spec.get("angular360"):
        n["params"] = dict(n["params"], angular="360")
    return n, ident_expect()


def t_swap(net, spec):
    """swap the ends of distances / slope distances (explicit from=), height differences and vectors"""
    n = copy.deepcopy(net)
    e = ident_expect()
    for ci, o in enumerate(n["obs"]):
        for ii, it in enumerate(o["items"]):
            if not (spec.get("all") or it["uid"] in spec.get("which", [])):
                continue
            if o["kind"] == "obs" and it["t"] in ("distance", "s-distance"):
                fr = it.get("from", o["from"])
                it["from"], it["to"] = it["to"], fr
                if "from_dh" in it or "to_dh" in it:
                    it["from_dh"], it["to_dh"] = it.get("to_dh", 0.0), it.get("from_dh", 0.0)
            elif o["kind"] == "hdiffs":
                it["from"], it["to"] = it["to"], it["from"]
                it["val"] = -it["val"]
            elif o["kind"] == "vectors":
                it["from"], it["to"] = it["to"], it["from"]
                for k in ("dx", "dy", "dz"):
                    it[k] = -it[k]
                C = o["cov"]
                for a in range(3 * ii, 3 * ii + 3):      # cov(-v_i, v_j) = -cov(v_i, v_j)
                    for b in range(len(C)):
                        C[a][b] = -C[a][b]
                        C[b][a] = -C[b][a]
    e["swapped"] = True
    return n, e


def axes_matrix(axes):
    """new (x, y) in terms of the base description (x = north, y = east)"""
    d = {"n": (1, "x"), "s": (-1, "x"), "e": (1, "y"), "w": (-1, "y")}
    return [list(d[axes[0]]), list(d[axes[1]])]


def t_mirror(net, spec):
    axes, angles = spec["axes"], spec["angles"]
    M = axes_matrix(axes)
    n = copy.deepcopy(net)
    n["axes"], n["angles"] = axes, angles

    def mp(x, y):
        src = {"x": x, "y": y}
        return M[0][0] * src[M[0][1]], M[1][0] * src[M[1][1]]

    for p in n["points"].values():
        if "x" in p:
            p["x"], p["y"] = mp(p["x"], p["y"])
    rh = angles == "right-handed"
    for o in n["obs"]:
        if o["kind"] == "obs":
            for it in o["items"]:
                if rh and it["t"] in ("direction", "angle", "azimuth"):
                    it["val"] = (400.0 - it["val"]) % 400.0
        elif o["kind"] in ("vectors", "coords"):
            k = len(o["items"])
            w = len(o["cov"]) // k
            kx, ky = ("dx", "dy") if o["kind"] == "vectors" else ("x", "y")
            B = [[0.0] * (w * k) for _ in range(w * k)]
            for i, it in enumerate(o["items"]):
                if kx in it:
                    it[kx], it[ky] = mp(it[kx], it[ky])
                    for r in (0, 1):
                        s, c = M[r]
                        B[w * i + r][w * i + (0 if c == "x" else 1)] = float(s)
                    for r in range(2, w):
                        B[w * i + r][w * i + r] = 1.0
                else:
                    for r in range(w):
                        B[w * i + r][w * i + r] = 1.0
            C = o["cov"]
            N = w * k
            BC = [[sum(B[i][t] * C[t][j] for t in range(N)) for j in range(N)] for i in range(N)]
            o["cov"] = [[sum(BC[i][t] * B[j][t] for t in range(N)) for j in range(N)] for i in range(N)]
            o["band"] = N - 1 if o.get("band") else 0
            if o["band"] == 0 and any(o["cov"][i][j] != 0 for i in range(N) for j in range(N) if i != j):
                o["band"] = N - 1
    e = ident_expect()
    e["M"] = M
    e["angsign"] = -1 if rh else 1
    return n, e


TRANSFORMS = {"translate": t_translate, "rotate": t_rotate, "permute": t_permute, "rename": t_rename,
              "degrees": t_degrees, "swap": t_swap, "mirror": t_mirror}


def apply(net, spec):
    return TRANSFORMS[spec["kind"]](net, spec)


# --------------------------------------------------------------------------- random specs
NASTY_IDS = ["1", "2", "10", "9", "01", "001", "1 ", " 1", "1a", "a1", "A", "a", "B", "b", "Z", "_", "é", "É", "ž", "Ω", "点",
             "9223372036854775807", "9223372036854775808", "0", "00", "+1", "-1", "1.0", "1e3", "p 1", "p  2", "Aa", "aA",
             "P10", "P9", "P09", "x" * 40, "ß", " x", "a&b", "a<b", "q'r", 'q"r']


def random_idmap(rng, ids, mode):
    if mode == "order-preserving":
        # same relative order under PointID::operator<: P1<P2<... (strings) -> strings with the same order
        srt = sorted(ids, key=lambda s: s.encode())
        pool = sorted({rng.choice("ABCDEFGHKLMNPQRSTUVWXYZabcdefgh") + "".join(rng.choice("0123456789abcxyzé点") for _ in range(rng.randint(0, 5)))
                       for _ in range(4 * len(ids) + 8)}, key=lambda s: s.encode())
        pick = sorted(rng.sample(range(len(pool)), len(ids)))
        return {srt[i]: pool[pick[i]] for i in range(len(ids))}
    pool = list(NASTY_IDS)
    rng.shuffle(pool)
    # PointID normalises white space: ids that collapse to the same sid would merge points -> keep distinct sids
    seen, out = set(), []
    for s in pool:
        norm = " ".join(s.replace(" ", " ").split(" ")).strip()
        norm = re.sub(r"[ \t\n\r\f\v]+", " ", s).strip()
        if norm and norm not in seen:
            seen.add(norm)
            out.append(s)
    return {i: out[k] for k, i in enumerate(ids)}


def random_spec(rng, net, kind=None):
    kinds = ["translate", "rotate", "rotate-seam", "permute", "rename", "degrees", "swap", "mirror"]
    kind = kind or rng.choice(kinds)
    nobs = len(net["obs"])
    dir_clusters = [i for i, o in enumerate(net["obs"]) if o["kind"] == "obs" and any(it["t"] == "direction" for it in o["items"])]
    if kind == "translate":
        mag = rng.choice([1e2, 1e4, 1e6, 5e6, 1e7])
        t = [rng.uniform(-mag, mag) for _ in range(3)]
        if rng.random() < 0.3:
            t = [float(round(v)) for v in t]
        return {"kind": "translate", "t": t}
    if kind in ("rotate", "rotate-seam"):
        if not dir_clusters:
            return None
        which = dir_clusters if rng.random() < 0.5 else rng.sample(dir_clusters, rng.randint(1, len(dir_clusters)))
        cid = lambda k: net["obs"][k]["cid"]
        c = {}
        for k in which:
            if kind == "rotate":
                r = rng.random()
                if r < 0.5:
                    c[cid(k)] = rng.uniform(0, 400)
                else:
                    c[cid(k)] = rng.choice([0.0, 200.0, 400.0]) + rng.choice([-1, 1]) * rng.choice([0.0, 1e-9, 1e-7, 1e-6])
            else:
                # turn the circle so that the station's orientation shift (bearing - direction) lands on the +-200 gon seam
                o = net["obs"][k]
                it = next(i for i in o["items"] if i["t"] == "direction")
                p, q = net["points"][o["from"]], net["points"][it["to"]]
                cur = (G.bearing(p, q) * G.GON - it["val"]) % 400.0       # current orientation shift
                seam = rng.choice([200.0, 200.0, 0.0])                    # the code wraps at +-200 gon; 0 is the other candidate
                c[cid(k)] = (cur - seam + rng.choice([0.0, 1e-4, -1e-4, 3e-4, -5e-4, 1e-3])) % 400.0
        return {"kind": "rotate", "c": c, "seam": kind == "rotate-seam"}
    if kind == "permute":
        return {"kind": "permute", "seed": rng.randrange(1 << 30), "clusters": rng.random() < 0.8, "items": rng.random() < 0.8}
    if kind == "rename":
        mode = rng.choice(["order-preserving", "nasty", "nasty"])
        return {"kind": "rename", "mode": mode, "map": random_idmap(rng, list(net["points"]), mode)}
    if kind == "degrees":
        if rng.random() < 0.5:
            return {"kind": "degrees", "all": True, "angular360": rng.random() < 0.3}
        which = [it["uid"] for o in net["obs"] if o["kind"] == "obs"
                 for it in o["items"] if it["t"] in ANG_KINDS and rng.random() < 0.5]
        return {"kind": "degrees", "which": which}
    if kind == "swap":
        if rng.random() < 0.5:
            return {"kind": "swap", "all": True}
        which = [it["uid"] for o in net["obs"] for it in o["items"] if rng.random() < 0.5 or it["uid"] in net.get("unused_uids", ())]
        return {"kind": "swap", "which": which}
    if kind == "mirror":
        return {"kind": "mirror", "axes": rng.choice(AXES), "angles": rng.choice(["left-handed", "right-handed"])}
    raise ValueError(kind)


# --------------------------------------------------------------------------- result reader
def _unesc(s):
    return (s.replace("&lt;", "<").replace("&gt;", ">").replace("&quot;", '"').replace("&apos;", "'").replace("&amp;", "&"))


_OBS_TAGS = ("direction|distance|angle|slope-distance|zenith-angle|azimuth|dh|dx|dy|dz|"
             "coordinate-x|coordinate-y|coordinate-z")


def parse_xml(text):
    r = {"error": None, "adjusted": {}, "fixed": {}, "unk": [], "ellipses": {}, "orient": [], "cov": None, "obs": []}
    m = re.search(r"<error[^>]*>(.*?)</error>", text, re.S)
    if m:
        r["error"] = " | ".join(d.strip() for d in re.findall(r"<description>(.*?)</description>", m.group(1), re.S))
        return r

    def num(tag, blk):
        mm = re.search(rf"<{tag}>\s*([^<\s]+)\s*</{tag}>", blk)
        return float(mm.group(1)) if mm else None

    for sect in ("adjusted", "fixed"):
        mm = re.search(rf"<{sect}>(.*?)</{sect}>", text, re.S)
        if not mm:
            continue
        for pm in re.finditer(r"<point>(.*?)</point>", mm.group(1), re.S):
            blk = pm.group(1)
            pid = _unesc(re.search(r"<id>(.*?)</id>", blk, re.S).group(1))
            d = {}
            for c in ("x", "y", "z", "X", "Y", "Z"):
                v = num(c, blk)
                if v is not None:
                    d[c.lower()] = v
                    if c.isupper():
                        d["con"] = True
                    if sect == "adjusted":
                        r["unk"].append((pid, c.lower()))
            r[sect][pid] = d
    # x then y are always emitted together; z after them: the loop above appends in tag order x,y,z,X,Y,Z which for one
    # point is either (x,y[,z|Z]) or (X,Y[,z|Z]) -- restore the file order x,y,z
    order = {"x": 0, "y": 1, "z": 2}
    fixed, i = [], 0
    unk = r["unk"]
    while i < len(unk):
        j = i
        while j < len(unk) and unk[j][0] == unk[i][0]:
            j += 1
        fixed += sorted(unk[i:j], key=lambda u: order[u[1]])
        i = j
    r["unk"] = fixed
    mm = re.search(r"<std-error-ellipses>(.*?)</std-error-ellipses>", text, re.S)
    if mm:
        for em in re.finditer(r"<ellipse>(.*?)</ellipse>", mm.group(1), re.S):
            blk = em.group(1)
            pid = _unesc(re.search(r"<id>(.*?)</id>", blk, re.S).group(1))
            r["ellipses"][pid] = (num("major", blk), num("minor", blk), num("alpha", blk))
    mm = re.search(r"<orientation-shifts>(.*?)</orientation-shifts>", text, re.S)
    if mm:
        for om in re.finditer(r"<orientation>(.*?)</orientation>", mm.group(1), re.S):
            blk = om.group(1)
            pid = _unesc(re.search(r"<id>(.*?)</id>", blk, re.S).group(1))
            r["orient"].append((pid, num("approx", blk), num("adj", blk)))
    mm = re.search(r"<cov-mat>\s*<dim>(\d+)</dim>\s*<band>(\d+)</band>(.*?)</cov-mat>", text, re.S)
    if mm:
        dim, band = int(mm.group(1)), int(mm.group(2))
        vals = [float(v) for v in re.findall(r"<flt>([^<]+)</flt>", mm.group(3))]
        C, k = {}, 0
        for i in range(dim):
            for j in range(i, min(dim, i + band + 1)):
                C[(i, j)] = vals[k]
                k += 1
        r["cov"] = {"dim": dim, "band": band, "C": C}
    r["sum_of_squares"] = num("sum-of-squares", text)
    r["defect"] = num("defect", text)
    r["dof"] = num("degrees-of-freedom", text)
    r["unknowns"] = num("unknowns", text)
    r["equations"] = num("equations", text)
    mm = re.search(r"<standard-deviation>(.*?)</standard-deviation>", text, re.S)
    if mm:
        r["m0_apost"] = num("aposteriori", mm.group(1))
    mo = re.search(r"<observations>(.*?)</observations>", text, re.S)
    if mo:
        for om in re.finditer(rf"<({_OBS_TAGS})(?:\s[^>]*)?>(.*?)</\1>", mo.group(1), re.S):
            blk = om.group(2)
            d = {"t": om.group(1)}
            for k in ("from", "to", "left", "right", "id"):
                m2 = re.search(rf"<{k}>(.*?)</{k}>", blk, re.S)
                if m2:
                    d[k] = _unesc(m2.group(1))
            for k in ("obs", "adj", "stdev", "qrr", "f", "std-residual"):
                v = num(k, blk)
                if v is not None:
                    d[k] = v
            r["obs"].append(d)
    return r


# --------------------------------------------------------------------------- comparison
ANGULAR = {"direction", "angle", "azimuth", "zenith-angle"}
SWAPPABLE = {"distance", "slope-distance", "dh", "dx", "dy", "dz"}
SIGNED = {"dh", "dx", "dy", "dz"}


def norm_id(s):
    """PointID::init : runs of white space -> one blank, leading/trailing removed"""
    return re.sub(r"[ \t\n\r\f\v]+", " ", s).strip(" ")


def _okey(d, idmap=None):
    f = (lambda s: idmap.get(s, s)) if idmap else (lambda s: s)
    if d["t"] == "angle":
        return ("angle", f(d["from"]), f(d["left"]), f(d["right"]))
    if d["t"].startswith("coordinate-"):
        return (d["t"], f(d["id"]))
    return (d["t"], f(d["from"]), f(d["to"]))


def _residual(d):
    """adj - obs in mm / cc"""
    v = d["adj"] - d["obs"]
    if d["t"] in ANGULAR:
        v = (v + 200.0) % 400.0 - 200.0
        return v * 1e4
    return v * 1e3


def compare(ra, rb, e, net_a, tol=1e-6):
    """ra: result of the original, rb: of the re-expressed input, e: expectation.  Returns list of
    (field, detail, measured, allowed); empty = the pair agrees.  tol is in metres for coordinates; the other
    tolerances derive from it (1 m <-> 1e3 mm, 1e-6 m over 100 m sights <-> ~6e-3 cc)."""
    bad = []
    ts = e.get("tolscale", 1.0)
    ct = tol * ts                        # coordinates [m]
    rt_lin = 2e-3 * ts                   # residuals of linear observations [mm]
    rt_ang = 2e-2 * ts                   # residuals of angular observations [cc]
    rel = 2e-5 * ts                      # relative: standard deviations, ellipses, sum of squares
    if (ra["error"] is None) != (rb["error"] is None):
        return [("status", f"original: {ra['error'] or 'adjusted'} / transformed: {rb['error'] or 'adjusted'}", 1, 0)]
    if ra["error"] is not None:
        return []
    idmap = e.get("idmap")
    if idmap:
        idmap = {k: norm_id(v) for k, v in idmap.items()}
    f = (lambda s: idmap.get(s, s)) if idmap else (lambda s: s)
    M = e["M"]
    sh = e["shift"]

    def mpt(d):
        o = {}
        if "x" in d:
            src = {"x": d["x"], "y": d["y"]}
            o["x"] = M[0][0] * src[M[0][1]] + sh[0]
            o["y"] = M[1][0] * src[M[1][1]] + sh[1]
        if "z" in d:
            o["z"] = d["z"] + sh[2]
        return o

    for sect, ctol in (("adjusted", ct), ("fixed", max(ct, 2e-6 * ts))):   # fixed are printed with 6 decimals
        A = {f(k): mpt(v) for k, v in ra[sect].items()}
        B = rb[sect]
        if set(A) != set(B):
            bad.append((sect + "-points", f"{sorted(set(A) ^ set(B))[:6]}", 1, 0))
            continue
        for k in A:
            for c in ("x", "y", "z"):
                if (c in A[k]) != (c in B[k]):
                    bad.append((sect + "-coords", f"{k}.{c} present in one only", 1, 0))
                elif c in A[k] and abs(A[k][c] - B[k][c]) > ctol:
                    bad.append((sect + "-" + c, k, abs(A[k][c] - B[k][c]), ctol))
    for k in ("dof", "defect", "unknowns", "equations"):
        if ra.get(k) != rb.get(k):
            bad.append((k, "", ra.get(k), rb.get(k)))
    for k in ("sum_of_squares", "m0_apost"):
        a, b = ra.get(k), rb.get(k)
        if a is not None and b is not None and abs(a - b) > rel * 50 * max(abs(a), abs(b)) + 1e-9:
            bad.append((k, f"{a} vs {b}", abs(a - b), rel * 50 * max(abs(a), abs(b))))
    # ---- observations
    asg = e.get("angsign", 1)

    swapped = bool(e.get("swapped"))

    def groups(r, idm):
        g = {}
        for d in r["obs"]:
            key = _okey(d, idm)
            flip = False
            if swapped and key[0] in SWAPPABLE and key[1] > key[2]:
                key, flip = (key[0], key[2], key[1]), True
            g.setdefault(key, []).append((d, flip))
        return g

    GA, GB = groups(ra, idmap), groups(rb, None)
    # axes swap: dx <-> dy, coordinate-x <-> coordinate-y
    cswap = {}
    if M[0][1] == "y":
        cswap = {"dx": "dy", "dy": "dx", "coordinate-x": "coordinate-y", "coordinate-y": "coordinate-x"}
    csign = {"dx": M[0][0], "dy": M[1][0], "coordinate-x": M[0][0], "coordinate-y": M[1][0]}   # sign of the NEW component
    used = set()
    for key, la in GA.items():
        t = key[0]
        nt = cswap.get(t, t)
        kb = (nt,) + key[1:]
        lb = GB.get(kb, [])
        used.add(kb)
        if len(lb) != len(la):
            bad.append(("obs-missing", f"{key}: {len(la)} vs {len(lb)}", 1, 0))
            continue
        sg = 1.0
        if t in ("direction", "angle", "azimuth"):
            sg = asg
        elif nt in csign:
            sg = csign[nt]

        def rel_sign(fa, fb):
            return -1.0 if (t in SIGNED and fa != fb) else 1.0

        pairs = []
        rem = list(lb)
        for d, fa in sorted(la, key=lambda u: u[0]["obs"]):
            ra_ = _residual(d)
            j = min(range(len(rem)), key=lambda j: abs(sg * rel_sign(fa, rem[j][1]) * _residual(rem[j][0]) - ra_))
            pairs.append((d, rem[j][0], rel_sign(fa, rem[j][1])))
            rem.pop(j)
        for da, db, ssw in pairs:
            va, vb = _residual(da), sg * ssw * _residual(db)
            rt = rt_ang if t in ANGULAR else rt_lin
            if abs(va - vb) > rt:
                bad.append(("residual", f"{key}", abs(va - vb), rt))
            for fld in ("stdev",):
                a, b = da.get(fld), db.get(fld)
                if a is not None and b is not None and abs(a - b) > rel * max(abs(a), abs(b)) + 1e-7:
                    bad.append((fld, f"{key} {a} vs {b}", abs(a - b), rel * max(abs(a), abs(b))))
            for fld, at in (("qrr", 2e-3), ("f", 2e-2), ("std-residual", 2e-3)):
                a, b = da.get(fld), db.get(fld)
                if a is not None and b is not None and abs(a - b) > at:
                    bad.append((fld, f"{key} {a} vs {b}", abs(a - b), at))
    extra = set(GB) - used
    if extra:
        bad.append(("obs-extra", f"{sorted(extra)[:4]}", len(extra), 0))
    # ---- ellipses
    for k, (a, b, al) in ra["ellipses"].items():
        kb = f(k)
        if kb not in rb["ellipses"]:
            bad.append(("ellipse-missing", kb, 1, 0))
            continue
        a2, b2, al2 = rb["ellipses"][kb]
        for nm, u, v in (("major", a, a2), ("minor", b, b2)):
            if abs(u - v) > rel * max(abs(u), abs(v)) + 1e-9:
                bad.append(("ellipse-" + nm, kb, abs(u - v), rel * max(abs(u), abs(v))))
        if a > 0 and (a - b) / a > 1e-3:         # bearing defined
            vx, vy = math.cos(al), math.sin(al)
            src = {"x": vx, "y": vy}
            nx, ny = M[0][0] * src[M[0][1]], M[1][0] * src[M[1][1]]
            exp = math.atan2(ny, nx) % math.pi
            dlt = abs((al2 - exp + math.pi / 2) % math.pi - math.pi / 2)
            at = max(1e-5, 1e-5 * a / (a - b)) * ts
            if dlt > at:
                bad.append(("ellipse-alpha", f"{kb}: expected {exp:.6f} got {al2:.6f} rad", dlt, at))
    # ---- orientations
    if len(ra["orient"]) != len(rb["orient"]):
        bad.append(("orientations", f"{len(ra['orient'])} vs {len(rb['orient'])}", 1, 0))
    else:
        # orientation unknowns are listed in cluster order; match by station id and expected value
        oa = {}
        sh_by_station = {}
        for o in net_a["obs"]:
            if o.get("cid") in e.get("orient", {}):
                sh_by_station.setdefault(o["from"], []).append(e["orient"][o["cid"]])
        for pid, ap, ad in ra["orient"]:
            oa.setdefault(f(pid), []).append((pid, ad))
        ob = {}
        for pid, ap, ad in rb["orient"]:
            ob.setdefault(pid, []).append(ad)
        for st, la in oa.items():
            lb = list(ob.get(st, []))
            if len(lb) != len(la):
                bad.append(("orientations", f"station {st}", 1, 0))
                continue
            for pid, ad in la:
                shifts = sh_by_station.get(pid, [0.0])
                best = None
                for j, bv in enumerate(lb):
                    for c in shifts + [0.0]:
                        if e["M"] != [[1, "x"], [1, "y"]] or asg != 1:
                            dlt = 0.0          # orientation differs by an axes constant: checked through residuals
                        else:
                            dlt = abs((bv - (ad + c) + 200.0) % 400.0 - 200.0)
                        if best is None or dlt < best[0]:
                            best = (dlt, j)
                if best[0] > 3e-6 * ts:       # printed with 6 decimals of a gon
                    bad.append(("orientation", f"station {st}: {ad} -> {lb} expected shift {shifts}", best[0], 3e-6 * ts))
                lb.pop(best[1])
    # ---- covariance matrix of the unknowns
    if ra["cov"] and rb["cov"]:
        if ra["cov"]["dim"] != rb["cov"]["dim"]:
            bad.append(("cov-dim", "", ra["cov"]["dim"], rb["cov"]["dim"]))
        else:
            # identity of index k: coordinates in <adjusted> order, then orientations in <orientation-shifts> order
            def idents(r, idm, mapped):
                ff = (lambda s: idm.get(s, s)) if idm else (lambda s: s)
                L = []
                for pid, c in r["unk"]:
                    L.append(("p", ff(pid), c))
                cnt = {}
                for pid, ap, ad in r["orient"]:
                    kk = cnt.get(pid, 0)
                    cnt[pid] = kk + 1
                    L.append(("o", ff(pid), kk))
                return L

            IA, IB = idents(ra, idmap, True), idents(rb, None, False)
            # map identity of A to identity in B with sign
            def mapid(u):
                if u[0] == "p" and u[2] in ("x", "y"):
                    for r_, nm in ((0, "x"), (1, "y")):
                        if M[r_][1] == u[2]:
                            return ("p", u[1], nm), M[r_][0]
                if u[0] == "o":
                    return u, asg
                return u, 1
            posB = {u: i for i, u in enumerate(IB)}
            ok = all(mapid(u)[0] in posB for u in IA) and len(posB) == len(IB)
            multi_orient = any(u[0] == "o" and u[2] > 0 for u in IA)
            if not ok:
                bad.append(("cov-unknowns", f"{[u for u in IA if mapid(u)[0] not in posB][:4]}", 1, 0))
            elif not multi_orient or not e.get("reordered"):
                CA, CB = ra["cov"]["C"], rb["cov"]["C"]
                dA = [CA[(i, i)] for i in range(len(IA))]
                for (i, j), v in CA.items():
                    (ui, si), (uj, sj) = mapid(IA[i]), mapid(IA[j])
                    bi, bj = posB[ui], posB[uj]
                    w = CB.get((min(bi, bj), max(bi, bj)))
                    if w is None:
                        continue
                    sc = math.sqrt(abs(dA[i] * dA[j]))
                    at = 5e-6 * sc * ts + 1e-12           # printed with 8 significant digits
                    if abs(si * sj * v - w) > at + 2e-7 * abs(v):
                        bad.append(("cov", f"{IA[i]} x {IA[j]}: {v} -> expected {si * sj * v} got {w}", abs(si * sj * v - w), at))
    return bad


# --------------------------------------------------------------------------- shrinking support
def all_uids(net):
    return [it["uid"] for o in net["obs"] for it in o["items"]]


def drop_items(net, keep):
    """network restricted to the observation items whose uid is in `keep`; clusters with a covariance
    matrix keep the matching sub-matrix; empty clusters and unreferenced points are dropped"""
    keep = set(keep)
    n = copy.deepcopy(net)
    obs = []
    for o in n["obs"]:
        idx = [ii for ii, it in enumerate(o["items"]) if it["uid"] in keep]
        if not idx:
            continue
        if o["kind"] in ("vectors", "coords"):
            w = len(o["cov"]) // len(o["items"])
            full = [a for i in idx for a in range(w * i, w * i + w)]
            o["cov"] = [[o["cov"][a][b] for b in full] for a in full]
            o["band"] = min(o.get("band", 0), len(full) - 1)
        o["items"] = [o["items"][i] for i in idx]
        obs.append(o)
    n["obs"] = obs
    used = set()
    for o in n["obs"]:
        if "from" in o:
            used.add(o["from"])
        for it in o["items"]:
            for k in ("from", "to", "bs", "fs", "id"):
                if k in it:
                    used.add(it[k])
    n["points"] = {k: v for k, v in n["points"].items() if k in used}
    return n


def respec(spec, net_small):
    s = copy.deepcopy(spec)
    if s["kind"] == "rename":
        s["map"] = {k: v for k, v in s["map"].items() if k in net_small["points"]}
    return s


def orientation_shifts(net, station):
    """approximate orientation shifts (bearing - direction, gon, in [0,400)) of the direction sets of `station`
    computed from the coordinates written in the input (base description: axes ne, left-handed)"""
    out = []
    for o in net["obs"]:
        if o["kind"] == "obs" and o["from"] == station:
            for it in o["items"]:
                if it["t"] == "direction" and "x" in net["points"].get(it["to"], {}):
                    p, q = net["points"][station], net["points"][it["to"]]
                    out.append((G.bearing(p, q) * G.GON - it["val"]) % 400.0)
    return out
