"""Translator C20 / C04 (gso):  the ICGS second-stage error counter `error_icgs2_defect`
    lib/gnu_gama/adj/icgs.cpp, icgs.h, adj_gso.h   ->   lean/Gama/Gen/IcgsError.lean

`AdjGSO::solve()` refuses a system (`BadRegularization`) iff `icgs.error() != 0`.  The counter is a member of the
long-lived `ICGS` object, so WHERE it is reset decides whether a refusal can leak into the next system solved by the
same object.  Regenerated, literally as coded:

  sites        every statement of icgs.cpp that mentions the counter, in source order:
               (member function, `= 0` | `++`, does it sit behind the early `if (defect() == 0) return;` of that
               function, does it sit in the `else` of a pivot test `if (<v> > tolerance) …; else { … }`)
  ctorValue    the default member initialiser in icgs.h  (`int error_icgs2_defect {0};`)
  errorReturnsCounter   icgs.h: `int error() const { return error_icgs2_defect; }`
  solveCalls   the `icgs.<member>(…)` calls of `AdjGSO::solve()` (non-legacy branch) in order, up to the read
  solveThrowsIfNonzero / solvedSetBeforeThrow
               `if (icgs.error() != 0) { this->is_solved = true; throw Exc(Exception::BadRegularization, …); }`
  icgs2EnsuresIcgs1 / resetClearsReady / icgs1SetsReady
               `if (!icgs1_is_ready) icgs1();` at the top of icgs2, `icgs1_is_ready = false` in reset, `= true` at the
               end of icgs1

Anything else that touches the counter (another file, another kind of statement) is a broken tie.
"""
import re
from pathlib import Path


class Unparsable(Exception):
    pass


NAME = "error_icgs2_defect"


def strip_cxx(s):
    s = re.sub(r"/\*.*?\*/", lambda m: " " * len(m.group(0)), s, flags=re.S)
    return re.sub(r"//[^\n]*", lambda m: " " * len(m.group(0)), s)


def match_brace(s, i):
    d = 0
    for j in range(i, len(s)):
        if s[j] == "{":
            d += 1
        elif s[j] == "}":
            d -= 1
            if d == 0:
                return j
    raise Unparsable("unbalanced braces")


def functions(src):
    """[(name, start of body '{', end '}')] of `… ICGS::name(…) {`"""
    out = []
    for m in re.finditer(r"\bICGS::(~?\w+)\s*\([^;{}]*\)\s*(?:const\s*)?\{", src):
        i = m.end() - 1
        out.append((m.group(1), i, match_brace(src, i)))
    return out


EARLY = re.compile(r"if\s*\(\s*defect\s*\(\s*\)\s*==\s*0\s*\)\s*return\s*;")
FN = {"reset": "reset", "icgs1": "icgs1", "icgs2": "icgs2", "min_x": "minx"}


def enclosing_else_of_pivot_test(src, lo, pos):
    """is `pos` inside a block `{…}` that is the `else` branch of `if (<id> > tolerance) <stmt>; else {`"""
    # innermost '{' before pos whose matching '}' is after pos
    depth, j = 0, pos
    while j > lo:
        j -= 1
        if src[j] == "}":
            depth += 1
        elif src[j] == "{":
            if depth == 0:
                break
            depth -= 1
    else:
        return False
    before = src[lo:j]
    return re.search(r"if\s*\(\s*\w+\s*>\s*tolerance\s*\)\s*[^;{}]*;\s*else\s*$", before) is not None


def parse(repo):
    repo = Path(repo)
    adj = repo / "lib/gnu_gama/adj"
    # no other file may touch the counter
    for f in sorted((repo / "lib").rglob("*")):
        if f.suffix in (".h", ".cpp") and f.name not in ("icgs.cpp", "icgs.h"):
            try:
                if NAME in f.read_text(errors="replace"):
                    raise Unparsable(f"{f.relative_to(repo)} mentions {NAME}: unmodelled site")
            except OSError:
                pass
    cpp = strip_cxx((adj / "icgs.cpp").read_text())
    fns = functions(cpp)
    sites = []
    for m in re.finditer(NAME, cpp):
        fn = next(((n, a, b) for n, a, b in fns if a < m.start() < b), None)
        if fn is None:
            raise Unparsable(f"icgs.cpp: {NAME} outside a member function body")
        name, a, b = fn
        if name not in FN:
            raise Unparsable(f"icgs.cpp: {NAME} used in ICGS::{name} (not modelled)")
        # the statement
        st_lo = max(cpp.rfind(";", a, m.start()), cpp.rfind("{", a, m.start()), cpp.rfind("}", a, m.start())) + 1
        st_hi = cpp.find(";", m.start())
        st = " ".join(cpp[st_lo:st_hi].split())
        if st == f"{NAME} = 0":
            act = "reset"
        elif st in (f"{NAME}++", f"++{NAME}"):
            act = "incr"
        else:
            raise Unparsable(f"icgs.cpp: statement `{st}` on the counter in ICGS::{name} is not `= 0` / `++`")
        em = EARLY.search(cpp, a, b)
        behind = bool(em and em.end() <= m.start())
        guarded = enclosing_else_of_pivot_test(cpp, a, m.start())
        if act == "incr" and not guarded:
            raise Unparsable(f"icgs.cpp: `{st}` in ICGS::{name} is not in the else branch of a `> tolerance` pivot test")
        sites.append((FN[name], act, behind, guarded))

    body = {n: cpp[a:b] for n, a, b in fns}
    if "icgs2" not in body or "icgs1" not in body or "reset" not in body:
        raise Unparsable("icgs.cpp: ICGS::reset / icgs1 / icgs2 not found")
    icgs2_ensures = re.search(r"if\s*\(\s*!\s*icgs1_is_ready\s*\)\s*icgs1\s*\(\s*\)\s*;", body["icgs2"]) is not None
    em = EARLY.search(body["icgs2"])
    if icgs2_ensures and em and body["icgs2"].find("icgs1_is_ready") > em.start():
        raise Unparsable("icgs.cpp: icgs2 tests defect() before ensuring icgs1")
    reset_clears = re.search(r"icgs1_is_ready\s*=\s*false\s*;", body["reset"]) is not None
    icgs1_sets = re.search(r"icgs1_is_ready\s*=\s*true\s*;\s*$", body["icgs1"].rstrip()) is not None

    h = strip_cxx((adj / "icgs.h").read_text())
    mh = [m for m in re.finditer(NAME, h)]
    reads = re.search(rf"int\s+error\s*\(\s*\)\s*const\s*\{{\s*return\s+{NAME}\s*;\s*\}}", h) is not None
    mi = re.search(rf"int\s+{NAME}\s*\{{\s*(\d+)\s*\}}\s*;", h)
    if not mi:
        raise Unparsable(f"icgs.h: member `int {NAME} {{<n>}};` not found")
    if len(mh) != (2 if reads else 1):
        raise Unparsable(f"icgs.h: {len(mh)} mentions of {NAME} (expected the member and error())")
    ctor = int(mi.group(1))

    g = strip_cxx((adj / "adj_gso.h").read_text())
    ms = re.search(r"void\s+AdjGSO<[^>]*>::solve\s*\(\s*\)\s*\{", g)
    if not ms:
        raise Unparsable("adj_gso.h: AdjGSO::solve() not found")
    sb = g[ms.end() - 1: match_brace(g, ms.end() - 1)]
    me = re.search(r"#\s*ifdef\s+GNU_GAMA_GSO_LEGACY_CODE(.*?)#\s*else(.*?)#\s*endif", sb, re.S)
    if not me:
        raise Unparsable("adj_gso.h: non-legacy branch of solve() not found")
    nb = me.group(2)
    rd = re.search(r"if\s*\(\s*icgs\.error\s*\(\s*\)\s*!=\s*0\s*\)\s*\{(.*?)\}", nb, re.S)
    calls = [c for c in re.findall(r"icgs\.(\w+)\s*\(", nb[: rd.start()] if rd else nb) if c != "error"]
    for c in calls:
        if c not in FN:
            raise Unparsable(f"adj_gso.h: solve() calls icgs.{c}() before reading error() (not modelled)")
    if not calls or calls[0] != "reset":
        raise Unparsable("adj_gso.h: solve() does not start the ICGS work with icgs.reset(…) (the model's icgs1_is_ready starts false)")
    throws = bool(rd and re.search(r"throw\s+Exc\s*\(\s*Exception::BadRegularization", rd.group(1)))
    solved_first = bool(rd and throws and re.search(r"is_solved\s*=\s*true\s*;.*throw", rd.group(1), re.S))
    if len(re.findall(r"icgs\.error\s*\(", g)) != (1 if rd else 0):
        raise Unparsable("adj_gso.h: icgs.error() read at an unmodelled place")
    return {"sites": sites, "ctor": ctor, "reads": reads, "calls": [FN[c] for c in calls], "throws": throws,
            "solved_first": solved_first, "icgs2_ensures": icgs2_ensures, "reset_clears": reset_clears, "icgs1_sets": icgs1_sets}


def b(x):
    return "true" if x else "false"


def generate(repo):
    d = parse(repo)
    L = ["/-",
         "  GENERATED by tools/gen/c20_icgs.py from lib/gnu_gama/adj/icgs.cpp, icgs.h, adj_gso.h on every run of the",
         "  C20 and C04 checks.  Do not edit.",
         "  The second-stage error counter `ICGS::error_icgs2_defect` of the gso solver: where it is reset, where it is",
         "  incremented, where it is read.  `sites` lists every statement of icgs.cpp on the counter in source order.",
         "-/",
         "namespace Gama.Gen.IcgsError",
         "",
         "/-- member functions of `ICGS` -/",
         "inductive Fn | reset | icgs1 | icgs2 | minx",
         "deriving DecidableEq, Repr",
         "",
         "/-- `error_icgs2_defect = 0;` | `error_icgs2_defect++;` -/",
         "inductive Act | reset | incr",
         "deriving DecidableEq, Repr",
         "",
         "structure Site where",
         "  fn : Fn",
         "  act : Act",
         "  /-- the statement sits behind `if (defect() == 0) return;` of its function -/",
         "  behindEarlyReturn : Bool",
         "  /-- the statement is the `else` branch of a pivot test `if (<norm> > tolerance) …; else { … }` -/",
         "  pivotGuarded : Bool",
         "deriving DecidableEq, Repr",
         "",
         "def sites : List Site := ["]
    L.append(",\n".join(f"  ⟨.{fn}, .{act}, {b(be)}, {b(gu)}⟩" for fn, act, be, gu in d["sites"]) + "]")
    L += ["",
          "/-- `int error_icgs2_defect {…};` -/",
          f"def ctorValue : Nat := {d['ctor']}",
          "/-- `int error() const { return error_icgs2_defect; }` -/",
          f"def errorReturnsCounter : Bool := {b(d['reads'])}",
          "/-- the `icgs.<member>(…)` calls of `AdjGSO::solve()` before the counter is read -/",
          "def solveCalls : List Fn := [" + ", ".join("." + c for c in d["calls"]) + "]",
          "/-- `if (icgs.error() != 0) { … throw Exc(Exception::BadRegularization, …); }` -/",
          f"def solveThrowsIfNonzero : Bool := {b(d['throws'])}",
          "/-- `this->is_solved = true;` precedes that throw -/",
          f"def solvedSetBeforeThrow : Bool := {b(d['solved_first'])}",
          "/-- `if (!icgs1_is_ready) icgs1();` opens `icgs2()` -/",
          f"def icgs2EnsuresIcgs1 : Bool := {b(d['icgs2_ensures'])}",
          "/-- `ICGS::reset` sets `icgs1_is_ready = false`; `icgs1()` ends with `icgs1_is_ready = true` -/",
          f"def resetClearsReady : Bool := {b(d['reset_clears'])}",
          f"def icgs1SetsReady : Bool := {b(d['icgs1_sets'])}",
          "",
          "end Gama.Gen.IcgsError", ""]
    return "\n".join(L), d


def write(repo, lean_dir):
    """regenerate; returns (info, path).  Raises Unparsable."""
    txt, info = generate(repo)
    out = Path(lean_dir) / "Gama" / "Gen" / "IcgsError.lean"
    if not out.exists() or out.read_text() != txt:
        out.write_text(txt)
    return info, out


if __name__ == "__main__":
    import sys
    txt, info = generate(sys.argv[1] if len(sys.argv) > 1 else "/repo")
    print(txt)
    print(info, file=sys.stderr)
