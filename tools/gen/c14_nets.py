"""C14 generator: networks with injected exclusion defects, built on tools/lib/gen_net.py.

Every network is consistent (observations computed from the true coordinates, which are also the
approximate coordinates) before the defects go in, so that the only gross absolute terms are the
injected blunders and their positional size is known:  f * tol_abs  (f around 1).

Defects (net["defects"] lists what was injected, net["blunders"] the expected abs-term verdicts):
  isolated      a point without coordinates and without observations
  one_element   a point without coordinates determined by a single distance / direction
  single_dir    a station left with a single direction (distances stay)
  dup_dir       a station whose only directions go to one and the same target (twice)
  unknown_to    an observation to an id that is not a point of the network
  angle_fs_missing  an angle whose foresight (or backsight) target has no coordinates
  blunder       observation value shifted so that the positional misclosure is f*tol_abs
  zangle_mid    zenith-angle blunder between the horizontal-distance and the slope-distance threshold
  blunder_w     the same on an angular observation whose stdev is 5x / 0.1x sigma-apr
"""
import copy
import math
import sys
from pathlib import Path

sys.path.insert(0, str(Path(__file__).resolve().parents[1]))
from lib import gen_net  # noqa: E402

GON = gen_net.GON
ANGULAR = {"direction", "angle", "azimuth", "z-angle"}
FACTORS = [0.3, 0.9, 0.99, 1 - 1e-5, 1 + 1e-5, 1.01, 1.1, 3.0, 30.0]
STDEVS = [1, 2, 5, 10, 10, 10, 10, 20, 50]


def station_items(net):
    for o in net["obs"]:
        if o["kind"] == "obs":
            yield o


def positional_to_value_shift(net, st, it, pos_mm):
    """shift of the observed value (m or gon) that produces a positional misclosure of pos_mm, as
    TestAbsTermVisitor measures it (angular: |b|*d/(10*R2G), d to `to`/`bs`, 3D for zenith angles)"""
    P = net["points"]
    t = it["t"]
    if t in ("distance", "s-distance"):
        return pos_mm / 1000.0
    tgt = it.get("to", it.get("bs"))
    a, b = P[st["from"]], P[tgt]
    d = gen_net.dist2(a, b)
    if t == "z-angle":
        dz = a["z"] - b["z"]          # the visitor ignores instrument/target heights
        d = math.sqrt(dz * dz + d * d)
    return pos_mm * (10 * GON) / d / 1e4     # gon


def inject_blunder(rng, net, tol, factor=None, only=None):
    cands = []
    for st in station_items(net):
        ndir = sum(1 for it in st["items"] if it["t"] == "direction")
        dir_blundered = any(it["t"] == "direction" and it.get("blunder") is not None for it in st["items"])
        for k, it in enumerate(st["items"]):
            if it.get("blunder") is not None:
                continue
            if it["t"] == "direction" and (ndir < 3 or dir_blundered):
                continue      # the orientation is the median shift: one blunder among >= 3 directions leaves it alone
            if only and it["t"] not in only:
                continue
            cands.append((st, k))
    if not cands:
        return False
    st, k = rng.choice(cands)
    it = st["items"][k]
    f = factor if factor is not None else rng.choice(FACTORS)
    sign = rng.choice([-1, 1])
    if it["t"] == "z-angle" and "from_dh" in it:
        return False
    it["val"] = it["val"] + sign * positional_to_value_shift(net, st, it, f * tol)
    if it["t"] in ANGULAR and it["t"] != "z-angle":
        it["val"] %= 400.0
    it["blunder"] = f
    net.setdefault("blunders", []).append({"from": st["from"], "t": it["t"], "to": it.get("to", it.get("bs")),
                                           "fs": it.get("fs"), "f": f, "stdev": it.get("stdev")})
    return True


def make_case(rng, acord=True, dim=None, want=None):
    if want and "zangle_mid" in want:
        dim = 3
    dim = dim or rng.choice([2, 2, 2, 3])
    if dim == 2:
        kinds = rng.choice([("direction", "distance"), ("direction", "distance", "angle"), ("direction", "distance", "azimuth"),
                            ("direction",), ("distance", "angle")])
    else:
        kinds = rng.choice([("direction", "s-distance", "z-angle"), ("direction", "distance", "dh", "z-angle"),
                            ("direction", "distance", "s-distance", "dh"), ("direction", "distance", "vector", "dh")])
    if want and "zangle_mid" in want:
        kinds = ("direction", "s-distance", "z-angle")
    npts = rng.randint(4, 7)
    net = gen_net.make_network(rng, npts=npts, dim=dim, nfixed=rng.choice([2, 2, 3]), kinds=kinds,
                               density=rng.choice([0.6, 0.8, 1.0]), noise=0.0)
    tol = rng.choice([1000, 1000, 100, 10, 5000])
    net["params"]["tol-abs"] = tol
    net["params"]["sigma-act"] = "apriori"
    net["defects"], net["blunders"] = [], []
    vary = rng.random() < 0.6
    for st in station_items(net):
        for it in st["items"]:
            if vary:
                it["stdev"] = rng.choice(STDEVS)
    ids = list(net["points"])
    defects = want if want is not None else rng.sample(
        ["isolated", "one_element", "single_dir", "dup_dir", "unknown_to", "angle_fs_missing", "blunder", "blunder", "blunder2", "blunder_w"],
        rng.randint(0, 3))
    for d in defects:
        if d == "isolated":
            pid = f"Q{len(net['points'])}"
            p = {"x": 0.0, "y": 0.0, "status": "adj", "approx": False}
            if dim == 3:
                p["z"] = 0.0
            net["points"][pid] = p
            net["defects"].append(("isolated", pid))
        elif d == "one_element":
            pid = f"W{len(net['points'])}"
            p = {"x": 555.5, "y": 444.4, "status": "adj", "approx": False}
            if dim == 3:
                p["z"] = 12.0
            net["points"][pid] = p
            st = rng.choice(list(station_items(net)))
            t = rng.choice(["distance", "direction"])
            val = 321.123 if t == "distance" else rng.uniform(0, 400)
            st["items"].append({"t": t, "to": pid, "val": val, "stdev": 10})
            net["defects"].append(("one_element", pid, st["from"], t))
        elif d == "angle_fs_missing":
            pid = f"V{len(net['points'])}"
            p = {"x": 55.5, "y": 44.4, "status": "adj", "approx": False}
            if dim == 3:
                p["z"] = 12.0
            net["points"][pid] = p
            st = rng.choice(list(station_items(net)))
            others = [q for q in ids if q != st["from"]]
            role = rng.choice(["fs", "bs"])
            it = {"t": "angle", "bs": rng.choice(others), "fs": pid, "val": rng.uniform(0, 400), "stdev": 10}
            if role == "bs":
                it["bs"], it["fs"] = it["fs"], it["bs"]
            st["items"].append(it)
            net["defects"].append(("angle_fs_missing", pid, st["from"], role))
        elif d in ("single_dir", "dup_dir"):
            cands = [st for st in station_items(net) if sum(1 for it in st["items"] if it["t"] == "direction") >= 2
                     and not any(it.get("blunder") for it in st["items"])]
            if not cands:
                continue
            st = rng.choice(cands)
            dirs = [it for it in st["items"] if it["t"] == "direction"]
            keep = rng.choice(dirs)
            st["items"] = [it for it in st["items"] if it["t"] != "direction" or it is keep]
            if d == "dup_dir":
                st["items"].append(dict(keep))
            net["defects"].append((d, st["from"]))
        elif d == "unknown_to":
            st = rng.choice(list(station_items(net)))
            st["items"].append({"t": "distance", "to": "NOPOINT", "val": 100.0, "stdev": 10})
            net["defects"].append(("unknown_to", st["from"]))
        elif d == "blunder":
            inject_blunder(rng, net, tol)
        elif d == "blunder_w":
            # weights: an angular observation whose stdev differs from sigma-apr (its entry of b is
            # homogenised by sigma-apr/stdev); the positional misclosure does not depend on the weight
            sts = [st for st in station_items(net) if sum(1 for it in st["items"] if it["t"] == "direction") >= 3]
            if not sts:
                continue
            st = rng.choice(sts)
            big = rng.random() < 0.5
            for it in st["items"]:
                it["stdev"] = 50 if big else 1
            only = {"direction", "angle", "azimuth"}
            if big:
                inject_blunder(rng, net, tol, factor=3.0, only=only)          # must be removed
            else:
                inject_blunder(rng, net, tol, factor=0.3, only=only)          # must stay
                for it in st["items"]:
                    if it.get("blunder") is None:
                        it["stdev"] = 10
                inject_blunder(rng, net, tol, factor=30.0)                     # opens the gate
        elif d == "zangle_mid":
            # zenith angle whose misclosure is beyond tol-abs with the slope distance but within it
            # with the horizontal distance: f = sqrt(d3/d0)
            best = None
            for st in station_items(net):
                for k, it in enumerate(st["items"]):
                    if it["t"] == "z-angle" and it.get("blunder") is None:
                        a, b = net["points"][st["from"]], net["points"][it["to"]]
                        d0 = gen_net.dist2(a, b)
                        d3 = math.sqrt(d0 * d0 + (a["z"] - b["z"]) ** 2)
                        if best is None or d3 / d0 > best[0]:
                            best = (d3 / d0, st, k)
            if best and best[0] > 1 + 1e-4:
                ratio, st, k = best
                it = st["items"][k]
                f = math.sqrt(ratio)
                it["val"] = it["val"] + positional_to_value_shift(net, st, it, f * tol)
                it["blunder"] = f
                net["blunders"].append({"from": st["from"], "t": "z-angle", "to": it["to"], "fs": None, "f": f,
                                        "stdev": it.get("stdev")})
        elif d == "blunder2":
            inject_blunder(rng, net, tol, factor=rng.choice([3.0, 30.0]))
            inject_blunder(rng, net, tol, factor=rng.choice([0.3, 0.9, 0.99]))
    return net


def boundary_case(kind="distance", op="eq", tol=500):
    """exact boundary: all numbers are representable, the positional misclosure is exactly tol
    (3-4-5 triangle, |5.5 - 5| * 1000 == 500); the observation must stay (`>` is strict)"""
    pts = {"A": {"x": 0.0, "y": 0.0, "status": "fix", "approx": True},
           "B": {"x": 3.0, "y": 4.0, "status": "fix", "approx": True},
           "C": {"x": 3.0, "y": 0.0, "status": "adj", "approx": True},
           "D": {"x": 0.0, "y": 4.0, "status": "fix", "approx": True}}
    v = {"eq": 5.5, "above": 5.5 + 2 ** -40, "below": 5.5 - 2 ** -40}[op]
    obs = [{"kind": "obs", "from": "A", "orient": 0.0, "items": [
        {"t": "distance", "to": "B", "val": v, "stdev": 10, "blunder": {"eq": 1.0, "above": 1.0 + 1e-12, "below": 1 - 1e-12}[op]},
        {"t": "distance", "to": "C", "val": 3.0, "stdev": 10},
        {"t": "distance", "to": "D", "val": 4.0 + 1.0, "stdev": 10, "blunder": 2.0}]},      # a true outlier: 1000 > 500
        {"kind": "obs", "from": "B", "orient": 0.0, "items": [{"t": "distance", "to": "C", "val": 4.0, "stdev": 10}]},
        {"kind": "obs", "from": "D", "orient": 0.0, "items": [{"t": "distance", "to": "C", "val": 5.0, "stdev": 10}]}]
    return {"dim": 2, "points": pts, "obs": obs, "defects": [("boundary", op)],
            "blunders": [{"from": "A", "t": "distance", "to": "B", "fs": None, "f": {"eq": 1.0, "above": 1.0 + 1e-12, "below": 1 - 1e-12}[op], "stdev": 10},
                         {"from": "A", "t": "distance", "to": "D", "fs": None, "f": 2.0, "stdev": 10}],
            "params": {"sigma-apr": 10, "conf-pr": 0.95, "tol-abs": tol, "sigma-act": "apriori"}}


def to_gkf(net, algorithm=None, nd=12):
    n = copy.deepcopy(net)
    for o in n["obs"]:
        if o["kind"] == "obs":
            for it in o["items"]:
                it.pop("blunder", None)
    return gen_net.to_gkf(n, nd=nd, algorithm=algorithm)


def delete_items(net, keep_obs, point_groups):
    """the input with the excluded items deleted.
    keep_obs: list (per cluster, in OD order) of lists of booleans (per observation);
    point_groups: {id: (xy_active, z_active)} as left by the revision"""
    n = copy.deepcopy(net)
    pts = {}
    for pid, p in n["points"].items():
        if pid not in point_groups:
            pts[pid] = p
            continue
        axy, az = point_groups[pid]
        q = dict(p)
        if not axy:
            q.pop("x", None)
            q.pop("y", None)
        if not az:
            q.pop("z", None)
        if "x" in q or "z" in q:
            pts[pid] = q
    n["points"] = pts
    obs = []
    ci = 0
    for o in n["obs"]:
        if o["kind"] == "obs":
            # gama splits an <obs> into its cluster (one StandPoint per <obs>)
            flags = keep_obs[ci]
            ci += 1
            assert len(flags) == len(o["items"]), (len(flags), len(o["items"]))
            o["items"] = [it for it, k in zip(o["items"], flags) if k]
            if o["items"]:
                obs.append(o)
        elif o["kind"] == "hdiffs":
            flags = keep_obs[ci]
            ci += 1
            assert len(flags) == len(o["items"])
            o["items"] = [it for it, k in zip(o["items"], flags) if k]
            if o["items"]:
                obs.append(o)
        elif o["kind"] == "vectors":
            flags = keep_obs[ci]
            ci += 1
            assert len(flags) == 3 * len(o["items"])
            keepv = [all(flags[3 * i:3 * i + 3]) for i in range(len(o["items"]))]
            if any(any(flags[3 * i:3 * i + 3]) != keepv[i] for i in range(len(keepv))):
                raise ValueError("partially excluded vector")
            o["items"] = [it for it, k in zip(o["items"], keepv) if k]
            if o["items"]:
                obs.append(o)
        else:
            raise ValueError("cluster kind not supported by delete_items: " + o["kind"])
    n["obs"] = obs
    return n
