"""C14 generator: networks with injected exclusion defects, built on tools/lib/gen_net.py.

Every network is consistent (observations computed from the true coordinates, which are also the
approximate coordinates) before the defects go in, so that the only gross absolute terms are the
injected blunders and their positional size is known:  f * tol_abs  (f around 1).

Defects (net["defects"] lists what was injected, net["blunders"] the expected abs-term verdicts):
  isolated      a point without coordinates and without observations
  one_element   a point without coordinates determined by a single distance / direction
  single_dir    a station left with a single direction (distances stay)
  dup_dir       a station whose only directions go to one and the same target (twice)
  single_dir_passive  a station with one direction to a usable target and one to a target that is not usable (unknown
                id / point without coordinates): the passive direction's target must not count as a second target
  rep_dir       a direction set in which targets are read REPEATEDLY (two rounds / closing the horizon): reading
                patterns A A B, A B A, B A A, A A B B, A B C A, A A B C over usable targets, with a blunder in the
                FIRST or in a LATER reading of the repeated target or in the reading of another target (or none):
                the set stays iff at least two distinct targets keep an active reading
  unknown_to    an observation to an id that is not a point of the network
  angle_fs_missing  an angle whose foresight (or backsight) target has no coordinates
  blunder       observation value shifted so that the positional misclosure is f*tol_abs
  zangle_mid    zenith-angle blunder between the horizontal-distance and the slope-distance threshold
  blunder_w     the same on an angular observation whose stdev is 5x / 0.1x sigma-apr
  corr          (not a defect) clusters get a <cov-mat> with band >= 1, so that an excluded observation takes its
                row and column of a correlated block with it
"""
import copy
import math
import sys
from pathlib import Path

sys.path.insert(0, str(Path(__file__).resolve().parents[1]))
from lib import gen_net  # noqa: E402

GON = gen_net.GON
ANGULAR = {"direction", "angle", "azimuth", "z-angle"}
FACTORS = [0.3, 0.9, 0.99, 1 - 1e-5, 1 + 1e-5, 1.01, 1.1, 3.0, 30.0]
STDEVS = [1, 2, 5, 10, 10, 10, 10, 20, 50]


def station_items(net):
    for o in net["obs"]:
        if o["kind"] == "obs":
            yield o


def positional_to_value_shift(net, st, it, pos_mm):
    """shift of the observed value (m or gon) that produces a positional misclosure of pos_mm, as
    TestAbsTermVisitor measures it (angular: |b|*d/(10*R2G), d to `to`/`bs`, 3D for zenith angles)"""
    P = net["points"]
    t = it["t"]
    if t in ("distance", "s-distance"):
        return pos_mm / 1000.0
    tgt = it.get("to", it.get("bs"))
    a, b = P[st["from"]], P[tgt]
    d = gen_net.dist2(a, b)
    if t == "z-angle":
        dz = a["z"] - b["z"]          # the visitor ignores instrument/target heights
        d = math.sqrt(dz * dz + d * d)
    return pos_mm * (10 * GON) / d / 1e4     # gon


def inject_blunder(rng, net, tol, factor=None, only=None):
    cands = []
    for st in station_items(net):
        P = net["points"]
        ndir = len({it["to"] for it in st["items"] if it["t"] == "direction" and it["to"] in P and pstate(P[it["to"]])["axy"]})
        dir_blundered = any(it["t"] == "direction" and it.get("blunder") is not None for it in st["items"])
        for k, it in enumerate(st["items"]):
            if it.get("blunder") is not None:
                continue
            if it["t"] == "direction" and (ndir < 3 or dir_blundered):
                continue      # the orientation is the median shift: one blunder among >= 3 directions leaves it alone
            if only and it["t"] not in only:
                continue
            cands.append((st, k))
    if not cands:
        return False
    st, k = rng.choice(cands)
    it = st["items"][k]
    f = factor if factor is not None else rng.choice(FACTORS)
    sign = rng.choice([-1, 1])
    if it["t"] == "z-angle" and "from_dh" in it:
        return False
    it["val"] = it["val"] + sign * positional_to_value_shift(net, st, it, f * tol)
    if it["t"] in ANGULAR and it["t"] != "z-angle":
        it["val"] %= 400.0
    it["blunder"] = f
    net.setdefault("blunders", []).append({"from": st["from"], "t": it["t"], "to": it.get("to", it.get("bs")),
                                           "fs": it.get("fs"), "f": f, "stdev": it.get("stdev")})
    return True


def make_case(rng, acord=True, dim=None, want=None):
    corr = bool(want) and "corr" in want
    if corr:
        want = [w for w in want if w != "corr"]
    if want and "zangle_mid" in want:
        dim = 3
    dim = dim or rng.choice([2, 2, 2, 3])
    if dim == 2:
        kinds = rng.choice([("direction", "distance"), ("direction", "distance", "angle"), ("direction", "distance", "azimuth"),
                            ("direction",), ("distance", "angle")])
    else:
        kinds = rng.choice([("direction", "s-distance", "z-angle"), ("direction", "distance", "dh", "z-angle"),
                            ("direction", "distance", "s-distance", "dh"), ("direction", "distance", "vector", "dh")])
    if want and "zangle_mid" in want:
        kinds = ("direction", "s-distance", "z-angle")
    npts = rng.randint(4, 7)
    net = gen_net.make_network(rng, npts=npts, dim=dim, nfixed=rng.choice([2, 2, 3]), kinds=kinds,
                               density=rng.choice([0.6, 0.8, 1.0]), noise=0.0)
    tol = rng.choice([1000, 1000, 100, 10, 5000])
    net["params"]["tol-abs"] = tol
    net["params"]["sigma-act"] = "apriori"
    net["defects"], net["blunders"] = [], []
    vary = rng.random() < 0.6
    for st in station_items(net):
        for it in st["items"]:
            if vary:
                it["stdev"] = rng.choice(STDEVS)
    ids = list(net["points"])
    defects = want if want is not None else rng.sample(
        ["isolated", "one_element", "single_dir", "dup_dir", "single_dir_passive", "rep_dir", "unknown_to", "angle_fs_missing", "blunder",
         "blunder", "blunder2", "blunder_w"],
        rng.randint(0, 3))
    for d in defects:
        if d == "isolated":
            pid = f"Q{len(net['points'])}"
            p = {"x": 0.0, "y": 0.0, "status": "adj", "approx": False}
            if dim == 3:
                p["z"] = 0.0
            net["points"][pid] = p
            net["defects"].append(("isolated", pid))
        elif d == "one_element":
            pid = f"W{len(net['points'])}"
            p = {"x": 555.5, "y": 444.4, "status": "adj", "approx": False}
            if dim == 3:
                p["z"] = 12.0
            net["points"][pid] = p
            st = rng.choice(list(station_items(net)))
            t = rng.choice(["distance", "direction"])
            val = 321.123 if t == "distance" else rng.uniform(0, 400)
            st["items"].append({"t": t, "to": pid, "val": val, "stdev": 10})
            net["defects"].append(("one_element", pid, st["from"], t))
        elif d == "angle_fs_missing":
            pid = f"V{len(net['points'])}"
            p = {"x": 55.5, "y": 44.4, "status": "adj", "approx": False}
            if dim == 3:
                p["z"] = 12.0
            net["points"][pid] = p
            st = rng.choice(list(station_items(net)))
            others = [q for q in ids if q != st["from"]]
            role = rng.choice(["fs", "bs"])
            it = {"t": "angle", "bs": rng.choice(others), "fs": pid, "val": rng.uniform(0, 400), "stdev": 10}
            if role == "bs":
                it["bs"], it["fs"] = it["fs"], it["bs"]
            st["items"].append(it)
            net["defects"].append(("angle_fs_missing", pid, st["from"], role))
        elif d in ("single_dir", "dup_dir"):
            cands = [st for st in station_items(net) if sum(1 for it in st["items"] if it["t"] == "direction") >= 2
                     and not any(it.get("blunder") for it in st["items"])]
            if not cands:
                continue
            st = rng.choice(cands)
            dirs = [it for it in st["items"] if it["t"] == "direction"]
            keep = rng.choice(dirs)
            st["items"] = [it for it in st["items"] if it["t"] != "direction" or it is keep]
            if d == "dup_dir":
                st["items"].append(dict(keep))
            net["defects"].append((d, st["from"]))
        elif d == "single_dir_passive":
            cands = [st for st in station_items(net) if sum(1 for it in st["items"] if it["t"] == "direction") >= 2
                     and not any(it.get("blunder") for it in st["items"])]
            if not cands:
                continue
            st = rng.choice(cands)
            keep = rng.choice([it for it in st["items"] if it["t"] == "direction"])
            st["items"] = [it for it in st["items"] if it["t"] != "direction" or it is keep]
            if rng.random() < 0.5:
                tgt = "NOPOINT"
            else:
                tgt = f"W{len(net['points'])}"
                p = {"x": 55.5, "y": 44.4, "status": "adj", "approx": False}
                if dim == 3:
                    p["z"] = 12.0
                net["points"][tgt] = p
            st["items"].insert(rng.randint(0, len(st["items"])), {"t": "direction", "to": tgt, "val": rng.uniform(0, 400), "stdev": 10})
            net["defects"].append(("single_dir_passive", st["from"], tgt))
        elif d == "rep_dir":
            P = net["points"]
            cands = []
            for st in station_items(net):
                if any(it.get("blunder") is not None for it in st["items"]):
                    continue
                ds = [it for it in st["items"] if it["t"] == "direction" and it["to"] in P and pstate(P[it["to"]])["axy"]]
                if len({it["to"] for it in ds}) >= 2 and pstate(P[st["from"]])["axy"]:
                    cands.append((st, ds))
            if not cands:
                continue
            st, ds = rng.choice(cands)
            byto = {}
            for it in ds:
                byto.setdefault(it["to"], it)
            tg = list(byto)
            rng.shuffle(tg)
            pats = ["AAB", "ABA", "BAA", "AABB", "AAB", "ABA"] + (["ABCA", "AABC", "BAAC"] if len(tg) >= 3 else [])
            pat = rng.choice(pats)
            name = {"A": tg[0], "B": tg[1], "C": tg[2] if len(tg) >= 3 else tg[1]}
            reads = []
            for ch in pat:
                it = dict(byto[name[ch]])
                it.pop("blunder", None)
                reads.append(it)
            # which reading is blundered: the first A, a later A, the (first) B, or none
            where = rng.choice(["firstA", "firstA", "laterA", "B", "none"])
            idxA = [i for i, ch in enumerate(pat) if ch == "A"]
            k = {"firstA": idxA[0], "laterA": idxA[-1], "B": pat.index("B"), "none": None}[where]
            st["items"] = reads + [it for it in st["items"] if it["t"] != "direction"]
            for it in st["items"]:
                it["stdev"] = 10              # = sigma-apr: keeps the known finding C14-F1 (weights) out of this family
            if k is not None:
                it = st["items"][k]
                f = rng.choice([3.0, 30.0, 3.0, 1.1, 0.3])
                it["val"] = (it["val"] + rng.choice([-1, 1]) * positional_to_value_shift(net, st, it, f * tol)) % 400.0
                it["blunder"] = f
                net["blunders"].append({"from": st["from"], "t": "direction", "to": it["to"], "fs": None, "f": f,
                                        "stdev": it.get("stdev"), "reading": k})
            net["defects"].append(("rep_dir", st["from"], pat, where))
        elif d == "unknown_to":
            st = rng.choice(list(station_items(net)))
            st["items"].append({"t": "distance", "to": "NOPOINT", "val": 100.0, "stdev": 10})
            net["defects"].append(("unknown_to", st["from"]))
        elif d == "blunder":
            inject_blunder(rng, net, tol)
        elif d == "blunder_w":
            # weights: an angular observation whose stdev differs from sigma-apr (its entry of b is
            # homogenised by sigma-apr/stdev); the positional misclosure does not depend on the weight
            sts = [st for st in station_items(net) if sum(1 for it in st["items"] if it["t"] == "direction") >= 3]
            if not sts:
                continue
            st = rng.choice(sts)
            big = rng.random() < 0.5
            for it in st["items"]:
                it["stdev"] = 50 if big else 1
            only = {"direction", "angle", "azimuth"}
            if big:
                inject_blunder(rng, net, tol, factor=3.0, only=only)          # must be removed
            else:
                inject_blunder(rng, net, tol, factor=0.3, only=only)          # must stay
                for it in st["items"]:
                    if it.get("blunder") is None:
                        it["stdev"] = 10
                inject_blunder(rng, net, tol, factor=30.0)                     # opens the gate
        elif d == "zangle_mid":
            # zenith angle whose misclosure is beyond tol-abs with the slope distance but within it
            # with the horizontal distance: f = sqrt(d3/d0)
            best = None
            for st in station_items(net):
                for k, it in enumerate(st["items"]):
                    if it["t"] == "z-angle" and it.get("blunder") is None:
                        a, b = net["points"][st["from"]], net["points"][it["to"]]
                        d0 = gen_net.dist2(a, b)
                        d3 = math.sqrt(d0 * d0 + (a["z"] - b["z"]) ** 2)
                        if best is None or d3 / d0 > best[0]:
                            best = (d3 / d0, st, k)
            if best and best[0] > 1 + 1e-4:
                ratio, st, k = best
                it = st["items"][k]
                f = math.sqrt(ratio)
                it["val"] = it["val"] + positional_to_value_shift(net, st, it, f * tol)
                it["blunder"] = f
                net["blunders"].append({"from": st["from"], "t": "z-angle", "to": it["to"], "fs": None, "f": f,
                                        "stdev": it.get("stdev")})
        elif d == "blunder2":
            inject_blunder(rng, net, tol, factor=rng.choice([3.0, 30.0]))
            inject_blunder(rng, net, tol, factor=rng.choice([0.3, 0.9, 0.99]))
    if corr or (want is None and rng.random() < 0.3):
        add_correlations(rng, net, every=corr)
    return net


def cluster_rows(o):
    """number of rows of the cluster's covariance matrix and their standard deviations (None: cannot be correlated here)"""
    if o["kind"] == "obs":
        return [float(it.get("stdev", 10)) for it in o["items"]]
    if o["kind"] == "hdiffs":
        if any("stdev" not in it for it in o["items"]):
            return None
        return [float(it["stdev"]) for it in o["items"]]
    if o["kind"] == "vectors":
        return [1.0] * (3 * len(o["items"]))
    return None


def add_correlations(rng, net, every=False):
    """give clusters a banded, symmetric positive definite <cov-mat> (diagonal stdev^2, correlation 0.2*0.5^(k-1) with
    alternating sign on the k-th off-diagonal: strictly diagonally dominant after scaling).  Clusters with an angular
    blunder are left alone: the code tests the homogenised term there (C14-F1), which mixes the entries of a
    correlated block; the verdict for the other types does not depend on the size of the term."""
    n_corr = 0
    for o in net["obs"]:
        sd = cluster_rows(o)
        if sd is None or len(sd) < 2 or o.get("cov"):
            continue
        if o["kind"] == "obs" and any(it.get("blunder") is not None and it["t"] in ANGULAR for it in o["items"]):
            continue
        if not every and rng.random() < 0.4:
            continue
        if o["kind"] == "obs":
            # forward substitution carries a gross term to the LATER rows of its block (C14-F1 again: an angular
            # observation there is judged by the homogenised entry): blundered rows go last
            rng.shuffle(o["items"])       # an excluded row anywhere in the block, not only at its end
            o["items"].sort(key=lambda it: it.get("blunder") is not None)
            sd = cluster_rows(o)
        n = len(sd)
        band = min(n - 1, rng.choice([1, 1, 2, 3, n - 1]))
        cov = [[0.0] * n for _ in range(n)]
        for i in range(n):
            cov[i][i] = sd[i] * sd[i]
            for k in range(1, band + 1):
                if i + k < n:
                    r = 0.2 * 0.5 ** (k - 1) * (-1 if k % 2 == 0 else 1)
                    cov[i][i + k] = cov[i + k][i] = r * sd[i] * sd[i + k]
        o["cov"], o["band"] = cov, band
        n_corr += 1
        # the generated observations are consistent, so the adjusted values would not depend on the weights at all:
        # disturb the linear observations of the block (misclosure at most 0.2*tol-abs; blundered rows keep theirs)
        tol = float(net["params"]["tol-abs"])
        for it in o["items"]:
            if it.get("blunder") is not None:
                continue
            if o["kind"] == "obs" and it["t"] in ("distance", "s-distance") or o["kind"] == "hdiffs":
                it["val"] += rng.uniform(-0.2, 0.2) * tol / 1000.0
            elif o["kind"] == "vectors":
                for c in ("dx", "dy", "dz"):
                    it[c] += rng.uniform(-0.2, 0.2) * tol / 1000.0
    if n_corr:
        net.setdefault("defects", []).append(("corr", n_corr))
    return n_corr


def sub_cov(o, rows):
    """principal sub-matrix of the cluster's covariance matrix on the kept rows; band = min(band, n-1)"""
    if not o.get("cov"):
        return
    cov = o["cov"]
    o["cov"] = [[cov[i][j] for j in rows] for i in rows]
    if o.get("band") is not None:
        o["band"] = max(0, min(o["band"], len(rows) - 1))


def boundary_case(kind="distance", op="eq", tol=500):
    """exact boundary: all numbers are representable, the positional misclosure is exactly tol
    (3-4-5 triangle, |5.5 - 5| * 1000 == 500); the observation must stay (`>` is strict)"""
    pts = {"A": {"x": 0.0, "y": 0.0, "status": "fix", "approx": True},
           "B": {"x": 3.0, "y": 4.0, "status": "fix", "approx": True},
           "C": {"x": 3.0, "y": 0.0, "status": "adj", "approx": True},
           "D": {"x": 0.0, "y": 4.0, "status": "fix", "approx": True}}
    v = {"eq": 5.5, "above": 5.5 + 2 ** -40, "below": 5.5 - 2 ** -40}[op]
    obs = [{"kind": "obs", "from": "A", "orient": 0.0, "items": [
        {"t": "distance", "to": "B", "val": v, "stdev": 10, "blunder": {"eq": 1.0, "above": 1.0 + 1e-12, "below": 1 - 1e-12}[op]},
        {"t": "distance", "to": "C", "val": 3.0, "stdev": 10},
        {"t": "distance", "to": "D", "val": 4.0 + 1.0, "stdev": 10, "blunder": 2.0}]},      # a true outlier: 1000 > 500
        {"kind": "obs", "from": "B", "orient": 0.0, "items": [{"t": "distance", "to": "C", "val": 4.0, "stdev": 10}]},
        {"kind": "obs", "from": "D", "orient": 0.0, "items": [{"t": "distance", "to": "C", "val": 5.0, "stdev": 10}]}]
    return {"dim": 2, "points": pts, "obs": obs, "defects": [("boundary", op)],
            "blunders": [{"from": "A", "t": "distance", "to": "B", "fs": None, "f": {"eq": 1.0, "above": 1.0 + 1e-12, "below": 1 - 1e-12}[op], "stdev": 10},
                         {"from": "A", "t": "distance", "to": "D", "fs": None, "f": 2.0, "stdev": 10}],
            "params": {"sigma-apr": 10, "conf-pr": 0.95, "tol-abs": tol, "sigma-act": "apriori"}}


def is_special(p):
    return "sxy" in p or "sz" in p


def pstate(p):
    """what the parser + revision_points make of a point: coordinates known per group, group takes part,
    group had a status in the input"""
    if is_special(p):
        kxy, kz, sxy, sz = bool(p.get("kxy")), bool(p.get("kz")), p.get("sxy"), p.get("sz")
    else:
        st = p["status"]
        known = p.get("approx", True) or st == "fix"
        kxy, kz = ("x" in p) and known, ("z" in p) and known
        s = None if st == "none" else st
        sxy, sz = (s if "x" in p else None), (s if "z" in p else None)
    return {"kxy": kxy, "kz": kz, "axy": sxy is not None and kxy, "az": sz is not None and kz,
            "had_xy": sxy is not None, "had_z": sz is not None}


def special_point_xml(pid, p, nd):
    a = f'<point id="{gen_net.xml_escape_attr(pid)}"'
    if p.get("kxy"):
        a += f' x="{gen_net.fmt(p["x"], nd)}" y="{gen_net.fmt(p["y"], nd)}"'
    if p.get("kz"):
        a += f' z="{gen_net.fmt(p["z"], nd)}"'
    for word in ("fix", "adj"):
        g = ("xy" if p.get("sxy") == word else "") + ("z" if p.get("sz") == word else "")
        if g:
            a += f' {word}="{g}"'
    return a + " />"


def to_gkf(net, algorithm=None, nd=12):
    n = copy.deepcopy(net)
    for o in n["obs"]:
        if o["kind"] == "obs":
            for it in o["items"]:
                it.pop("blunder", None)
    special = {pid: p for pid, p in n["points"].items() if is_special(p)}
    n["points"] = {pid: p for pid, p in n["points"].items() if pid not in special}
    txt = gen_net.to_gkf(n, nd=nd, algorithm=algorithm)
    if special:
        lines = "\n".join(special_point_xml(pid, p, nd) for pid, p in special.items())
        txt = txt.replace("<points-observations>\n", "<points-observations>\n" + lines + "\n", 1)
    return txt


# ---- requirement matrix: one small network per (type, role, requirement) in which only that requirement decides

GEOM = {"direction": [("from", "xy"), ("to", "xy")], "distance": [("from", "xy"), ("to", "xy")],
        "azimuth": [("from", "xy"), ("to", "xy")], "angle": [("from", "xy"), ("bs", "xy"), ("fs", "xy")],
        "s-distance": [("from", "xy"), ("from", "z"), ("to", "xy"), ("to", "z")],
        "z-angle": [("from", "xy"), ("from", "z"), ("to", "xy"), ("to", "z")],
        "dh": [("from", "z"), ("to", "z")],
        "xdiff": [("from", "xy"), ("to", "xy")], "ydiff": [("from", "xy"), ("to", "xy")], "zdiff": [("from", "z"), ("to", "z")],
        "x": [("id", "xy")], "y": [("id", "xy")], "z": [("id", "z")]}
MEMBER = dict(GEOM)
MEMBER["z-angle"] = [("from", "z"), ("to", "z")]


def base_net(dim):
    P = {"A": {"x": 0.0, "y": 0.0}, "B": {"x": 1000.0, "y": 0.0}, "C": {"x": 0.0, "y": 1000.0}, "P": {"x": 400.0, "y": 500.0}}
    for k, (pid, p) in enumerate(P.items()):
        p["status"] = "adj" if pid == "P" else "fix"
        p["approx"] = True
        if dim == 3:
            p["z"] = 10.0 + 7.0 * k
    items = []
    for t in "ABC":
        items.append({"t": "direction", "to": t, "val": (gen_net.bearing(P["P"], P[t]) * GON) % 400.0, "stdev": 10})
        items.append({"t": "distance", "to": t, "val": gen_net.dist2(P["P"], P[t]), "stdev": 5})
    obs = [{"kind": "obs", "from": "P", "orient": 0.0, "items": items}]
    if dim == 3:
        obs.append({"kind": "hdiffs", "items": [{"from": t, "to": "P", "val": P["P"]["z"] - P[t]["z"], "stdev": 1.0} for t in "AB"]})
    return {"dim": dim, "points": P, "obs": obs, "defects": [], "blunders": [],
            "params": {"sigma-apr": 10, "conf-pr": 0.95, "tol-abs": 1000, "sigma-act": "apriori"}}


def obs_item(net, t, frm, to, fs=None):
    P = net["points"]
    a, b = P[frm], P[to]
    if t == "direction" or t == "azimuth":
        return {"t": t, "to": to, "val": (gen_net.bearing(a, b) * GON) % 400.0, "stdev": 10}
    if t == "distance":
        return {"t": t, "to": to, "val": gen_net.dist2(a, b), "stdev": 5}
    if t == "angle":
        c = P[fs]
        return {"t": t, "bs": to, "fs": fs, "val": ((gen_net.bearing(a, c) - gen_net.bearing(a, b)) * GON) % 400.0, "stdev": 10}
    if t == "s-distance":
        return {"t": t, "to": to, "val": gen_net.dist3(a, b), "stdev": 5}
    if t == "z-angle":
        d = gen_net.dist3(a, b)
        return {"t": t, "to": to, "val": math.acos((b["z"] - a["z"]) / d) * GON if d > 0 else 100.0, "stdev": 10}
    raise ValueError(t)


def matrix_cases():
    """[(net, (type, role, requirement))]: the point U has coordinates in the decisive group but that group does not
    take part (requirement `active_g`), or, for the zenith angle, takes part with its height but has no xy (`known_xy`)"""
    out = []
    U_XY = {"x": 700.0, "y": 600.0, "sxy": None, "sz": None, "kxy": True, "kz": False}                    # 2D, xy known, unused
    U3_XY = {"x": 700.0, "y": 600.0, "z": 25.0, "sxy": None, "sz": "fix", "kxy": True, "kz": True}         # xy known, unused; z fixed
    U3_Z = {"x": 700.0, "y": 600.0, "z": 25.0, "sxy": "fix", "sz": None, "kxy": True, "kz": True}          # z known, unused; xy fixed
    U3_NOXY = {"x": 0.0, "y": 0.0, "z": 25.0, "sxy": None, "sz": "fix", "kxy": False, "kz": True}          # no xy at all; z fixed

    def add(dim, t, role, req, U, build):
        net = base_net(dim)
        net["points"]["U"] = dict(U)
        build(net)
        net["defects"] = [("matrix", t, role, req)]
        net["matrix"] = [t, role, req]
        out.append(net)

    def station(t, role):
        def b(net):
            if role == "from":
                its = [obs_item(net, t, "U", "A", "B")] if t == "angle" else [obs_item(net, t, "U", "A")]
                if t == "direction":
                    its.append(obs_item(net, t, "U", "B"))
                net["obs"].append({"kind": "obs", "from": "U", "orient": 0.0, "items": its})
            else:
                if t == "angle":
                    its = [obs_item(net, t, "A", "U", "B") if role == "bs" else obs_item(net, t, "A", "B", "U")]
                else:
                    its = [obs_item(net, t, "A", "U")]
                if t == "direction":
                    its = [obs_item(net, t, "A", "B"), obs_item(net, t, "A", "C")] + its
                net["obs"].append({"kind": "obs", "from": "A", "orient": 0.0, "items": its})
        return b

    for t in ("direction", "distance", "azimuth"):
        for role in ("from", "to"):
            add(2, t, role, "active_xy", U_XY, station(t, role))
    for role in ("from", "bs", "fs"):
        add(2, "angle", role, "active_xy", U_XY, station("angle", role))
    for role in ("from", "to"):
        add(3, "s-distance", role, "active_xy", U3_XY, station("s-distance", role))
        add(3, "s-distance", role, "active_z", U3_Z, station("s-distance", role))
        add(3, "z-angle", role, "active_z", U3_Z, station("z-angle", role))

        def zang_noxy(net, role=role):
            it = {"t": "z-angle", "to": "A" if role == "from" else "U", "val": 99.0, "stdev": 10}
            net["obs"].append({"kind": "obs", "from": "U" if role == "from" else "A", "orient": 0.0, "items": [it]})
        add(3, "z-angle", role, "known_xy", U3_NOXY, zang_noxy)

        def dh(net, role=role):
            f, t_ = ("U", "A") if role == "from" else ("A", "U")
            net["obs"].append({"kind": "hdiffs", "items": [{"from": f, "to": t_, "val": net["points"][t_]["z"] - net["points"][f]["z"], "stdev": 1.0}]})
        add(3, "dh", role, "active_z", U3_Z, dh)

        def vec(net, role=role):
            f, t_ = ("U", "A") if role == "from" else ("A", "U")
            a, b = net["points"][f], net["points"][t_]
            net["obs"].append({"kind": "vectors", "cov": None,
                               "items": [{"from": f, "to": t_, "dx": b["x"] - a["x"], "dy": b["y"] - a["y"], "dz": b["z"] - a["z"]}]})
        add(3, "xdiff+ydiff", role, "active_xy", U3_XY, vec)
        add(3, "zdiff", role, "active_z", U3_Z, vec)

    def coords(net):
        u = net["points"]["U"]
        net["obs"].append({"kind": "coords", "items": [{"id": "U", "x": u["x"], "y": u["y"], "z": u["z"]}],
                           "cov": [[1.0 if i == j else 0.0 for j in range(3)] for i in range(3)], "band": 0})
    add(3, "x+y", "id", "active_xy", U3_XY, coords)
    add(3, "z", "id", "active_z", U3_Z, coords)
    return out


def delete_items(net, keep_obs, point_groups):
    """the input with the excluded items deleted (observations go together with their rows and columns of the
    cluster's covariance matrix: principal sub-matrix, `sub_cov`).
    keep_obs: list (per cluster, in OD order) of lists of booleans (per observation);
    point_groups: {id: (xy_active, z_active)} as left by the revision"""
    n = copy.deepcopy(net)
    pts = {}
    for pid, p in n["points"].items():
        if pid not in point_groups:
            pts[pid] = p
            continue
        axy, az = point_groups[pid]
        q = dict(p)
        if is_special(p):
            if not axy:
                q["sxy"] = None
            if not az:
                q["sz"] = None
            if axy or az:
                pts[pid] = q
            continue
        if not axy:
            q.pop("x", None)
            q.pop("y", None)
        if not az:
            q.pop("z", None)
        if "x" in q or "z" in q:
            pts[pid] = q
    n["points"] = pts
    obs = []
    ci = 0
    for o in n["obs"]:
        if o["kind"] == "obs":
            # gama splits an <obs> into its cluster (one StandPoint per <obs>)
            flags = keep_obs[ci]
            ci += 1
            assert len(flags) == len(o["items"]), (len(flags), len(o["items"]))
            o["items"] = [it for it, k in zip(o["items"], flags) if k]
            sub_cov(o, [i for i, k in enumerate(flags) if k])
            if o["items"]:
                obs.append(o)
        elif o["kind"] == "hdiffs":
            flags = keep_obs[ci]
            ci += 1
            assert len(flags) == len(o["items"])
            o["items"] = [it for it, k in zip(o["items"], flags) if k]
            sub_cov(o, [i for i, k in enumerate(flags) if k])
            if o["items"]:
                obs.append(o)
        elif o["kind"] == "vectors":
            flags = keep_obs[ci]
            ci += 1
            assert len(flags) == 3 * len(o["items"])
            keepv = [all(flags[3 * i:3 * i + 3]) for i in range(len(o["items"]))]
            if any(any(flags[3 * i:3 * i + 3]) != keepv[i] for i in range(len(keepv))):
                raise ValueError("partially excluded vector")
            o["items"] = [it for it, k in zip(o["items"], keepv) if k]
            sub_cov(o, [i for i, k in enumerate(flags) if k])
            if o["items"]:
                obs.append(o)
        elif o["kind"] == "coords":
            flags = keep_obs[ci]
            ci += 1
            k, items = 0, []
            for it in o["items"]:
                n_ = sum(1 for c in ("x", "y", "z") if c in it)
                if all(flags[k:k + n_]):
                    items.append(it)
                elif any(flags[k:k + n_]):
                    raise ValueError("partially excluded coordinate observation")
                k += n_
            o["items"] = items
            sub_cov(o, [i for i, f in enumerate(flags) if f])
            if items:
                obs.append(o)
        else:
            raise ValueError("cluster kind not supported by delete_items: " + o["kind"])
    n["obs"] = obs
    return n
