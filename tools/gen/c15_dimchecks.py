"""Translator C15:  lib/matvec/{matvecbase,matbase,vecbase,vec,transvec,mat,transmat,symmat}.h
    ->  lean/Gama/Gen/DimChecks.lean

For every binary operator / member of the dense matrix classes (operator+ - * += -=, dot, the storage
primitives MatVecBase::add/sub/mul, and the unary invert / Lower / Upper / trans) the table holds the
*effective* guard the code tests before it touches storage:

  * the atoms `x != y` of the function's own `if (… || …) throw Exc(Exception::BadRank, …)`, where x, y
    are `rows() cols() dim() size()` of `*this` or of a parameter;
  * plus the atoms of the MatVecBase::add/sub/mul or VecBase::dot it hands the work to, with the
    callee's parameters replaced by the caller's arguments (`*this`, a parameter, or a local result
    object such as `Mat T(this->rows(), this->cols())`, which becomes the operand `res`).

Anything that does not have the expected shape is a broken tie (Unparsable): a guard that is not a
disjunction of `!=` between dimension terms, a guard that comes after the first storage access, an
unknown delegate, a missing function of the EXPECTED list.

The meaning of the table (what each guard must imply) is in lean/Gama/Model/DimCheck.lean; the
theorem `guards_conforming` (Props/C15.lean) is a `decide` over the generated table plus a soundness
lemma for all shapes.
"""
import re
from pathlib import Path

HEADERS = ["matvecbase.h", "matbase.h", "vecbase.h", "vec.h", "transvec.h", "mat.h", "transmat.h", "symmat.h"]

# class name -> (Lean constructor, tag used in names)
KINDS = {"TransMat": "tmat", "TransVec": "tvec", "SymMat": "sym", "MatVecBase": "mvb", "MatBase": "mb",
         "VecBase": "vb", "Mat": "mat", "Vec": "vec"}
KIND_ORDER = ["TransMat", "TransVec", "SymMat", "MatVecBase", "MatBase", "VecBase", "Mat", "Vec"]

NAME_RE = re.compile(r"\b(operator\s*(?:\+=|-=|\+|-|\*(?!=))|add|sub|mul|dot|invert|Lower|Upper|trans)\s*\(")

# every one of these must be found (a vanished operator is a broken tie, a new one simply joins the table)
EXPECTED = [
    "MatVecBase::mul(Float,MatVecBase)", "MatVecBase::add(MatVecBase,MatVecBase)", "MatVecBase::sub(MatVecBase,MatVecBase)",
    "VecBase::dot(VecBase)",
    "Vec::operator+(Vec)", "Vec::operator-(Vec)", "Vec::operator+=(Vec)", "Vec::operator-=(Vec)",
    "operator*(MatBase,Vec)", "operator*(Mat,Vec)",
    "TransVec::operator+(TransVec)", "TransVec::operator-(TransVec)", "operator*(TransVec,Vec)",
    "operator*(TransVec,MatBase)", "operator*(TransVec,Mat)",
    "Mat::operator+(Mat)", "Mat::operator-(Mat)", "operator*(MatBase,MatBase)", "operator+(MatBase,MatBase)",
    "operator-(MatBase,MatBase)", "operator*(Mat,Mat)", "Mat::invert(Float)",
    "TransMat::operator+(TransMat)", "TransMat::operator-(TransMat)",
    "operator+(Mat,TransMat)", "operator-(Mat,TransMat)", "operator+(TransMat,Mat)", "operator-(TransMat,Mat)",
    "operator*(TransMat,Vec)", "operator*(Vec,TransMat)", "operator*(TransMat,Mat)", "operator*(Mat,TransMat)",
    "operator*(TransMat,TransMat)",
    "SymMat::operator+(SymMat)", "SymMat::operator-(SymMat)", "operator+(SymMat,SymMat)", "operator-(SymMat,SymMat)",
    "operator+=(SymMat,SymMat)", "operator-=(SymMat,SymMat)", "operator*(SymMat,SymMat)", "operator*(Mat,SymMat)",
    "Lower(Mat)", "Upper(Mat)",
]


class Unparsable(Exception):
    pass


def strip_cxx_comments(s):
    s = re.sub(r"/\*.*?\*/", lambda m: re.sub(r"[^\n]", " ", m.group(0)), s, flags=re.S)
    return re.sub(r"//[^\n]*", "", s)


def balanced(src, start, open_ch, close_ch):
    """src[start] == open_ch; index just after the matching close"""
    d = 0
    for i in range(start, len(src)):
        if src[i] == open_ch:
            d += 1
        elif src[i] == close_ch:
            d -= 1
            if d == 0:
                return i + 1
    raise Unparsable("unbalanced " + open_ch)


def balanced_back(src, end, open_ch, close_ch):
    """src[end] == close_ch; index of the matching open"""
    d = 0
    for i in range(end, -1, -1):
        if src[i] == close_ch:
            d += 1
        elif src[i] == open_ch:
            d -= 1
            if d == 0:
                return i
    raise Unparsable("unbalanced " + close_ch)


def split_top(s, sep=","):
    out, d, cur = [], 0, ""
    for ch in s:
        if ch in "(<[":
            d += 1
        elif ch in ")>]":
            d -= 1
        if ch == sep and d == 0:
            out.append(cur)
            cur = ""
        else:
            cur += ch
    if cur.strip():
        out.append(cur)
    return [x.strip() for x in out]


def kind_of_type(t):
    for k in KIND_ORDER:
        if re.search(r"\b" + k + r"\b", t):
            return k
    return None


def class_ranges(src):
    out = []
    for m in re.finditer(r"\bclass\s+(\w+)\b([^;{()]*)\{", src):
        if m.group(1) not in KINDS:
            continue
        i = m.end() - 1
        out.append((m.group(1), i, balanced(src, i, "{", "}")))
    return out


def parse_params(plist):
    """-> [(kind or None, name)]"""
    out = []
    if not plist.strip():
        return out
    for p in split_top(plist):
        p = re.sub(r"=.*$", "", p, flags=re.S).strip()
        ids = re.findall(r"[A-Za-z_]\w*", p)
        if not ids:
            raise Unparsable("parameter without a name: " + p)
        name = ids[-1]
        typ = p[:p.rfind(name)]
        out.append((kind_of_type(typ), name))
    return out


TERM_RE = re.compile(r"^(?:(this)\s*->\s*|(\w+)\s*\.\s*)?(rows|cols|dim|size)\s*\(\s*\)$")


def parse_term(t, owner_of, where):
    m = TERM_RE.match(t.strip())
    if not m:
        raise Unparsable(f"{where}: guard term `{t.strip()}` is not rows()/cols()/dim()/size() of an operand")
    who = "this" if (m.group(1) or not m.group(2)) else m.group(2)
    if who not in owner_of:
        raise Unparsable(f"{where}: guard term `{t.strip()}` refers to `{who}`, which is not an operand")
    return (m.group(3), owner_of[who])


def find_guards(body, owner_of, where):
    """-> (atoms, position of the first guard or None)"""
    atoms, first = [], None
    for m in re.finditer(r"\bthrow\s+Exc\s*\(\s*Exception::BadRank", body):
        j = m.start() - 1
        while j >= 0 and body[j].isspace():
            j -= 1
        if j < 0 or body[j] != ")":
            raise Unparsable(f"{where}: `throw BadRank` without an `if (…)` in front")
        i = balanced_back(body, j, "(", ")")
        if not re.search(r"\bif\s*$", body[:i]):
            raise Unparsable(f"{where}: `throw BadRank` without an `if (…)` in front")
        cond = body[i + 1:j]
        if not re.search(r"\b(rows|cols|dim|size)\s*\(", cond):
            continue                     # a guard on values (x < 0), not on dimensions
        for part in cond.split("||"):
            if part.count("!=") != 1:
                raise Unparsable(f"{where}: guard `{cond.strip()}` is not a disjunction of `!=`")
            l, r = part.split("!=")
            atoms.append((parse_term(l, owner_of, where), parse_term(r, owner_of, where)))
        if first is None:
            first = re.search(r"\bif\s*$", body[:i]).start()
    return atoms, first


DELEG_RE = re.compile(r"(?:^|[;{}]|\breturn\b)\s*(?:(\w+)\s*\.\s*|this\s*->\s*)?\b(add|sub|mul|dot)\s*\(")


def find_functions(fname, src):
    """-> list of dict(cls, fn, params, body, pos)"""
    classes = class_ranges(src)
    out = []
    for m in NAME_RE.finditer(src):
        fn = re.sub(r"\s+", "", m.group(1))
        lp = m.end() - 1
        rp = balanced(src, lp, "(", ")")
        k = rp
        mm = re.match(r"\s*(?:const\b\s*)?(?:override\b\s*)?", src[k:])
        k += mm.end()
        if k >= len(src) or src[k] != "{":
            continue                                  # a declaration or a call
        # a call `x.add(...)`/`->add(` or `return add(..)` is followed by `;`, never `{`; still exclude
        # control statements such as `if (dot(...)) {`
        before = src[:m.start()].rstrip()
        if before.endswith(".") or before.endswith("->"):
            continue
        end = balanced(src, k, "{", "}")
        body = src[k + 1:end - 1]
        cls = None
        for (c, i, j) in classes:
            if i < m.start() < j:
                cls = c
        if cls is None:
            q = re.search(r"(\w+)\s*<[^<>;{}()]*>\s*::\s*$", src[:m.start()])
            if q and q.group(1) in KINDS:
                cls = q.group(1)
        out.append({"file": fname, "cls": cls, "fn": fn, "params": parse_params(src[lp + 1:rp - 1]),
                    "body": body, "pos": m.start()})
    return out


def entry_name(f):
    ps = ",".join(k if k else "Float" for (k, _) in f["params"])
    return (f["cls"] + "::" if f["cls"] else "") + f["fn"] + "(" + ps + ")"


def build(repo):
    funcs = []
    for h in HEADERS:
        p = repo / "lib" / "matvec" / h
        funcs += find_functions(h, strip_cxx_comments(p.read_text()))

    # ---- pass 1: own guards; operands
    prims = {}
    entries = []
    for f in funcs:
        name = entry_name(f)
        arr = [(k, n) for (k, n) in f["params"] if k]
        owner_of, kinds = {}, {}
        if f["cls"]:
            owner_of["this"] = "a"
            kinds["a"] = f["cls"]
            rest = arr
        else:
            if not arr:
                continue
            owner_of[arr[0][1]] = "a"
            kinds["a"] = arr[0][0]
            rest = arr[1:]
        prim = f["cls"] == "MatVecBase" and f["fn"] in ("add", "sub", "mul")
        if prim and f["fn"] in ("add", "sub"):
            if len(rest) != 2:
                raise Unparsable(f"{name}: expected (B, X)")
            owner_of[rest[0][1]], kinds["b"] = "b", rest[0][0]
            owner_of[rest[1][1]] = "res"
        elif len(rest) > 1:
            raise Unparsable(f"{name}: more than two matrix/vector operands")
        elif rest:
            owner_of[rest[0][1]], kinds["b"] = "b", rest[0][0]
        nops = 1 + ("b" in kinds)
        fn = f["fn"]
        # class of the operation (what the index arithmetic needs)
        if prim:
            cls = "storage3" if fn in ("add", "sub") else "storage"
        elif fn in ("operator+", "operator-", "operator+=", "operator-=") and nops == 2:
            cls = "sum"
        elif fn == "dot" and nops == 2:
            cls = "sum"
        elif fn == "operator*" and nops == 2:
            cls = "product"
        elif fn in ("invert", "Lower", "Upper") and nops == 1:
            cls = "square" if kinds["a"] == "Mat" else "none"
        elif fn == "trans" and nops == 1:
            cls = "none"
        else:
            continue                                   # scalar multiples, unary minus, …
        atoms, gpos = find_guards(f["body"], owner_of, name)
        # the guard must come before the first storage access
        acc = [m.start() for m in re.finditer(r"\bbegin\s*\(|\bend\s*\(|\bfor\s*\(|\bwhile\s*\(|\bentry\s*\(", f["body"])]
        if gpos is not None and acc and min(acc) < gpos:
            raise Unparsable(f"{name}: the BadRank guard comes after the first storage access")
        e = {"name": name, "file": f["file"], "kinds": kinds, "cls": cls, "atoms": atoms, "own": len(atoms),
             "via": "", "f": f, "owner_of": owner_of, "gpos": gpos}
        entries.append(e)
        if prim or (f["cls"] == "VecBase" and fn == "dot"):
            prims[fn] = e

    # ---- pass 2: delegation to the primitives
    for e in entries:
        f = e["f"]
        if e in prims.values():
            continue
        body = f["body"]
        locals_ = set(re.findall(r"\b(?:Mat|Vec|SymMat|TransMat|TransVec)\b(?:\s*<[^<>;]*>)?\s+(\w+)\s*[({;]", body))
        for m in DELEG_RE.finditer(body):
            callee = m.group(2)
            if callee not in prims:
                raise Unparsable(f"{e['name']}: delegates to unknown `{callee}`")
            lp = m.end() - 1
            rp = balanced(body, lp, "(", ")")
            args = split_top(body[lp + 1:rp - 1])
            recv = m.group(1)
            sub = {}
            if recv is None:
                if "this" not in e["owner_of"]:
                    raise Unparsable(f"{e['name']}: unqualified call of `{callee}` in a free function")
                sub["a"] = "a"
            else:
                if recv not in e["owner_of"]:
                    raise Unparsable(f"{e['name']}: `{recv}.{callee}(…)`: receiver is not an operand")
                sub["a"] = e["owner_of"][recv]
            pe = prims[callee]
            cparams = [(k, n) for (k, n) in pe["f"]["params"]]
            if len(args) != len(cparams):
                raise Unparsable(f"{e['name']}: call of `{callee}` with {len(args)} arguments")
            for a_expr, (ck, cn) in zip(args, cparams):
                if not ck:
                    continue
                tgt = pe["owner_of"][cn]
                a_expr = a_expr.strip()
                if a_expr == "*this":
                    sub[tgt] = "a"
                elif a_expr in e["owner_of"]:
                    sub[tgt] = e["owner_of"][a_expr]
                elif a_expr in locals_:
                    sub[tgt] = "res"
                else:
                    raise Unparsable(f"{e['name']}: argument `{a_expr}` of `{callee}` is neither an operand nor a local object")
            if e["gpos"] is not None and m.start() < e["gpos"]:
                raise Unparsable(f"{e['name']}: `{callee}` is called before the BadRank guard")
            for (l, r) in pe["atoms"]:
                e["atoms"].append(((l[0], sub[l[1]]), (r[0], sub[r[1]])))
            e["via"] = pe["name"].split("(")[0]

    # ---- dedupe (const / non-const overloads), completeness
    seen, out = {}, []
    for e in entries:
        key = e["name"]
        sig = (e["cls"], tuple(e["atoms"]), tuple(sorted(e["kinds"].items())))
        if key in seen:
            if seen[key] != sig:
                raise Unparsable(f"{key}: two overloads with different guards")
            continue
        seen[key] = sig
        out.append(e)
    missing = [n for n in EXPECTED if n not in seen]
    if missing:
        raise Unparsable("operators no longer found in lib/matvec: " + ", ".join(missing))
    return out


def lean_term(t):
    return f"⟨.{t[0]}, .{t[1]}⟩"


def render(entries):
    L = ["/-", "  GENERATED by tools/gen/c15_dimchecks.py from lib/matvec/*.h — do not edit.",
         "  One entry per operator: the effective BadRank guard (own atoms first, then those of the",
         "  MatVecBase/VecBase primitive it delegates to).  Meaning: Gama/Model/DimCheck.lean.", "-/",
         "import Gama.Model.DimCheck", "namespace Gama.Gen.DimChecks", "open Gama.DimCheck", "",
         "def table : List Entry := ["]
    rows = []
    for e in entries:
        ka = KINDS[e["kinds"]["a"]]
        kb = KINDS[e["kinds"].get("b", e["kinds"]["a"])]
        g = ", ".join(f"⟨{lean_term(l)}, {lean_term(r)}⟩" for (l, r) in e["atoms"])
        rows.append(f'  {{ name := "{e["name"]}", file := "{e["file"]}", ka := .{ka}, kb := .{kb}, cls := .{e["cls"]},\n'
                    f'    guard := [{g}], own := {e["own"]}, via := "{e["via"]}" }}')
    L.append(",\n".join(rows))
    L += ["]", "", "end Gama.Gen.DimChecks", ""]
    return "\n".join(L)


def run(repo, out_path):
    """regenerate; returns True when the file content changed"""
    txt = render(build(Path(repo)))
    out_path = Path(out_path)
    if out_path.exists() and out_path.read_text() == txt:
        return False
    out_path.parent.mkdir(parents=True, exist_ok=True)
    out_path.write_text(txt)
    return True


if __name__ == "__main__":
    import sys
    repo = Path(sys.argv[1] if len(sys.argv) > 1 else "/repo")
    es = build(repo)
    for e in es:
        print(e["name"], e["cls"], e["kinds"], e["atoms"], e["via"])
    print(len(es), "entries")
