"""Translator C12 (consumers):  lib/gnu_gama/local/deformation.cpp  `GamaLocalDeformation::init()`
    ->  lean/Gama/Gen/DeformSites.lean   (`Gama.Gen.DeformSites.blocks`, `.fills`)

What is regenerated (the parts of `init()` that decide WHICH member of WHICH epoch's record is read):

  * the two record-filling loops
        for (const auto& pK : ptr_epochK()->adjusted_points) { auto& rec = adjrec12[pK.id]; rec.<m> = pK.<f>; … }
    -> `fills` : (epoch K of the loop, member written `<m>` = coordinate + epoch suffix, field read `<f>`)
  * the index-transformation loop
        for (const auto& r : adjrec12) { if (r.second.A && r.second.B) { tN.push_back( r.second.M ); … } … }
    -> `blocks` : per guarded block the two guard members and, in source order, every
       `tN.push_back( r.second.M )` as (target vector N, member M = coordinate + epoch suffix).

A moved / changed member (e.g. `t2.push_back( r.second.indz1 )`) changes the generated text, and the proof
of `Gama.Consumers.t1Of_def` / `t2Of_def` / `put_sites` (Lemmas/Consumers.lean) no longer checks.
Anything the parser does not recognise inside these loops is a broken tie.
"""
import re
from pathlib import Path


class Unparsable(Exception):
    pass


def strip_cxx(s):
    s = re.sub(r"/\*.*?\*/", " ", s, flags=re.S)
    s = re.sub(r"//[^\n]*", "", s)
    # drop the DEBUG blocks (never compiled into the tool)
    s = re.sub(r"#ifdef\s+DEBUG_GAMA_LOCAL_DEFORMATION.*?#endif", " ", s, flags=re.S)
    return s


def block_after(s, i):
    """s[i] == '{' -> (body, index after the matching '}')"""
    assert s[i] == "{"
    d = 0
    for j in range(i, len(s)):
        if s[j] == "{":
            d += 1
        elif s[j] == "}":
            d -= 1
            if d == 0:
                return s[i + 1:j], j + 1
    raise Unparsable("deformation.cpp: unbalanced braces")


MEMBER = re.compile(r"^(ind)?([xyz])([12])$")


def member(m, what):
    mm = MEMBER.match(m)
    if not mm:
        raise Unparsable(f"deformation.cpp: {what}: unknown record member `{m}`")
    return ("ind" if mm.group(1) else "val"), mm.group(2), int(mm.group(3))


def parse(repo):
    src = strip_cxx((Path(repo) / "lib/gnu_gama/local/deformation.cpp").read_text())
    m = re.search(r"void\s+GamaLocalDeformation::init\s*\(\s*\)\s*\{", src)
    if not m:
        raise Unparsable("deformation.cpp: GamaLocalDeformation::init() not found")
    body, _ = block_after(src, m.end() - 1)

    # ---- the two filling loops
    fills = []
    for lm in re.finditer(r"for\s*\(\s*const\s+auto\s*&\s*p([12])\s*:\s*ptr_epoch([12])\s*\(\s*\)\s*->\s*adjusted_points\s*\)\s*\{", body):
        k, ek = int(lm.group(1)), int(lm.group(2))
        if k != ek:
            raise Unparsable(f"deformation.cpp: loop variable p{k} runs over epoch {ek}")
        lb, _ = block_after(body, lm.end() - 1)
        stmts = [s.strip() for s in lb.split(";") if s.strip()]
        if not stmts or not re.fullmatch(rf"auto\s*&\s*rec\s*=\s*adjrec12\s*\[\s*p{k}\.id\s*\]", stmts[0]):
            raise Unparsable(f"deformation.cpp: epoch-{k} loop does not start with `auto& rec = adjrec12[p{k}.id]`")
        for st in stmts[1:]:
            am = re.fullmatch(rf"rec\.(\w+)\s*=\s*p{k}\.(\w+)", st)
            if not am:
                raise Unparsable(f"deformation.cpp: epoch-{k} loop: statement `{st}` not understood")
            if am.group(1) == "id":
                if am.group(2) != "id":
                    raise Unparsable(f"deformation.cpp: rec.id = p{k}.{am.group(2)}")
                continue
            kind, c, e = member(am.group(1), f"epoch-{k} loop")
            fm = re.fullmatch(r"(ind)?([xyz])", am.group(2))
            if not fm:
                raise Unparsable(f"deformation.cpp: epoch-{k} loop reads unknown point field `{am.group(2)}`")
            sk = "ind" if fm.group(1) else "val"
            if sk != kind:
                raise Unparsable(f"deformation.cpp: epoch-{k} loop: `{st}` mixes an index and a coordinate")
            fills.append((k, kind, c, e, sk, fm.group(2)))
    if len({f[0] for f in fills}) != 2:
        raise Unparsable("deformation.cpp: the two record-filling loops of init() were not found")

    # ---- the index-transformation loop: the `for (r : adjrec12)` whose body mentions t1/t2.push_back
    blocks = None
    for lm in re.finditer(r"for\s*\(\s*const\s+auto\s*&\s*r\s*:\s*adjrec12\s*\)\s*\{", body):
        lb, _ = block_after(body, lm.end() - 1)
        if "push_back" not in lb:
            continue
        if blocks is not None:
            raise Unparsable("deformation.cpp: more than one loop over adjrec12 pushes into t1/t2")
        blocks = []
        pos = 0
        while True:
            rest = lb[pos:]
            if not rest.strip():
                break
            im = re.match(r"\s*if\s*\(\s*r\.second\.(\w+)\s*&&\s*r\.second\.(\w+)\s*\)\s*\{", rest)
            if not im:
                raise Unparsable(f"deformation.cpp: index loop: `{rest.strip()[:60]}` is not `if (r.second.A && r.second.B) {{`")
            ib, end = block_after(rest, im.end() - 1)
            g = [member(im.group(1), "guard"), member(im.group(2), "guard")]
            pushes = []
            for st in [s.strip() for s in ib.split(";") if s.strip()]:
                pm = re.fullmatch(r"t([12])\.push_back\s*\(\s*r\.second\.(\w+)\s*\)", st)
                if not pm:
                    raise Unparsable(f"deformation.cpp: index loop: statement `{st}` not understood")
                pushes.append((int(pm.group(1)), member(pm.group(2), "push_back")))
            blocks.append((g, pushes))
            pos += end
    if blocks is None:
        raise Unparsable("deformation.cpp: the loop that fills t1/t2 was not found")
    if len(re.findall(r"t[12]\.push_back\s*\(\s*r\.second", body)) != sum(len(p) for _, p in blocks):
        raise Unparsable("deformation.cpp: a t1/t2.push_back( r.second… ) outside the recognised loop")
    return fills, blocks


def lean_ref(kind, c, e):
    return f"⟨.{kind}, .{c}, {e}⟩"


def generate(repo):
    fills, blocks = parse(repo)
    L = ["/-",
         "  GENERATED by tools/gen/c12_deform.py from lib/gnu_gama/local/deformation.cpp",
         "  (`GamaLocalDeformation::init()`) on every run of the C12 check.  Do not edit.",
         "  `fills`  : the assignments `rec.<member> = p<K>.<field>` of the two record-filling loops;",
         "  `blocks` : the guarded blocks of the loop that fills the index transformations `t1`, `t2`:",
         "             guard `if (r.second.A && r.second.B)` and every `tN.push_back( r.second.M )` in source order.",
         "  A member is (index or coordinate value, coordinate, epoch suffix 1|2).",
         "-/",
         "namespace Gama.Gen.DeformSites",
         "",
         "inductive Kind | ind | val",
         "deriving DecidableEq, Repr",
         "inductive Coord | x | y | z",
         "deriving DecidableEq, Repr",
         "",
         "/-- a member of `Rec12`: `indx1`, `x1`, … -/",
         "structure Ref where",
         "  kind : Kind",
         "  coord : Coord",
         "  epoch : Nat",
         "deriving DecidableEq, Repr",
         "",
         "/-- `rec.<dst> = p<loop>.<srcKind><srcCoord>` -/",
         "structure Fill where",
         "  loop : Nat",
         "  dst : Ref",
         "  srcKind : Kind",
         "  srcCoord : Coord",
         "deriving DecidableEq, Repr",
         "",
         "/-- `t<target>.push_back( r.second.<src> )` -/",
         "structure Push where",
         "  target : Nat",
         "  src : Ref",
         "deriving DecidableEq, Repr",
         "",
         "structure Block where",
         "  guard : List Ref",
         "  pushes : List Push",
         "deriving DecidableEq, Repr",
         "",
         "def fills : List Fill := ["]
    L.append(",\n".join(f"  ⟨{k}, {lean_ref(kind, c, e)}, .{sk}, .{sc}⟩" for (k, kind, c, e, sk, sc) in fills) + "]")
    L += ["", "def blocks : List Block := ["]
    bl = []
    for g, pushes in blocks:
        bl.append("  ⟨[" + ", ".join(lean_ref(*r) for r in g) + "],\n   [" +
                  ", ".join(f"⟨{t}, {lean_ref(*r)}⟩" for t, r in pushes) + "]⟩")
    L.append(",\n".join(bl) + "]")
    L += ["", "end Gama.Gen.DeformSites", ""]
    return "\n".join(L), {"fills": len(fills), "blocks": len(blocks), "pushes": sum(len(p) for _, p in blocks)}


if __name__ == "__main__":
    import sys
    txt, info = generate(sys.argv[1] if len(sys.argv) > 1 else "/repo")
    print(txt)
    print(info, file=sys.stderr)
