"""Generator of the NUMBERS inside lean/Gama/Lemmas/StatanChiMono.lean (`chiPolyA_strictMono`, `chiPolyB_strictMono`):
expands the two Chi_square polynomials of statan.cpp in powers of f2 with coefficients in f1, computes the exact rational
bounds |c_k| <= C_k for 0 <= f1 <= 1/3 and the Lipschitz constants k*(7/4)^(k-1), and prints the Lean proofs.
NOT run by the check: the Lean proof itself re-derives the expansion (`ring` against the regenerated
`StatanGen.chiPolyA/B`), so a changed coefficient in statan.cpp breaks the proof; rerun this script to refresh the numbers.
usage: python3 tools/gen/c17_chimono.py > /tmp/ChiMonoGen.txt
"""
from fractions import Fraction as Fr
import math
# polynomials in (f1,f2) as dict {(i,j):coef}  i=power f1, j=power f2
def P(c): return {(0,0):Fr(c)}
def add(a,b):
    r=dict(a)
    for k,v in b.items(): r[k]=r.get(k,0)+v
    return r
def mul(a,b):
    r={}
    for (i,j),v in a.items():
        for (k,l),w in b.items():
            r[(i+k,j+l)]=r.get((i+k,j+l),0)+v*w
    return r
def neg(a): return {k:-v for k,v in a.items()}
f1={(1,0):Fr(1)}; f2={(0,1):Fr(1)}
def d(s): return P(Fr(s))
def H(cs):  # horner in f2: cs[0]*f2 ... standard: ((c0*f2 + c1)*f2 + c2)...
    r=d(cs[0])
    for c in cs[1:]:
        r=add(mul(r,f2),d(c))
    return r
A = add(mul(add(mul(H(["0.1565326e-2","0.1060438e-2","-0.6950356e-2","-0.1323293e-1","0.2277679e-1","-0.8986007e-2","-0.1513904e-1"]),f1),
        H(["-0.1450117e-2","0.253001e-2","0.5169654e-2","-0.1153761e-1","0.1128186e-1","0.2607083e-1","-0.2237368"])),f1),
        add(mul(H(["0.9780499e-4","-0.8426812e-3","0.312558e-2","-0.8553069e-2","0.1348028e-3","0.4713941"]),f2),d("1.0000886")))
B1 = add(mul(H(["-0.1425296e-1","0.1264616e-1"]),f1), H(["-0.588609e-2","0.1400483e-1","-0.1091214e-1","-0.2304527e-1"]))
B2 = add(mul(B1,f1), H(["-0.2728484e-3","0.3135411e-2","-0.9699681e-2","0.1316872e-1","0.2618914e-1","-0.2222222"]))
B3 = add(mul(add(mul(mul(H(["0.5406674e-4","0.3483789e-4","-0.7274761e-3","0.3292181e-2","-0.8729713e-2"]),f2),f2),d("0.4714045")),f2),d(1))
B = add(mul(B2,f1),B3)
F=Fr(7,4); F1=Fr(1,3)
def q(x):
    x=Fr(x)
    if x.denominator==1: return f"({x.numerator} : ℝ)" if x>=0 else f"(-{-x.numerator} : ℝ)"
    return f"({x.numerator} / {x.denominator} : ℝ)" if x>=0 else f"(-{-x.numerator} / {x.denominator} : ℝ)"
def cexpr(p,k):
    parts=[]
    pw=["","f1","(f1 * f1)","(f1 * f1 * f1)"]
    for i in range(4):
        c=p.get((i,k),Fr(0))
        if c==0: continue
        parts.append(q(c) if i==0 else f"{q(c)} * {pw[i]}")
    return "(" + " + ".join(parts) + ")"
def lemma(name,fn,p):
    deg=max(j for (_,j) in p)
    L=[]
    L.append(f"/-- `{fn} f1 ·` is strictly increasing on `[-7/4, 7/4]` for every `0 ≤ f1 ≤ 1/3` (n ≥ 3): coefficient of the linear term")
    L.append(f"    minus the Lipschitz constants `k·(7/4)^(k-1)·|c_k|` of the higher terms is positive (GENERATED numbers: tools/gen/c17_chimono.py) -/")
    L.append(f"theorem {name} {{f1 u v : ℝ}} (h0 : 0 ≤ f1) (h1 : f1 ≤ 1 / 3) (hu : |u| ≤ 7 / 4) (hv : |v| ≤ 7 / 4) (huv : u < v) :")
    L.append(f"    StatanGen.{fn} f1 u < StatanGen.{fn} f1 v := by")
    L.append("  have hd : 0 < v - u := by linarith")
    L.append("  have P := pow_sub_pow_le hu hv huv.le")
    L.append("  have hf2 : f1 * f1 ≤ 1 / 9 := by nlinarith")
    L.append("  have hf2' : 0 ≤ f1 * f1 := by positivity")
    L.append("  have hf3 : f1 * f1 * f1 ≤ 1 / 27 := by nlinarith")
    L.append("  have hf3' : 0 ≤ f1 * f1 * f1 := by positivity")
    tot=Fr(0)
    for k in range(2,deg+1):
        D=k*F**(k-1)
        L.append(f"  have p{k} : |v ^ {k} - u ^ {k}| ≤ {q(D)} * (v - u) := by have h := P {k-1}; norm_num at h; linarith")
        C=sum(abs(p.get((i,k),Fr(0)))*F1**i for i in range(4))
        L.append(f"  have c{k} : |{cexpr(p,k)}| ≤ {q(C)} := by rw [abs_le]; constructor <;> linarith")
        L.append(f"  have t{k} := mul_ge_of_abs c{k} p{k}")
        tot+=C*D
    m1=p.get((0,1))-sum(abs(min(p.get((i,1),Fr(0)),0))*F1**i for i in range(1,4))
    assert m1>tot
    L.append(f"  have c1 : {q(m1)} ≤ {cexpr(p,1)} := by linarith")
    L.append(f"  have t1 := mul_le_mul_of_nonneg_right c1 hd.le")
    terms=" + ".join([f"{cexpr(p,1)} * (v - u)"]+[f"{cexpr(p,k)} * (v ^ {k} - u ^ {k})" for k in range(2,deg+1)])
    L.append(f"  have e : StatanGen.{fn} f1 v - StatanGen.{fn} f1 u = {terms} := by")
    L.append(f"    unfold StatanGen.{fn}; simp only [scalar_ofSci_real, Nat.cast_ofNat]; ring")
    L.append("  linarith [e, t1, " + ", ".join(f"t{k}" for k in range(2,deg+1)) + ", hd]")
    return "\n".join(L)
print(lemma("chiPolyA_strictMono","chiPolyA",A)+"\n\n"+lemma("chiPolyB_strictMono","chiPolyB",B)+"\n")
