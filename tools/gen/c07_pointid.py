"""Translator C07:  lib/gnu_gama/local/pointid.cpp  `PointID::operator<`, `operator==`, `operator!=`
    ->  lean/Gama/Gen/PointIdCmp.lean   (`Gama.PointId.lt`, `.eq`, `.ne`)

The three bodies must be chains of
    if (<cond>) return <expr>;  [else]  …  return <expr>;
over the atoms  iid, p.iid (PointInt), sid, p.sid (std::string), 0, true, false  with  ! && || == != < > <= >=
and parentheses.  `a < b` on strings is `std::string::operator<` (`bytesLt` of Model/PointIdBase.lean), on
integers the order of the naturals (`init` only stores non-negative values).  Anything else is a broken tie.
"""
import re
from pathlib import Path


class Unparsable(Exception):
    pass


def strip_cxx_comments(s):
    s = re.sub(r"/\*.*?\*/", " ", s, flags=re.S)
    return re.sub(r"//[^\n]*", "", s)


TOK = re.compile(r"\s*(?:(\d+)|(p\.iid|p\.sid|iid|sid|true|false|if|else|return)\b|(&&|\|\||==|!=|<=|>=|[!<>();{}]))")


def tokenize(s):
    out, i = [], 0
    s = s.strip()
    while i < len(s):
        m = TOK.match(s, i)
        if not m:
            raise Unparsable(f"pointid.cpp: cannot tokenize `{s[i:i + 40]}`")
        i = m.end()
        out.append(m.group(1) or m.group(2) or m.group(3))
    return out


class P:
    def __init__(self, toks, fn):
        self.t, self.i, self.fn = toks, 0, fn

    def peek(self):
        return self.t[self.i] if self.i < len(self.t) else None

    def eat(self, v=None):
        x = self.peek()
        if x is None or (v is not None and x != v):
            raise Unparsable(f"PointID::{self.fn}: expected `{v}`, got `{x}`")
        self.i += 1
        return x

    # statements: -> Lean Bool term
    def stmts(self):
        if self.peek() == "{":
            self.eat("{")
            r = self.stmts()
            self.eat("}")
            if self.peek() not in (None, "}"):
                raise Unparsable(f"PointID::{self.fn}: statement after a block that returned")
            return r
        if self.peek() == "return":
            self.eat("return")
            e = self.expr()
            self.eat(";")
            return e[1] if e[0] == "bool" else self.bad("returned value is not a bool")
        if self.peek() == "if":
            self.eat("if")
            self.eat("(")
            c = self.expr()
            self.eat(")")
            if c[0] != "bool":
                self.bad("condition is not a bool")
            t = self.branch()
            if self.peek() == "else":
                self.eat("else")
            e = self.stmts()
            return f"if {c[1]} then {t}\n  else {e}"
        self.bad(f"statement not understood at `{self.peek()}`")

    def branch(self):
        """the statement under an `if`: must return"""
        if self.peek() == "{":
            self.eat("{")
            r = self.branch()
            self.eat("}")
            return r
        self.eat("return")
        e = self.expr()
        self.eat(";")
        if e[0] != "bool":
            self.bad("returned value is not a bool")
        return e[1]

    def bad(self, why):
        raise Unparsable(f"PointID::{self.fn}: {why}")

    # expressions: (type, term)
    def expr(self):
        l = self.conj()
        while self.peek() == "||":
            self.eat()
            r = self.conj()
            l = ("bool", f"({l[1]} || {r[1]})")
        return l

    def conj(self):
        l = self.cmp()
        while self.peek() == "&&":
            self.eat()
            r = self.cmp()
            l = ("bool", f"({l[1]} && {r[1]})")
        return l

    def cmp(self):
        l = self.unary()
        if self.peek() in ("==", "!=", "<", ">", "<=", ">="):
            op = self.eat()
            r = self.unary()
            if l[0] != r[0] or l[0] not in ("int", "str"):
                self.bad(f"comparison `{op}` of {l[0]} and {r[0]}")
            a, b = l[1], r[1]
            if op == "==":
                return ("bool", f"decide ({a} = {b})")
            if op == "!=":
                return ("bool", f"decide ({a} ≠ {b})")
            if l[0] == "int":
                rel = {"<": f"{a} < {b}", ">": f"{b} < {a}", "<=": f"{a} ≤ {b}", ">=": f"{b} ≤ {a}"}[op]
                return ("bool", f"decide ({rel})")
            return ("bool", {"<": f"bytesLt {a} {b}", ">": f"bytesLt {b} {a}", "<=": f"(!bytesLt {b} {a})",
                             ">=": f"(!bytesLt {a} {b})"}[op])
        return l

    def unary(self):
        x = self.peek()
        if x == "!":
            self.eat()
            e = self.unary()
            if e[0] != "bool":
                self.bad("`!` of a non-bool")
            return ("bool", f"(!{e[1]})")
        if x == "(":
            self.eat()
            e = self.expr()
            self.eat(")")
            return e
        self.eat()
        if x in ("true", "false"):
            return ("bool", x)
        if x is not None and x.isdigit():
            return ("int", x)
        if x in ("iid", "p.iid"):
            return ("int", "a.iid" if x == "iid" else "b.iid")
        if x in ("sid", "p.sid"):
            return ("str", "a.sid" if x == "sid" else "b.sid")
        self.bad(f"unexpected token `{x}`")


def body(src, op):
    m = re.search(r"bool\s+PointID::operator\s*%s\s*\(\s*const\s+PointID\s*&\s*p\s*\)\s*const\s*\{" % re.escape(op), src)
    if not m:
        raise Unparsable(f"pointid.cpp: PointID::operator{op} not found")
    i, d = m.end() - 1, 0
    for j in range(i, len(src)):
        d += src[j] == "{"
        d -= src[j] == "}"
        if d == 0:
            return src[i + 1:j]
    raise Unparsable("pointid.cpp: unbalanced braces")


def generate(repo):
    src = strip_cxx_comments((Path(repo) / "lib/gnu_gama/local/pointid.cpp").read_text())
    terms = {}
    for op, name in (("<", "lt"), ("==", "eq"), ("!=", "ne")):
        p = P(tokenize(body(src, op)), "operator" + op)
        terms[name] = p.stmts()
        if p.peek() is not None:
            raise Unparsable(f"PointID::operator{op}: unreachable statements after the final return")
    hdr = strip_cxx_comments((Path(repo) / "lib/gnu_gama/local/pointid.h").read_text())
    if not re.search(r"PointInt\s+iid\s*;", hdr) or not re.search(r"std::string\s+sid\s*;", hdr):
        raise Unparsable("pointid.h: members `PointInt iid; std::string sid;` not found")
    o = ["""/-
  GENERATED by tools/gen/c07_pointid.py from lib/gnu_gama/local/pointid.cpp (`PointID::operator<`,
  `operator==`, `operator!=`) on every run of the C07 check.  Do not edit.
  `a` is `*this`, `b` is the argument `p`; `bytesLt` is `std::string::operator<`.
-/
import Gama.Model.PointIdBase
namespace Gama.PointId
"""]
    doc = {"lt": "`PointID::operator<`", "eq": "`PointID::operator==`", "ne": "`PointID::operator!=`"}
    for name in ("lt", "eq", "ne"):
        o.append(f"/-- {doc[name]} -/\ndef {name} (a b : PointID) : Bool :=\n  {terms[name]}\n")
    o.append("end Gama.PointId\n")
    return "\n".join(o)


def run(repo, out_path):
    txt = generate(repo)
    p = Path(out_path)
    if p.exists() and p.read_text() == txt:
        return False
    p.parent.mkdir(parents=True, exist_ok=True)
    p.write_text(txt)
    return True


if __name__ == "__main__":
    import sys
    print(generate(sys.argv[1] if len(sys.argv) > 1 else "/repo"))
