"""
Translator C10 (round 7): lib/gnu_gama/adj/homogenization.h (`Homogenization::run`) and the two cluster
finishers of lib/gnu_gama/xml/gkfparser.cpp  ->  lean/Gama/Gen/HomogenizationSites.lean

Until round 6 `Homogenization::run`'s throw had no source tie and `c10.translate` only grepped for the dimension
guard.  This table regenerates, from the text of the current tree,

  * the throw of `run`: the call chain `cov.replicate()` -> `blockdiagonal->cholDec()` (argument counts), the
    comparison of its result (`!= 0`) as a Lean predicate `throwOnRet`, the `delete` before the throw, the exception
    kind (`Exception::NonPositiveDefinite`), and the kind of the no-data throw;
  * the ORDER of the phases of `run` (ready guard, no-data throw, replicate, cholDec test, upper factor, rhs copy,
    forward substitution of the rhs, counting pass, allocation of `sm`, assembling pass, `ready = true`) by the position
    of one marker per phase; a missing or duplicated marker stops the translator;
  * the forward substitution of the right-hand side (`x = pr(row) / *b++; pr(row) = x; n = row+1;
    while (b != e) pr(n++) -= *b++ * x;`): the loop is parsed (tools/gen/cfun.py) and matched against a skeleton,
    the pivot division and the update are emitted as Lean functions;
  * the dimension guard of `GKFparser::finish_obs` / `finish_hdiffs`
    (`if (idim && idim != static_cast<int>(<cluster>->observation_list.size())) return error(...)`) as a Lean predicate
    `dimGuard idim nobs`, one per function.

`Props/C10HomSites.lean` reads the table: `Hom.run` throws iff `throwOnRet` of the modelled `cholDec` result, with
the regenerated kind; `CovParse.finishObs/finishHdiffs` reject iff `dimGuard`; the phase order is the modelled one.
"""
import re
import sys
from pathlib import Path

sys.path.insert(0, str(Path(__file__).resolve().parent.parent))
from gen import cfun  # noqa: E402
from gen.cfun import Unparsable  # noqa: E402

PHASES = [
    ("ready-guard", r"if\s*\(\s*ready\s*\)\s*return\s*;"),
    ("no-data-throw", r"if\s*\(\s*!\s*data\s*\)\s*throw\s+Exception::matvec\s*\(\s*Exception::(\w+)"),
    ("replicate", r"BlockDiagonal<Float,\s*Index>\s*\*\s*blockdiagonal\s*=\s*cov\.replicate\s*\(\s*\)\s*;"),
    ("cholDec-test", r"if\s*\(\s*blockdiagonal->cholDec\s*\(([^()]*)\)\s*(!=|==|>|<|>=|<=)\s*(\d+)\s*\)"),
    ("upper-factor", r"UpperBlockDiagonal<Float,\s*Index>\s+upper\s*\(\s*bd\s*\)\s*;"),
    ("rhs-copy", r"\bpr\s*=\s*data->rhs\s*\(\s*\)\s*;"),
    ("rhs-forward-substitution", r"for\s*\(\s*Index\s+n\s*,\s*row\s*=\s*1\s*;\s*row\s*<=\s*pr\.dim\(\)\s*;\s*row\+\+\s*\)"),
    ("count", r"std::vector<Index>\s+block_cols\s*\("),
    ("allocate", r"\bsm\s*=\s*new\s+Sparse\s*\(\s*total_scaled_nonzeroes\s*,\s*mata->rows\(\)\s*,\s*mata->columns\(\)\s*\)\s*;"),
    ("assemble", r"std::vector<Index>\s+perm\s*\("),
    ("ready", r"\bready\s*=\s*true\s*;"),
]

FWD_SKELETON = """
        {
          const Float* b = upper.begin(row);
          const Float* e = upper.end  (row);
          const Float  x = H_pivot;
          pr(row) = x;
          n = H_next;
          while(b != e)
            {
              H_update;
            }
        }
"""


def match(pat, act, cap, what):
    if isinstance(pat, tuple) and len(pat) == 2 and pat[0] == "var" and isinstance(pat[1], str) and pat[1].startswith("H_"):
        cap[pat[1]] = act
        return
    if isinstance(pat, (tuple, list)):
        if not isinstance(act, (tuple, list)) or len(pat) != len(act):
            raise Unparsable(f"{what}: no longer has the shape the model transcribes")
        for p, a in zip(pat, act):
            match(p, a, cap, what)
        return
    if pat != act:
        raise Unparsable(f"{what}: expected `{pat}`, found `{act}`")


def unparen(e):
    while isinstance(e, tuple) and e[0] == "paren":
        e = e[1]
    return e


REL = {"!=": "≠", "==": "=", "<": "<", "<=": "≤", ">": ">", ">=": "≥"}


def parse(repo):
    try:
        h = cfun.strip_comments((Path(repo) / "lib/gnu_gama/adj/homogenization.h").read_text())
        g = cfun.strip_comments((Path(repo) / "lib/gnu_gama/xml/gkfparser.cpp").read_text(errors="replace"))
    except OSError as ex:
        raise Unparsable(str(ex))
    m = re.search(r"void\s+run\s*\(\s*\)\s*\{", h)
    if not m:
        raise Unparsable("homogenization.h: run() not found")
    k = m.end() - 1
    body = h[k + 1:cfun.matching(h, k, "{", "}")]
    pos, info = [], {}
    for name, rx in PHASES:
        ms = list(re.finditer(rx, body))
        if len(ms) != 1:
            raise Unparsable(f"Homogenization::run: phase `{name}` found {len(ms)} times")
        pos.append((ms[0].start(), name))
        info[name] = ms[0]
    order = [n for _, n in sorted(pos)]
    nodata = info["no-data-throw"].group(1)
    cm = info["cholDec-test"]
    chol_args = 0 if not cm.group(1).strip() else len(cm.group(1).split(","))
    rel, const = cm.group(2), int(cm.group(3))
    # the block guarded by the cholDec test: delete, then throw
    i = body.index("{", cm.end())
    blk = body[i + 1:cfun.matching(body, i, "{", "}")]
    tm = re.fullmatch(r"\s*delete\s+blockdiagonal\s*;\s*throw\s+Exception::matvec\s*\(\s*Exception::(\w+)\s*,\s*\"[^\"]*\"\s*\)\s*;\s*", blk)
    if not tm:
        raise Unparsable("Homogenization::run: the block after the cholDec test is not `delete blockdiagonal; throw Exception::matvec(Exception::<kind>, \"…\");`")
    kind = tm.group(1)
    # forward substitution of the rhs
    fm = info["rhs-forward-substitution"]
    i = body.index("{", fm.end())
    loop = body[i:cfun.matching(body, i, "{", "}") + 1]
    act = cfun.parse_body(loop, "rhs forward substitution", ("Float", "Index"))
    pat = cfun.parse_body(FWD_SKELETON, "skeleton", ("Float", "Index"))
    cap = {}
    match(pat, act, cap, "Homogenization::run, forward substitution of the rhs")
    pv = unparen(cap["H_pivot"])
    if pv[0] != "bin" or pv[1] not in "*/" or unparen(pv[2]) != ("call", "pr", [("var", "row")]) \
            or unparen(pv[3]) != ("deref", ("post++", ("var", "b"))):
        raise Unparsable("forward substitution: the pivot step is not `pr(row) <op> *b++`")
    nx = unparen(cap["H_next"])
    if nx != ("bin", "+", ("var", "row"), ("num", "1")):
        raise Unparsable("forward substitution: `n = row + 1` expected")
    up = cap["H_update"]
    if up[0] != "assign" or up[1] not in ("-=", "+=") or up[2] != ("call", "pr", [("post++", ("var", "n"))]):
        raise Unparsable("forward substitution: the update is not `pr(n++) -= …`")
    ur = unparen(up[3])
    fac = {repr(("deref", ("post++", ("var", "b")))): "u", repr(("var", "x")): "x"}
    if ur[0] != "bin" or ur[1] != "*" or repr(unparen(ur[2])) not in fac or repr(unparen(ur[3])) not in fac \
            or repr(unparen(ur[2])) == repr(unparen(ur[3])):
        raise Unparsable("forward substitution: the update term is not `*b++ * x`")
    upd = f"prN {up[1][0]} {fac[repr(unparen(ur[2]))]} * {fac[repr(unparen(ur[3]))]}"

    # gather of a correlated block: `T.set_zero();` ... `T(i, perm[c]) <op> *b++;` (round 9b: `=` vs `+=` is regenerated data)
    gs = re.findall(r"\bT\s*\(\s*i\s*,\s*perm\s*\[\s*c\s*\]\s*\)\s*([-+*/]?=)(?!=)\s*\*\s*b\s*\+\+\s*;", body)
    if len(gs) != 1 or gs[0] not in ("=", "+=", "-="):
        raise Unparsable("Homogenization::run: the gather statement `T(i, perm[c]) <op> *b++;` found %d times / unknown operator %r"
                         % (len(gs), gs))
    gop = gs[0]
    zm = list(re.finditer(r"\bT\s*\.\s*set_zero\s*\(\s*\)\s*;", body))
    decl = re.search(r"Mat<Float>\s+T\s*\(\s*block_dim\s*,\s*bcols\s*\)\s*;", body)
    gpos = re.search(r"\bT\s*\(\s*i\s*,\s*perm\s*\[", body).start()
    zeroed = bool(decl) and len(zm) == 1 and decl.end() <= zm[0].start() < gpos and \
        not re.search(r"\bT\s*\(", body[zm[0].end():gpos])
    if not decl:
        raise Unparsable("Homogenization::run: `Mat<Float> T(block_dim, bcols);` not found")
    gstore = {"=": "a", "+=": "old + a", "-=": "old - a"}[gop]

    # dimension guards
    guards = {}
    for fn in ("finish_obs", "finish_hdiffs"):
        fmm = re.search(r"int\s+GKFparser::%s\s*\(\s*\)\s*\{" % fn, g)
        if not fmm:
            raise Unparsable(f"gkfparser.cpp: GKFparser::{fn} not found")
        k = fmm.end() - 1
        fb = g[k + 1:cfun.matching(g, k, "{", "}")]
        gm = re.match(r"\s*if\s*\(\s*idim\s*(&&|\|\|)\s*idim\s*(!=|==|<|>|<=|>=)\s*static_cast<int>\(\s*\w+->observation_list\.size\(\)\s*\)\s*\)\s*"
                      r"return\s+error\s*\(", fb)
        if not gm:
            raise Unparsable(f"gkfparser.cpp: {fn} does not begin with the dimension guard `if (idim && idim != static_cast<int>(…->observation_list.size())) return error(`")
        guards[fn] = (gm.group(1), gm.group(2))

    def guard_lean(c, r):
        return f"decide (idim ≠ 0) {'&&' if c == '&&' else '||'} decide (idim {REL[r]} nobs)"

    text = f"""/-
  GENERATED by tools/gen/c10_homsites.py from `Homogenization::run` (lib/gnu_gama/adj/homogenization.h) and
  `GKFparser::finish_obs` / `finish_hdiffs` (lib/gnu_gama/xml/gkfparser.cpp) on every run of the C10 check.  Do not edit.
  Read by Props/C10HomSites.lean.
-/
import Gama.Scalar
namespace Gama.Gen.HomSites
open Gama

/-- the phases of `run()` in source order (one marker per phase; each found exactly once) -/
def phases : List String := [{", ".join('"' + n + '"' for n in order)}]

/-- `if (!data) throw Exception::matvec(Exception::{nodata}, …)` -/
def noDataKind : String := "{nodata}"

/-- number of arguments of `blockdiagonal->cholDec(…)` (0 = the default tolerance) -/
def cholDecArgs : Nat := {chol_args}

/-- `if (blockdiagonal->cholDec() {rel} {const})` -/
def throwOnRet (ret : Nat) : Bool := decide (ret {REL[rel]} {const})

/-- `{{ delete blockdiagonal; throw Exception::matvec(Exception::{kind}, …); }}` -/
def throwKind : String := "{kind}"

/-- forward substitution of the right-hand side: `const Float x = pr(row) {pv[1]} *b++;` -/
def fwdPivot {{K : Type}} [Scalar K] (prRow u : K) : K := prRow {pv[1]} u

/-- forward substitution of the right-hand side: `pr(n++) {up[1]} …;` in `while (b != e)` -/
def fwdUpdate {{K : Type}} [Scalar K] (prN u x : K) : K := {upd}

/-- gather of a correlated block, `T(i, perm[c]) {gop} *b++;`: the value stored for the coefficient `a` where `old` stands -/
def gatherStore {{K : Type}} [Scalar K] (old a : K) : K := {gstore}

/-- `Mat<Float> T(block_dim, bcols); T.set_zero();` precedes the gather loop and nothing touches `T` in between -/
def gatherZeroed : Bool := {"true" if zeroed else "false"}

/-- `GKFparser::finish_obs`: `if (idim {guards['finish_obs'][0]} idim {guards['finish_obs'][1]} static_cast<int>(standpoint->observation_list.size())) return error(…)` -/
def dimGuardObs (idim nobs : Nat) : Bool := {guard_lean(*guards['finish_obs'])}

/-- `GKFparser::finish_hdiffs`: the same guard on `heightdifferences->observation_list` -/
def dimGuardHdiffs (idim nobs : Nat) : Bool := {guard_lean(*guards['finish_hdiffs'])}

end Gama.Gen.HomSites
"""
    return text


def run(repo, lean_dir):
    return cfun.write_if_changed(Path(lean_dir) / "Gama" / "Gen" / "HomogenizationSites.lean", parse(repo))


if __name__ == "__main__":
    ch = run(sys.argv[1] if len(sys.argv) > 1 else "/repo", sys.argv[2] if len(sys.argv) > 2 else "/tmp/w7g")
    print("changed" if ch else "unchanged")
