"""
C19 translator:  /repo/lib/gnu_gama/xml/dataparser_g3.cpp (+ `optional` of dataparser.h)
                 ->  lean/Gama/Gen/G3ParserSites.lean

Reads the pending-attribute discipline of the g3 data parser:
  * `struct DataParser_g3`                 : the pending `double` members
  * `DataParser::init_g3`                  : `optional(g3->f);` statements (fields cleared once) and the
                                             `init(s_g3_obs_<kind>_opt, t_…, …, &DataParser::optional_<h>, …)`
                                             rows: which optional child handlers a record kind accepts
  * `DataParser::optional_<h>`             : the pending field each of them writes (`istr >> g3->f`)
  * `DataParser::g3_obs_<kind>` (end tags) : `obs->m = optional(g3->f);` / `obs->m = g3->f;` in program order
  * `DataParser::optional(double&)`        : must be read-and-clear
Every occurrence of `g3-><pending field>` must be one of the forms above, otherwise TieBroken.
Pure python3 standard library.
"""
import re
from pathlib import Path

try:
    from lib.core import TieBroken
except Exception:
    class TieBroken(Exception):
        def __init__(self, name, detail=""):
            super().__init__(name + ": " + detail)
            self.name, self.detail = name, detail

NAME = "c19_g3parser"
KINDS = ["dist", "zenith", "azimuth", "vector", "xyz", "hdiff", "height", "angle"]
FIELD = {"from_dh": ".fromDh", "to_dh": ".toDh", "left_dh": ".leftDh", "right_dh": ".rightDh"}


def broken(msg):
    raise TieBroken(NAME, msg)


def strip_comments(src):
    src = re.sub(r"/\*.*?\*/", "", src, flags=re.S)
    return re.sub(r"//[^\n]*", "", src)


def body_of(src, header_re, what):
    m = re.search(header_re, src)
    if not m:
        broken(f"{what} not found")
    i = src.index("{", m.end() - 1)
    depth, j = 0, i
    while True:
        depth += (src[j] == "{") - (src[j] == "}")
        j += 1
        if depth == 0:
            return src[i:j]


def analyse(repo):
    X = Path(repo) / "lib" / "gnu_gama" / "xml"
    try:
        src = strip_comments((X / "dataparser_g3.cpp").read_text())
        hdr = strip_comments((X / "dataparser.h").read_text())
    except OSError as e:
        broken(f"cannot read sources: {e}")
    # optional(double&): read and clear
    if not re.search(r"double\s+optional\(double&\s*attr\)\s*\{\s*double\s+tmp\s*=\s*attr;\s*attr\s*=\s*0;\s*return\s+tmp;\s*\}", hdr):
        broken("dataparser.h: DataParser::optional(double&) is no longer `tmp = attr; attr = 0; return tmp;`")
    st = body_of(src, r"struct\s+DataParser_g3\s*\{", "struct DataParser_g3")
    pending = re.findall(r"\bdouble\s+(\w+)\s*;", st)
    if sorted(pending) != sorted(FIELD):
        broken(f"struct DataParser_g3: pending doubles {pending}")
    init = body_of(src, r"void\s+DataParser::init_g3\(\)\s*\{", "DataParser::init_g3")
    init_cleared = re.findall(r"(?<![=\w])optional\(g3->(\w+)\);", init)
    accounted = len(init_cleared)
    # optional child handlers per record kind
    rows = re.findall(r"init\(\s*s_g3_obs_(\w+?)_opt\s*,\s*t_(\w+)\s*,[^;]*?&DataParser::(\w+)\s*,\s*nullptr\s*\)\s*;", init)
    handlers = {k: [] for k in KINDS}
    for kind, tag, h in rows:
        if kind not in handlers:
            broken(f"init_g3: unknown record kind {kind}")
        handlers[kind].append(h)
    # any data handler registered elsewhere for a record state?  (all optional_* registrations must be `_opt` rows)
    if len(re.findall(r"&DataParser::optional_\w+", init)) != len(rows):
        broken("init_g3: an optional_* handler is registered outside the s_g3_obs_<kind>_opt rows")
    # what each optional_* handler writes
    writes = {}
    for h in sorted({h for hs in handlers.values() for h in hs}):
        b = body_of(src, r"int\s+DataParser::" + h + r"\(const\s+char\s*\*\s*\w+,\s*int\s+\w+\)\s*\{", f"DataParser::{h}")
        fs = re.findall(r"g3->(\w+)", b)
        fs = [f for f in fs if f in FIELD]
        if h in ("optional_stdev", "optional_variance"):
            if fs:
                broken(f"{h} touches a pending dh field")
            writes[h] = None
            continue
        if len(fs) != 1 or not re.search(r"istr\s*>>\s*g3->" + fs[0] + r"\b", b):
            broken(f"{h}: expected exactly one `istr >> g3-><field>`")
        writes[h] = fs[0]
        accounted += 1
    settable = {k: [writes[h] for h in handlers[k] if writes[h]] for k in KINDS}
    # end-tag handlers
    consumes = {}
    for k in KINDS:
        b = body_of(src, r"int\s+DataParser::g3_obs_" + k + r"\(const\s+char\s*\*\s*name\)\s*\{", f"DataParser::g3_obs_{k}")
        cs = []
        for m in re.finditer(r"(\w+)->(\w+)\s*=\s*(optional\(\s*g3->(\w+)\s*\)|g3->(\w+))\s*;", b):
            member, f = m.group(2), m.group(4) or m.group(5)
            if f not in FIELD:
                continue
            if member not in FIELD:
                broken(f"g3_obs_{k}: pending field {f} assigned to member {member}")
            cs.append((member, f, m.group(4) is not None))
        n_all = len([f for f in re.findall(r"g3->(\w+)", b) if f in FIELD])
        if n_all != len(cs):
            broken(f"g3_obs_{k}: a pending dh field is used in a form other than `obs->m = [optional(]g3->f[)];`")
        consumes[k] = cs
        accounted += len(cs)
    total = len([f for f in re.findall(r"g3->(\w+)", src) if f in FIELD])
    if total != accounted:
        broken(f"dataparser_g3.cpp: {total} uses of pending dh fields, {accounted} understood")
    return init_cleared, settable, consumes


def translate_text(repo):
    init_cleared, settable, consumes = analyse(repo)
    kn = lambda k: "." + k
    out = ["""/-
  GENERATED by tools/gen/c19_g3parser.py — do not edit.
  Source: lib/gnu_gama/xml/dataparser_g3.cpp (`init_g3`, `optional_*`, `g3_obs_*`), dataparser.h (`optional`)
-/
import Gama.Model.G3Parser
namespace Gama.Gen.G3ParserSites
open Gama.G3Parser

/-- `optional(g3->f);` in `init_g3` -/
def initCleared : List Field := [""" + ", ".join(FIELD[f] for f in init_cleared) + """]

/-- `init(s_g3_obs_<kind>_opt, t_<f>, …, &DataParser::optional_<f>, …)` : the pending fields the optional
    children of a record can set -/
def settable : Kind → List Field
""" + "".join(f"  | {kn(k)} => [" + ", ".join(FIELD[f] for f in settable[k]) + "]\n" for k in KINDS) + """
/-- `DataParser::g3_obs_<kind>` : (observation member, pending field, through `optional(…)`) in program order -/
def consumes : Kind → List (Field × Field × Bool)
""" + "".join(f"  | {kn(k)} => [" + ", ".join(f"({FIELD[m]}, {FIELD[f]}, {'true' if o else 'false'})" for m, f, o in consumes[k]) + "]\n"
              for k in KINDS) + """
def sites : Sites := ⟨initCleared, settable, consumes⟩

end Gama.Gen.G3ParserSites
"""]
    return "".join(out)


def translate(repo, lean_dir):
    text = translate_text(repo)
    dst = Path(lean_dir) / "Gama" / "Gen" / "G3ParserSites.lean"
    dst.parent.mkdir(parents=True, exist_ok=True)
    if not dst.exists() or dst.read_text() != text:
        dst.write_text(text)
    return dst


if __name__ == "__main__":
    import sys
    print(translate_text(sys.argv[1] if len(sys.argv) > 1 else "/repo"))
