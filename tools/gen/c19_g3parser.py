"""
C19 translator:  /repo/lib/gnu_gama/xml/dataparser_g3.cpp (+ `optional` of dataparser.h)
                 ->  lean/Gama/Gen/G3ParserSites.lean

Reads the pending-attribute discipline of the g3 data parser:
  * `struct DataParser_g3`                 : the pending `double` members
  * `DataParser::init_g3`                  : `optional(g3->f);` statements (fields cleared once) and the
                                             `init(s_g3_obs_<kind>_opt, t_…, …, &DataParser::optional_<h>, …)`
                                             rows: which optional child handlers a record kind accepts
  * `DataParser::optional_<h>`             : the pending field each of them writes (`istr >> g3->f`)
  * `DataParser::g3_obs_<kind>` (end tags) : `obs->m = optional(g3->f);` / `obs->m = g3->f;` in program order
  * `DataParser::optional(double&)`        : must be read-and-clear
  * cluster level (round 4): `init(s_g3_obs, t_<tag>, …, &DataParser::g3_obs_<h>)` (which end-tag handler a record tag
    runs), the observation class that handler `new`s and pushes on `observation_list`, `int dimension() const
    { return n; }` of every class (g3/g3_observation.h), and the number of `g3->scale.push_back(…)` on every
    accepting path (`return end_tag(name)`) of the handler — path-sensitive: `if / else` are followed, any other
    control statement is TieBroken; `DataParser::g3_obs(const char*)` must start its checks with
    `if (obs_dim != int(g3->scale.size())) return error(…)`
Every occurrence of `g3-><pending field>` must be one of the forms above, otherwise TieBroken.
Pure python3 standard library.
"""
import re
from pathlib import Path

try:
    from lib.core import TieBroken
except Exception:
    class TieBroken(Exception):
        def __init__(self, name, detail=""):
            super().__init__(name + ": " + detail)
            self.name, self.detail = name, detail

NAME = "c19_g3parser"
KINDS = ["dist", "zenith", "azimuth", "vector", "xyz", "hdiff", "height", "angle"]
FIELD = {"from_dh": ".fromDh", "to_dh": ".toDh", "left_dh": ".leftDh", "right_dh": ".rightDh"}


def broken(msg):
    raise TieBroken(NAME, msg)


def strip_comments(src):
    src = re.sub(r"/\*.*?\*/", "", src, flags=re.S)
    return re.sub(r"//[^\n]*", "", src)


def body_of(src, header_re, what):
    m = re.search(header_re, src)
    if not m:
        broken(f"{what} not found")
    i = src.index("{", m.end() - 1)
    depth, j = 0, i
    while True:
        depth += (src[j] == "{") - (src[j] == "}")
        j += 1
        if depth == 0:
            return src[i:j]


CLASS_KIND = {"Distance": "dist", "ZenithAngle": "zenith", "Azimuth": "azimuth", "Vector": "vector", "XYZ": "xyz",
              "HeightDiff": "hdiff", "Height": "height", "Angle": "angle"}
PUSH = "g3->scale.push_back("


def _skip_ws(t, i):
    while i < len(t) and t[i].isspace():
        i += 1
    return i


def _match(t, i, op, cl):
    """index just after the bracket matching t[i] == op"""
    depth = 0
    while True:
        depth += (t[i] == op) - (t[i] == cl)
        i += 1
        if depth == 0:
            return i


def _stmt(t, i, what):
    """one statement starting at t[i] -> (paths, next index); a path is (pushes, end) with end in None/'accept'/'error'"""
    i = _skip_ws(t, i)
    if t[i] == "{":
        j = _match(t, i, "{", "}")
        return _block(t[i + 1:j - 1], what), j
    m = re.match(r"if\s*\(", t[i:])
    if m:
        j = _match(t, i + m.end() - 1, "(", ")")
        if PUSH in t[i:j]:
            broken(f"{what}: scale.push_back inside a condition")
        then, j = _stmt(t, j, what)
        k = _skip_ws(t, j)
        if re.match(r"else\b", t[k:]):
            els, j = _stmt(t, k + 4, what)
        else:
            els = [(0, None)]
        return then + els, j
    m = re.match(r"(for|while|do|switch|try|goto|catch)\b", t[i:])
    if m:
        broken(f"{what}: control statement `{m.group(1)}` is not understood by the path analysis")
    j, depth = i, 0
    while not (t[j] == ";" and depth == 0):
        depth += (t[j] in "({") - (t[j] in ")}")
        j += 1
    text = t[i:j]
    if re.match(r"return\b", text):
        if PUSH in text:
            broken(f"{what}: scale.push_back inside a return")
        if re.fullmatch(r"return\s+end_tag\(\s*name\s*\)", text.strip()):
            return [(0, "accept")], j + 1
        if re.match(r"return\s+error\(", text):
            return [(0, "error")], j + 1
        broken(f"{what}: return statement `{text.strip()}` is neither end_tag(name) nor error(…)")
    return [(text.count(PUSH), None)], j + 1


def _block(t, what):
    paths, i = [(0, None)], 0
    while _skip_ws(t, i) < len(t):
        sp, i = _stmt(t, i, what)
        new = []
        for c, e in paths:
            if e is not None:
                new.append((c, e))
            else:
                new += [(c + c2, e2) for c2, e2 in sp]
        paths = new
    return paths


def accepting_pushes(body, what):
    paths = _block(body.strip()[1:-1], what)
    if any(e is None for _, e in paths):
        broken(f"{what}: a path leaves the handler without return")
    acc = sorted({c for c, e in paths if e == "accept"})
    if not acc:
        broken(f"{what}: no accepting path")
    return acc


def analyse_cluster(repo, src):
    G = Path(repo) / "lib" / "gnu_gama" / "g3"
    try:
        obs_h = strip_comments((G / "g3_observation.h").read_text())
    except OSError as e:
        broken(f"cannot read g3_observation.h: {e}")
    dimension = {}
    for cls, kind in CLASS_KIND.items():
        b = body_of(obs_h, r"class\s+" + cls + r"\s*:[^{;]*\{", f"class {cls}")
        m = re.findall(r"int\s+dimension\(\)\s*const\s*\{\s*return\s+(\d+)\s*;\s*\}", b)
        if len(m) != 1:
            broken(f"class {cls}: expected one `int dimension() const {{ return n; }}`")
        dimension[kind] = int(m[0])
    init = body_of(src, r"void\s+DataParser::init_g3\(\)\s*\{", "DataParser::init_g3")
    reg = dict(re.findall(r"init\(\s*s_g3_obs\s*,\s*t_(\w+)\s*,[^;]*?&DataParser::g3_obs_(\w+)\s*\)\s*;", init))
    reg.pop("covmat", None)
    if sorted(reg) != sorted(KINDS):
        broken(f"init_g3: record tags of <obs> are {sorted(reg)}")
    # every g3_obs_<kind> handler must be registered exactly once, for a record tag of <obs>
    if len(re.findall(r"&DataParser::g3_obs_(?!cov\b)\w+", init)) != len(KINDS):
        broken("init_g3: a g3_obs_<kind> handler is registered more than once or outside <obs>")
    builds, pushes = {}, {}
    for tag, h in reg.items():
        if h not in KINDS:
            broken(f"init_g3: tag {tag} runs the unknown handler g3_obs_{h}")
        b = body_of(src, r"int\s+DataParser::g3_obs_" + h + r"\(const\s+char\s*\*\s*name\)\s*\{", f"DataParser::g3_obs_{h}")
        news = re.findall(r"(\w+)\s*\*\s*(\w+)\s*=\s*new\s+(\w+)\s*;", b)
        if len(news) != 1 or news[0][0] != news[0][2] or news[0][0] not in CLASS_KIND or len(re.findall(r"\bnew\b", b)) != 1:
            broken(f"g3_obs_{h}: expected exactly one `T* v = new T;` of an observation class")
        if len(re.findall(r"observation_list\.push_back\(\s*" + news[0][1] + r"\s*\)", b)) != 1 or b.count("observation_list") != 1:
            broken(f"g3_obs_{h}: the new observation is not pushed exactly once on observation_list")
        builds[tag] = CLASS_KIND[news[0][0]]
        pushes[tag] = accepting_pushes(b, f"g3_obs_{h}")
    # the cluster check
    g = body_of(src, r"int\s+DataParser::g3_obs\(const\s+char\s*\*\s*name\)\s*\{", "DataParser::g3_obs(const char*)")
    if not re.search(r"obs_dim\s*\+=\s*\(\*i\)->dimension\(\)\s*;", g):
        broken("g3_obs: obs_dim is no longer the sum of dimension() over observation_list")
    first_if = re.search(r"\bif\s*\(", g[g.index("obs_dim +="):])
    chk = re.search(r"if\s*\(\s*obs_dim\s*!=\s*int\(\s*g3->scale\.size\(\)\s*\)\s*\)\s*return\s+error\(", g[g.index("obs_dim +="):])
    if not chk or chk.start() != first_if.start():
        broken("g3_obs: the first check after summing obs_dim is no longer `if (obs_dim != int(g3->scale.size())) return error(…)`")
    g0 = body_of(src, r"int\s+DataParser::g3_obs\(const\s+char\s*\*\s*name\s*,\s*const\s+char\s*\*\*\s*atts\)\s*\{", "DataParser::g3_obs(start)")
    if "g3->scale.clear()" not in g0:
        broken("g3_obs(start tag): g3->scale.clear() is gone")
    n_push = src.count(PUSH)
    n_seen = sum(body_of(src, r"int\s+DataParser::g3_obs_" + h + r"\(const\s+char\s*\*\s*name\)\s*\{", h).count(PUSH) for h in set(reg.values()))
    if n_push != n_seen:
        broken(f"dataparser_g3.cpp: {n_push} scale.push_back, {n_seen} of them in the record handlers")
    return builds, dimension, pushes


def analyse(repo):
    X = Path(repo) / "lib" / "gnu_gama" / "xml"
    try:
        src = strip_comments((X / "dataparser_g3.cpp").read_text())
        hdr = strip_comments((X / "dataparser.h").read_text())
    except OSError as e:
        broken(f"cannot read sources: {e}")
    # optional(double&): read and clear
    if not re.search(r"double\s+optional\(double&\s*attr\)\s*\{\s*double\s+tmp\s*=\s*attr;\s*attr\s*=\s*0;\s*return\s+tmp;\s*\}", hdr):
        broken("dataparser.h: DataParser::optional(double&) is no longer `tmp = attr; attr = 0; return tmp;`")
    st = body_of(src, r"struct\s+DataParser_g3\s*\{", "struct DataParser_g3")
    pending = re.findall(r"\bdouble\s+(\w+)\s*;", st)
    if sorted(pending) != sorted(FIELD):
        broken(f"struct DataParser_g3: pending doubles {pending}")
    init = body_of(src, r"void\s+DataParser::init_g3\(\)\s*\{", "DataParser::init_g3")
    init_cleared = re.findall(r"(?<![=\w])optional\(g3->(\w+)\);", init)
    accounted = len(init_cleared)
    # optional child handlers per record kind
    rows = re.findall(r"init\(\s*s_g3_obs_(\w+?)_opt\s*,\s*t_(\w+)\s*,[^;]*?&DataParser::(\w+)\s*,\s*nullptr\s*\)\s*;", init)
    handlers = {k: [] for k in KINDS}
    for kind, tag, h in rows:
        if kind not in handlers:
            broken(f"init_g3: unknown record kind {kind}")
        handlers[kind].append(h)
    # any data handler registered elsewhere for a record state?  (all optional_* registrations must be `_opt` rows)
    if len(re.findall(r"&DataParser::optional_\w+", init)) != len(rows):
        broken("init_g3: an optional_* handler is registered outside the s_g3_obs_<kind>_opt rows")
    # what each optional_* handler writes
    writes = {}
    for h in sorted({h for hs in handlers.values() for h in hs}):
        b = body_of(src, r"int\s+DataParser::" + h + r"\(const\s+char\s*\*\s*\w+,\s*int\s+\w+\)\s*\{", f"DataParser::{h}")
        fs = re.findall(r"g3->(\w+)", b)
        fs = [f for f in fs if f in FIELD]
        if h in ("optional_stdev", "optional_variance"):
            if fs:
                broken(f"{h} touches a pending dh field")
            writes[h] = None
            continue
        if len(fs) != 1 or not re.search(r"istr\s*>>\s*g3->" + fs[0] + r"\b", b):
            broken(f"{h}: expected exactly one `istr >> g3-><field>`")
        writes[h] = fs[0]
        accounted += 1
    settable = {k: [writes[h] for h in handlers[k] if writes[h]] for k in KINDS}
    # end-tag handlers
    consumes = {}
    for k in KINDS:
        b = body_of(src, r"int\s+DataParser::g3_obs_" + k + r"\(const\s+char\s*\*\s*name\)\s*\{", f"DataParser::g3_obs_{k}")
        cs = []
        for m in re.finditer(r"(\w+)->(\w+)\s*=\s*(optional\(\s*g3->(\w+)\s*\)|g3->(\w+))\s*;", b):
            member, f = m.group(2), m.group(4) or m.group(5)
            if f not in FIELD:
                continue
            if member not in FIELD:
                broken(f"g3_obs_{k}: pending field {f} assigned to member {member}")
            cs.append((member, f, m.group(4) is not None))
        n_all = len([f for f in re.findall(r"g3->(\w+)", b) if f in FIELD])
        if n_all != len(cs):
            broken(f"g3_obs_{k}: a pending dh field is used in a form other than `obs->m = [optional(]g3->f[)];`")
        consumes[k] = cs
        accounted += len(cs)
    total = len([f for f in re.findall(r"g3->(\w+)", src) if f in FIELD])
    if total != accounted:
        broken(f"dataparser_g3.cpp: {total} uses of pending dh fields, {accounted} understood")
    return init_cleared, settable, consumes, analyse_cluster(repo, src)


def translate_text(repo):
    init_cleared, settable, consumes, (builds, dimension, pushes) = analyse(repo)
    kn = lambda k: "." + k
    out = ["""/-
  GENERATED by tools/gen/c19_g3parser.py — do not edit.
  Source: lib/gnu_gama/xml/dataparser_g3.cpp (`init_g3`, `optional_*`, `g3_obs_*`, `g3_obs`), dataparser.h (`optional`),
          lib/gnu_gama/g3/g3_observation.h (`dimension()`)
-/
import Gama.Model.G3Parser
namespace Gama.Gen.G3ParserSites
open Gama.G3Parser

/-- `optional(g3->f);` in `init_g3` -/
def initCleared : List Field := [""" + ", ".join(FIELD[f] for f in init_cleared) + """]

/-- `init(s_g3_obs_<kind>_opt, t_<f>, …, &DataParser::optional_<f>, …)` : the pending fields the optional
    children of a record can set -/
def settable : Kind → List Field
""" + "".join(f"  | {kn(k)} => [" + ", ".join(FIELD[f] for f in settable[k]) + "]\n" for k in KINDS) + """
/-- `DataParser::g3_obs_<kind>` : (observation member, pending field, through `optional(…)`) in program order -/
def consumes : Kind → List (Field × Field × Bool)
""" + "".join(f"  | {kn(k)} => [" + ", ".join(f"({FIELD[m]}, {FIELD[f]}, {'true' if o else 'false'})" for m, f, o in consumes[k]) + "]\n"
              for k in KINDS) + """
def sites : Sites := ⟨initCleared, settable, consumes⟩

/-- `init(s_g3_obs, t_<tag>, …, &DataParser::g3_obs_<h>)` + `T* v = new T;` in `g3_obs_<h>` : the observation class
    a record tag builds -/
def builds : Kind → Kind
""" + "".join(f"  | {kn(k)} => {kn(builds[k])}\n" for k in KINDS) + """
/-- `int dimension() const { return n; }` of the observation classes (g3/g3_observation.h) -/
def dimension : Kind → Nat
""" + "".join(f"  | {kn(k)} => {dimension[k]}\n" for k in KINDS) + """
/-- numbers of `g3->scale.push_back(…)` on the accepting paths of the end-tag handler of a record tag -/
def scalePushes : Kind → List Nat
""" + "".join(f"  | {kn(k)} => [" + ", ".join(str(c) for c in pushes[k]) + "]\n" for k in KINDS) + """
def obsSites : ObsSites := ⟨builds, dimension, scalePushes⟩

end Gama.Gen.G3ParserSites
"""]
    return "".join(out)


def translate(repo, lean_dir):
    text = translate_text(repo)
    dst = Path(lean_dir) / "Gama" / "Gen" / "G3ParserSites.lean"
    dst.parent.mkdir(parents=True, exist_ok=True)
    if not dst.exists() or dst.read_text() != text:
        dst.write_text(text)
    return dst


if __name__ == "__main__":
    import sys
    print(translate_text(sys.argv[1] if len(sys.argv) > 1 else "/repo"))
