#!/usr/bin/env python3
"""
Translator for C10:  lib/gnu_gama/local/network.cpp  ->  lean/Gama/Gen/YSign.lean

Two sites handle the sign of the covariances of a cluster when the coordinate axes and the angle
orientation are inconsistent (y mirrored internally):

  (in)   LocalNetwork::change_y_signs_for_inconsistent_system_()    `if (<cond>) C(r,s) = -C(r,s);`
  (out)  LocalNetwork::updated_xml_covmat(...)                      `(<cond>) ? -C(i,j) : C(i,j)`

The boolean expression <cond> over the two flags `mirrored[r]`, `mirrored[s]` is PARSED (mini-language:
the two atoms, true/false, ! && || == != ^ & |, parentheses, C precedences) and emitted as a Lean function
`Bool -> Bool -> Bool`.  Everything around it (which classes are mirrored, value negation, the vector
`mirrored(1,false)` + push_back, the loop bounds N = min(dim, #obs), B = bandWidth, r = 1..N,
s = r+1..min(N, r+B), the assigned entry C(r,s) = -C(r,s), the y of the points) is checked to have exactly
the shape modelled in lean/Gama/Model/YSign.lean; any deviation raises YSignError (-> TieBroken).
"""
import re
from pathlib import Path


class YSignError(Exception):
    pass


def strip_comments(src):
    src = re.sub(r"/\*.*?\*/", " ", src, flags=re.S)
    return re.sub(r"//[^\n]*", "", src)


def body_of(src, header_re, what):
    m = re.search(header_re, src)
    if not m:
        raise YSignError(f"{what} not found")
    i = src.index("{", m.end() - 1) + 1
    start, depth = i, 1
    while depth and i < len(src):
        depth += {"{": 1, "}": -1}.get(src[i], 0)
        i += 1
    return src[start:i - 1]


def norm(s):
    return re.sub(r"\s+", "", s)


# ------------------------------------------------------------------------------- boolean mini-language

TOK = re.compile(r"\s*(mirrored\[\w+\]|true|false|&&|\|\||==|!=|[!^&|()])")


def tokenize(text, what):
    out, i = [], 0
    text = text.strip()
    while i < len(text):
        m = TOK.match(text, i)
        if not m:
            raise YSignError(f"{what}: cannot read `{text[i:i + 30]}` in condition `{text}`")
        out.append(m.group(1))
        i = m.end()
    return out


class P:
    """recursive descent with the C precedences:  ||  <  &&  <  |  <  ^  <  &  <  == !=  <  !"""

    def __init__(self, toks, atoms, what):
        self.t, self.i, self.atoms, self.what = toks, 0, atoms, what

    def peek(self):
        return self.t[self.i] if self.i < len(self.t) else None

    def eat(self, x=None):
        tok = self.peek()
        if tok is None or (x is not None and tok != x):
            raise YSignError(f"{self.what}: expected {x or 'a token'} at position {self.i} of {self.t}")
        self.i += 1
        return tok

    def binary(self, ops, sub):
        e = sub()
        while self.peek() in ops:
            op = self.eat()
            e = (op, e, sub())
        return e

    def expr(self):
        return self.binary(("||",), self.land)

    def land(self):
        return self.binary(("&&",), self.bor)

    def bor(self):
        return self.binary(("|",), self.bxor)

    def bxor(self):
        return self.binary(("^",), self.band)

    def band(self):
        return self.binary(("&",), self.eq)

    def eq(self):
        return self.binary(("==", "!="), self.unary)

    def unary(self):
        tok = self.peek()
        if tok == "!":
            self.eat()
            return ("!", self.unary())
        if tok == "(":
            self.eat()
            e = self.expr()
            self.eat(")")
            return e
        if tok in ("true", "false"):
            self.eat()
            return ("lit", tok)
        if tok in self.atoms:
            self.eat()
            return ("atom", self.atoms[tok])
        raise YSignError(f"{self.what}: unexpected `{tok}` in {self.t} (atoms {sorted(self.atoms)})")


def parse_cond(text, a, b, what):
    """condition over mirrored[a], mirrored[b] -> AST"""
    p = P(tokenize(text, what), {f"mirrored[{a}]": "a", f"mirrored[{b}]": "b"}, what)
    e = p.expr()
    if p.peek() is not None:
        raise YSignError(f"{what}: trailing `{p.peek()}` in condition `{text}`")
    return e


def lean(e):
    k = e[0]
    if k == "atom":
        return e[1]
    if k == "lit":
        return e[1]
    if k == "!":
        return f"(!{lean(e[1])})"
    op = {"||": "||", "&&": "&&", "|": "||", "&": "&&", "==": "==", "!=": "!=", "^": "^^"}[k]
    return f"({lean(e[1])} {op} {lean(e[2])})"


def evaluate(e, a, b):
    k = e[0]
    if k == "atom":
        return a if e[1] == "a" else b
    if k == "lit":
        return e[1] == "true"
    if k == "!":
        return not evaluate(e[1], a, b)
    x, y = evaluate(e[1], a, b), evaluate(e[2], a, b)
    return {"||": x or y, "|": x or y, "&&": x and y, "&": x and y, "==": x == y, "!=": x != y, "^": x != y}[k]


# ------------------------------------------------------------------------------- the two sites

def read_in_site(src):
    b = body_of(src, r"void\s+LocalNetwork::change_y_signs_for_inconsistent_system_\s*\(\s*\)\s*\{",
                "change_y_signs_for_inconsistent_system_")
    n = norm(b)
    if "if(p.test_xy())p.set_xy(p.x(),-p.y());" not in n:
        raise YSignError("change_y_signs: `if (p.test_xy()) p.set_xy(p.x(), -p.y());` not found")
    if "std::vector<bool>mirrored(1,false);" not in n:
        raise YSignError("change_y_signs: `std::vector<bool> mirrored(1, false);` not found")
    m = re.search(r"boolb=false;((?:(?:else)?if\(dynamic_cast<\w+\*>\(obs\)\)b=true;)+)"
                  r"if\(b\)obs->set_value\(-obs->value\(\)\);mirrored\.push_back\(b\);", n)
    if not m:
        raise YSignError("change_y_signs: classification / value negation / push_back not of the modelled shape")
    classes = re.findall(r"dynamic_cast<(\w+)\*>", m.group(1))
    if "CovMat&C=cluster->covariance_matrix;" not in n:
        raise YSignError("change_y_signs: `CovMat& C = cluster->covariance_matrix;` not found")
    if "constintN=std::min<int>(C.dim(),mirrored.size()-1);" not in n:
        raise YSignError("change_y_signs: N is not `std::min<int>(C.dim(), mirrored.size()-1)`")
    if "constintB=C.bandWidth();" not in n:
        raise YSignError("change_y_signs: B is not `C.bandWidth()`")
    loop = re.search(r"for\s*\(\s*int\s+r\s*=\s*1\s*;\s*r\s*<=\s*N\s*;\s*r\+\+\s*\)\s*"
                     r"for\s*\(\s*int\s+s\s*=\s*r\s*\+\s*1\s*;\s*s\s*<=\s*std::min\s*\(\s*N\s*,\s*r\s*\+\s*B\s*\)\s*;\s*s\+\+\s*\)\s*"
                     r"if\s*\((?P<cond>.*?)\)\s*C\s*\(\s*r\s*,\s*s\s*\)\s*=\s*-\s*C\s*\(\s*r\s*,\s*s\s*\)\s*;", b, re.S)
    if not loop:
        raise YSignError("change_y_signs: the loop nest `r=1..N, s=r+1..min(N,r+B): if (<cond>) C(r,s) = -C(r,s);` "
                         "is not of the modelled shape")
    if len(re.findall(r"C\s*\(", b)) != 2:
        raise YSignError("change_y_signs: the covariance matrix is accessed elsewhere than in `C(r,s) = -C(r,s)`")
    return {"classes": classes, "cond_text": " ".join(loop.group("cond").split()),
            "cond": parse_cond(loop.group("cond"), "r", "s", "change_y_signs")}


def read_out_site(src):
    b = body_of(src, r"void\s+LocalNetwork::updated_xml_covmat\s*\([^)]*\)\s*\{", "updated_xml_covmat")
    n = norm(b)
    if "std::vector<bool>mirrored(dim+1,false);" not in n:
        raise YSignError("updated_xml_covmat: `std::vector<bool> mirrored(dim+1, false);` not found")
    m = re.search(r"if\(list&&y_sign\(\)<0\)\{intn=0;for\(Observation\*obs:\*list\)if\(\+\+n<=dim\)"
                  r"mirrored\[n\]=((?:dynamic_cast<\w+\*>\(obs\)(?:\|\|)?)+);\}", n)
    if not m:
        raise YSignError("updated_xml_covmat: the `mirrored` flags are not set as modelled "
                         "(`if (list && y_sign() < 0)`, first `dim` observations, Y || Ydiff)")
    classes = re.findall(r"dynamic_cast<(\w+)\*>", m.group(1))
    if not re.search(r"for\(inti=1;i<=dim;i\+\+\)", n) or not re.search(r"for\(intn=1,j=i;j<=i\+band&&j<=dim;j\+\+,n\+\+\)", n):
        raise YSignError("updated_xml_covmat: loops `i = 1..dim`, `j = i..min(i+band, dim)` not of the modelled shape")
    t = re.search(r"const\s+double\s+c\s*=\s*\(\s*\((?P<cond>.*?)\)\s*\?\s*-\s*C\s*\(\s*i\s*,\s*j\s*\)\s*:\s*C\s*\(\s*i\s*,\s*j\s*\)\s*\)", b, re.S)
    if not t:
        raise YSignError("updated_xml_covmat: `((<cond>) ? -C(i,j) : C(i,j))` not found")
    return {"classes": classes, "cond_text": " ".join(t.group("cond").split()),
            "cond": parse_cond(t.group("cond"), "i", "j", "updated_xml_covmat")}


def read(repo):
    src = strip_comments((Path(repo) / "lib/gnu_gama/local/network.cpp").read_text())
    return read_in_site(src), read_out_site(src)


def gen(repo):
    i, o = read(repo)
    q = lambda xs: "[" + ", ".join(f'"{x}"' for x in xs) + "]"
    return "\n".join([
        "/-",
        "  REGENERATED by tools/gen/c10_ysign.py from lib/gnu_gama/local/network.cpp on every run of",
        "  `tools/check.py C10` — do not edit.  Core Lean only.",
        "",
        "  The boolean expressions that decide which covariances change their sign when y is mirrored:",
        f"    change_y_signs_for_inconsistent_system_ :  if ({i['cond_text']}) C(r,s) = -C(r,s);",
        f"    updated_xml_covmat                      :  (({o['cond_text']}) ? -C(i,j) : C(i,j))",
        "  with a = mirrored[r] (resp. mirrored[i]), b = mirrored[s] (resp. mirrored[j]).",
        "-/",
        "import Gama.Model.YSign",
        "namespace Gama.Gen.YSign",
        "open Gama.Cov Gama.Cov.YSign",
        "",
        "/-- `LocalNetwork::change_y_signs_for_inconsistent_system_`: is `C(r,s)` negated? -/",
        f"def flipCond (a b : Bool) : Bool := {lean(i['cond'])}",
        "",
        "/-- `LocalNetwork::updated_xml_covmat`: is the exported `C(i,j)` negated? -/",
        f"def exportFlipCond (a b : Bool) : Bool := {lean(o['cond'])}",
        "",
        "/-- observation classes whose value is negated and whose component counts as mirrored (way in) -/",
        f"def mirroredClasses : List String := {q(i['classes'])}",
        "",
        "/-- observation classes that count as mirrored in `updated_xml_covmat` (way out) -/",
        f"def exportMirroredClasses : List String := {q(o['classes'])}",
        "",
        "/-- the cluster step of `change_y_signs_for_inconsistent_system_` with the condition of the source -/",
        "def changeCluster {K : Type} [Zero K] [Neg K] (c : YCluster K) : YCluster K := Gama.Cov.YSign.changeCluster flipCond c",
        "",
        "/-- the covariance loop nest with the condition of the source -/",
        "def flipCov {K : Type} [Zero K] [Neg K] (ms : List Bool) (C : CovMat K) : CovMat K := Gama.Cov.YSign.flipCov flipCond ms C",
        "",
        "/-- the entries `updated_xml_covmat` writes, with the condition of the source -/",
        "def exportEntries {K : Type} [Zero K] [Neg K] (ysignNeg : Bool) (ms : List Bool) (C : CovMat K) : List K :=",
        "  Gama.Cov.YSign.exportEntries exportFlipCond ysignNeg ms C",
        "",
        "end Gama.Gen.YSign",
        ""])


def truth_tables(repo):
    i, o = read(repo)
    tt = lambda e: [evaluate(e, a, b) for a in (False, True) for b in (False, True)]
    return tt(i["cond"]), tt(o["cond"])


if __name__ == "__main__":
    import sys
    print(gen(sys.argv[1] if len(sys.argv) > 1 else "/repo"))
