#!/usr/bin/env python3
"""
C11 translator: lib/gnu_gama/xml/localnetwork_adjustment_results.{h,cpp} (class
LocalNetworkAdjustmentResults::Parser)  ->  lean/Gama/Gen/AdjResAutomaton.lean

Regenerated on every run from the CURRENT working tree:

  * enum parser_state / xml_tag                     -> `State`, `Tag`
  * Parser::init(): the default fill of tagfun[][] (loop bounds checked against the array
    dimensions) and every `tagfun[s][t] = &Parser::h` assignment   -> `tagfun : State -> Tag -> Handler`
  * Parser::tag(): string table (only reachable strcmp's), the `point_con_*` side effects of X/Y/Z,
    the unknown-tag path `return error("unknown tag")` (error() returns 1, i.e. the tag with index 1)
  * inline `set_state` (guarded by `if (state)` or not)           -> `setStateGuarded`
  * every handler `void Parser::h(bool start)`: the statements of its start branch and of its end
    branch in SOURCE ORDER as a list of `Op`s (stack push, set_state, raw `state = ...`, attribute loop,
    get_int / get_float / get_string with the checks they make, check_and_clear_data, the state / flag /
    iterator guards with the error they raise, the covariance storage reset, the iterator assignments, the
    `*tmp_i++ = get_float()` store with or without its `tmp_i != tmp_e` guard)  -> `startOps`, `endOps`
  * every error("...") literal                                      -> `Err`, `Err.msg`
  * startElement / endElement / characterDataHandler / unknown / check_and_clear_data / get_int /
    get_float / get_string and CoreParser::error: compared with the text the run model
    (Model/AdjResRun.lean) was written for; any difference is a broken tie.

`error()` does not leave the handler: the ops after an `.error`-raising op are executed (the model does
that literally); only an explicit `return` ends a handler early (attribute loops, needCategory).
Anything the mini-parser does not recognise raises TieBroken (never guessed).  Python 3 stdlib only.
"""
import importlib.util
import re
import sys
from pathlib import Path

_here = Path(__file__).resolve().parent
_spec = importlib.util.spec_from_file_location("c11_gkf_automaton_for_adjres", str(_here / "c11_gkf_automaton.py"))
_g = importlib.util.module_from_spec(_spec)
_spec.loader.exec_module(_g)

try:
    from lib.core import TieBroken
except Exception:  # stand-alone use
    class TieBroken(Exception):
        def __init__(self, name, detail=""):
            super().__init__(name + ": " + detail)
            self.name, self.detail = name, detail

NAME = "c11_adjres"
CLS = "LocalNetworkAdjustmentResults::Parser::"


def fail(msg):
    raise TieBroken(NAME, msg)


def strip_comments(s):
    try:
        return _g.strip_comments(s)
    except Exception as e:        # the helper raises its own TieBroken class
        fail(str(e))


def match_brace(s, i):
    try:
        return _g.match_brace(s, i)
    except Exception as e:
        fail(str(e))


def norm(s):
    """remove all white space outside string literals"""
    out, i, n = [], 0, len(s)
    while i < n:
        c = s[i]
        if c == '"':
            j = i + 1
            while j < n and s[j] != '"':
                j += 2 if s[j] == "\\" else 1
            out.append(s[i:j + 1])
            i = j + 1
        elif c.isspace():
            i += 1
        else:
            out.append(c)
            i += 1
    return "".join(out)


def member_body(src, name, ret=None):
    m = re.search(r"\b" + re.escape(CLS + name) + r"\s*\(([^)]*)\)\s*(?:noexcept\s*)?\{", src)
    if not m:
        fail(f"definition of Parser::{name} not found")
    i = src.find("{", m.end() - 1)
    j = match_brace(src, i)
    return src[i + 1:j], m.group(1)


def parse_enum(hdr, name):
    m = re.search(r"\benum\s+" + name + r"\s*\{([^}]*)\}", hdr)
    if not m:
        fail(f"enum {name} not found")
    items = [x.strip() for x in m.group(1).split(",") if x.strip()]
    for it in items:
        if not re.fullmatch(r"[A-Za-z_]\w*", it):
            fail(f"enum {name}: unexpected enumerator '{it}' (explicit values are not supported)")
    return items


# ------------------------------------------------------------------ statements

def split_statements(body):
    """top-level statements of a block: list of ('simple', text) | ('if', cond, then, else|None) |
    ('while', cond, body) | ('switch', sel, body) | ('block', body)"""
    out, i, n = [], 0, len(body)

    def skip_ws(i):
        while i < n and body[i].isspace():
            i += 1
        return i

    def paren(i):
        assert body[i] == "("
        d, j = 0, i
        while j < n:
            c = body[j]
            if c == '"':
                j += 1
                while j < n and body[j] != '"':
                    j += 2 if body[j] == "\\" else 1
            elif c == "(":
                d += 1
            elif c == ")":
                d -= 1
                if d == 0:
                    return j
            j += 1
        fail("unbalanced parentheses")

    def one(i):
        """parse one statement starting at i -> (stmt, next index)"""
        i = skip_ws(i)
        if i >= n:
            return None, i
        if body[i] == "{":
            j = match_brace(body, i)
            return ("block", body[i + 1:j]), j + 1
        m = re.match(r"(if|while|switch)\s*\(", body[i:])
        if m:
            kw = m.group(1)
            p = i + m.end() - 1
            q = paren(p)
            cond = body[p + 1:q]
            st, k = one(q + 1)
            if st is None:
                fail(f"{kw} without a statement")
            if kw == "if":
                k2 = skip_ws(k)
                if re.match(r"else\b", body[k2:]):
                    el, k3 = one(k2 + 4)
                    return ("if", cond, st, el), k3
                return ("if", cond, st, None), k
            if kw == "while":
                return ("while", cond, st), k
            return ("switch", cond, st), k
        if re.match(r"(for|do|goto|try|throw)\b", body[i:]):
            fail("unsupported statement: " + body[i:i + 40])
        j = i
        while j < n and body[j] != ";":
            if body[j] == '"':
                j += 1
                while j < n and body[j] != '"':
                    j += 2 if body[j] == "\\" else 1
            elif body[j] in "{}":
                fail("unexpected brace in a simple statement: " + body[i:j + 10])
            j += 1
        if j >= n:
            fail("statement without ';': " + body[i:i + 60])
        return ("simple", body[i:j].strip()), j + 1

    while True:
        st, i = one(i)
        if st is None:
            break
        out.append(st)
    return out


def as_list(st):
    """statement -> list of statements (a block is flattened, anything else is a singleton)"""
    if st[0] == "block":
        return split_statements(st[1])
    return [st]


# data-only statements: they touch neither state, stack, the covariance iterators, dim/band, the point flags,
# the stage nor error(); right-hand sides may only be plain values
DATA_ONLY = [
    r"adj->[\w.]+(?:->\w+)?=(?:val|data|tmp_id|true|false|Status::\w+|\(s==\"aposteriori\"\))",
    r"adj->xmlerror\.setDescription\(data\)",
    r"adj->(?:obslist|original_index)\.clear\(\)", r"adj->original_index\.push_back\(-1\)",
    r"adj->(?:obslist\.push_back\(tmp_obs\)|ellipses\.push_back\(tmp_ellipse\))",
    r"tmp_adj_index=0",
    r"tmp_(?:point|ellipse|obs)\.clear\(\)", r"tmp_obs\.xml_tag=tmp_tag",
    r"tmp_point\.(?:id=tmp_id|hxy=point_has_x&&point_has_y|hz=point_has_z|cxy=point_con_x&&point_con_y|cz=point_con_z)",
    r"tmp_orientation\.(?:id=tmp_id|index=\+\+tmp_adj_index)",
]
GETTERS = {"get_int()": "getInt", "get_float()": "getFloat", "get_string()": "getString"}


class H:
    """translation context: collects error literals"""
    def __init__(self, states, handlers):
        self.states, self.handlers, self.errs = states, handlers, []

    def err(self, arg):
        """argument text of error(...) -> literal prefix"""
        a = norm(arg)
        m = re.match(r'"((?:[^"\\]|\\.)*)"', a)
        if not m:
            fail("error() argument does not start with a string literal: " + arg)
        rest = a[m.end():]
        if rest and not re.fullmatch(r'(\+(?:name|val|"(?:[^"\\]|\\.)*"))+', rest):
            fail("error() argument not understood: " + arg)
        lit = m.group(1).replace('\\"', '"').replace("\\\\", "\\")
        if lit not in self.errs:
            self.errs.append(lit)
        return lit

    def state(self, s):
        if s not in self.states:
            fail(f"unknown state {s}")
        return s


def error_call(text):
    m = re.fullmatch(r"error\((.*)\)", text, re.S)
    return m.group(1) if m else None


def translate_simple(cx, text, where):
    t = norm(text)
    m = re.fullmatch(r"stack\.push\(&Parser::(\w+)\)", t)
    if m:
        if m.group(1) not in cx.handlers:
            fail(f"{where}: pushes unknown handler {m.group(1)}")
        return [("push", m.group(1))]
    m = re.fullmatch(r"set_state\((\w+)\)", t)
    if m:
        return [("setState", cx.state(m.group(1)))]
    m = re.fullmatch(r"state=(\w+)", t)
    if m:
        return [("assignState", cx.state(m.group(1)))]
    if t == "check_and_clear_data()":
        return [("checkData",)]
    if t == "adj->xmlerror.clear()":
        return [("clearCategory",)]
    m = re.fullmatch(r"coordinates_summary_stage=(\d+)", t)
    if m:
        return [("stageSet", int(m.group(1)))]
    if t == "point_has_x=point_has_y=point_has_z=false":
        return [("setFlag", "hasX", False), ("setFlag", "hasY", False), ("setFlag", "hasZ", False)]
    if t == "point_con_x=point_con_y=point_con_z=false":
        return [("setFlag", "conX", False), ("setFlag", "conY", False), ("setFlag", "conZ", False)]
    m = re.fullmatch(r"point_(has|con)_([xyz])=(true|false)", t)
    if m:
        return [("setFlag", m.group(1) + m.group(2).upper(), m.group(3) == "true")]
    # bookkeeping that `band(false)` reads since 3e87ff8: which list a <point> goes to, whether it gets adjustment indexes,
    # the points / orientations pushed
    m = re.fullmatch(r"pointlist=&adj->(\w+)", t)
    if m:
        return [("book", "listAdjusted", m.group(1) == "adjusted_points")]
    m = re.fullmatch(r"tmp_point_adjusted=(true|false)", t)
    if m:
        return [("book", "pointAdjusted", m.group(1) == "true")]
    if t == "pointlist->push_back(tmp_point)":
        return [("book", "pushPoint")]
    if t == "adj->orientations.push_back(tmp_orientation)":
        return [("book", "pushOrientation")]
    if t == "COUNT_UNKNOWNS":
        cx.count_unknowns = True
        return [("data",)]
    if t == "tmp_dim=get_int()":
        return [("getInt", "dim")]
    if t == "tmp_band=get_int()":
        return [("getInt", "band")]
    if t == "adj->cov.reset(tmp_dim,tmp_band)":
        return [("covReset",)]
    if t == "tmp_i=adj->cov.begin()":
        return [("iterBegin",)]
    if t == "tmp_e=adj->cov.end()":
        return [("iterEnd",)]
    if t == "*tmp_i++=get_float()":
        return [("store", False)]
    if t == "strings=get_string()":
        return [("getString", "s")]
    a = error_call(t)
    if a is not None:
        return [("error", cx.err(a))]
    # X = getter();   /   f(getter());
    m = re.fullmatch(r"(?:adj->[\w.]+|tmp_(?:point|ellipse|obs|orientation)\.\w+|tmp_id)=(get_int\(\)|get_float\(\)|get_string\(\))", t) or \
        re.fullmatch(r"adj->(?:original_index\.push_back|xmlerror\.setLineNumber)\((get_int\(\))\)", t)
    if m:
        return [(GETTERS[m.group(1)], "none")]
    for pat in DATA_ONLY:
        if re.fullmatch(pat, t):
            return [("data",)]
    if re.search(r"\b(state|stack|tmp_i|tmp_e|tmp_dim|tmp_band|error|return|set_state|point_has_\w|point_con_\w|coordinates_summary_stage|data)\b", t):
        fail(f"{where}: control-relevant statement not understood: {text}")
    fail(f"{where}: statement not understood: {text}")


COV_GUARD = norm("tmp_dim < 0 || tmp_band < 0 || tmp_band > std::max(tmp_dim-1, 0) || "
                 "(tmp_band + 1LL)*tmp_dim > std::numeric_limits<int>::max()")
COV_GUARD_UNKNOWNS = COV_GUARD + norm("|| tmp_dim > unknowns")
# `unknowns` = adj->orientations.size() + number of non-zero adjustment indexes of adj->adjusted_points (compared textually)
COUNT_UNKNOWNS_RX = re.compile(r"long\s+long\s+unknowns\s*=\s*adj->orientations\.size\(\)\s*;\s*"
                               r"for\s*\(\s*const\s+auto\s*&\s*p\s*:\s*adj->adjusted_points\s*\)\s*"
                               r"unknowns\s*\+=\s*\(p\.indx\s*!=\s*0\)\s*\+\s*\(p\.indy\s*!=\s*0\)\s*\+\s*\(p\.indz\s*!=\s*0\)\s*;")


def translate_attr_loop(cx, cond, body, where):
    if norm(cond) != "*attributes":
        fail(f"{where}: while condition not understood: {cond}")
    sts = as_list(body)
    if len(sts) != 3 or sts[0] != ("simple", "string atr = *attributes++") or sts[1] != ("simple", "string val = *attributes++"):
        if not (len(sts) == 3 and norm(sts[0][1]) == "stringatr=*attributes++" and norm(sts[1][1]) == "stringval=*attributes++"):
            fail(f"{where}: attribute loop header not understood")
    names = []          # (name, kind, extra)   kind: plain | category | equals
    st = sts[2]
    unknown_err = None
    while True:
        if st[0] != "if":
            fail(f"{where}: attribute loop: if/else chain expected")
        m = re.fullmatch(r'atr=="([^"]*)"', norm(st[1]))
        if not m:
            fail(f"{where}: attribute comparison not understood: {st[1]}")
        nm = m.group(1)
        then = as_list(st[2])
        if len(then) == 1 and then[0][0] == "simple":
            t = norm(then[0][1])
            if t == "adj->xmlerror.setCategory(val)":
                names.append((nm, "category", None, None))
            elif re.fullmatch(r"adj->[\w.]+=val", t):
                names.append((nm, "plain", None, None))
            else:
                fail(f"{where}: attribute branch not understood: {then[0][1]}")
        elif len(then) == 1 and then[0][0] == "if" and then[0][3] is None:
            m2 = re.fullmatch(r"val!=(\w+)", norm(then[0][1]))
            inner = as_list(then[0][2])
            if not m2 or len(inner) != 2 or inner[1] != ("simple", "return") or inner[0][0] != "simple" or error_call(norm(inner[0][1])) is None:
                fail(f"{where}: attribute value check not understood")
            names.append((nm, "equals", m2.group(1), cx.err(error_call(norm(inner[0][1])))))
        else:
            fail(f"{where}: attribute branch not understood")
        el = st[3]
        if el is None:
            fail(f"{where}: attribute chain without a final else (unknown attributes silently accepted)")
        ell = as_list(el)
        if len(ell) == 1 and ell[0][0] == "if":
            st = ell[0]
            continue
        if len(ell) == 2 and ell[1] == ("simple", "return") and ell[0][0] == "simple" and error_call(norm(ell[0][1])) is not None:
            unknown_err = cx.err(error_call(norm(ell[0][1])))
            break
        fail(f"{where}: final else of the attribute chain must be `error(...); return;`")
    return [("attrs", names, unknown_err)]


def translate_block(cx, stmts, where):
    ops = []
    k = 0
    while k < len(stmts):
        st = stmts[k]
        k += 1
        if st[0] == "simple":
            ops += translate_simple(cx, st[1], where)
        elif st[0] == "while":
            ops += translate_attr_loop(cx, st[1], st[2], where)
        elif st[0] == "switch":
            if norm(st[1]) != "coordinates_summary_stage" or st[2][0] != "block":
                fail(f"{where}: switch not understood")
            body = st[2][1]
            cases, default_err = [], None
            pos = 0
            for m in re.finditer(r"(case\s+(\d+)|default)\s*:", body):
                pass
            parts = re.split(r"(case\s+\d+\s*:|default\s*:)", body)
            if parts[0].strip():
                fail(f"{where}: text before the first case label")
            for lab, txt in zip(parts[1::2], parts[2::2]):
                ss = split_statements(txt)
                if lab.startswith("case"):
                    n = int(re.search(r"\d+", lab).group(0))
                    if len(ss) != 2 or ss[1] != ("simple", "break") or ss[0][0] != "simple" or \
                            not re.fullmatch(r"adj->[\w.]+=get_int\(\)", norm(ss[0][1])):
                        fail(f"{where}: case {n} not understood")
                    cases.append(n)
                else:
                    if len(ss) != 1 or ss[0][0] != "simple" or error_call(norm(ss[0][1])) is None:
                        fail(f"{where}: default branch not understood")
                    default_err = cx.err(error_call(norm(ss[0][1])))
            if default_err is None:
                fail(f"{where}: switch without default")
            ops.append(("stageSwitch", cases, default_err))
        elif st[0] == "if":
            c = norm(st[1])
            then = as_list(st[2])
            if st[3] is not None:
                fail(f"{where}: if/else not understood: {st[1]}")
            one_err = cx.err(error_call(norm(then[0][1]))) if len(then) == 1 and then[0][0] == "simple" and error_call(norm(then[0][1])) is not None else None
            m = re.fullmatch(r"state!=(\w+)((?:&&state!=\w+)*)", c)
            if m and one_err is not None:
                ss = [m.group(1)] + re.findall(r"&&state!=(\w+)", m.group(2))
                ops.append(("requireState", [cx.state(s) for s in ss], one_err))
                continue
            m = re.fullmatch(r"point_(has|con)_x!=point_(has|con)_y", c)
            if m and m.group(1) == m.group(2) and one_err is not None:
                ops.append(("requireFlagEq", m.group(1) + "X", m.group(1) + "Y", one_err))
                continue
            if c == "tmp_i!=tmp_e" and one_err is not None:
                ops.append(("iterErr", None, False, one_err))
                continue
            if c == "tmp_i==tmp_e" and one_err is not None:
                ops.append(("iterErr", None, True, one_err))
                continue
            m = re.fullmatch(r"state!=(\w+)\|\|tmp_i!=tmp_e", c)
            if m and one_err is not None:
                ops.append(("iterErr", cx.state(m.group(1)), False, one_err))
                continue
            if c == "tmp_i!=tmp_e" and len(then) == 1 and then[0][0] == "simple" and norm(then[0][1]) == "*tmp_i++=get_float()":
                ops.append(("store", True))
                continue
            if c == 's!="apriori"&&s!="aposteriori"' and one_err is not None:
                ops.append(("requireString", ["apriori", "aposteriori"], one_err))
                continue
            if c == "adj->xmlerror.getCategory().empty()" and len(then) == 2 and then[1] == ("simple", "return") and \
                    then[0][0] == "simple" and error_call(norm(then[0][1])) is not None:
                ops.append(("needCategory", cx.err(error_call(norm(then[0][1])))))
                continue
            if c in (COV_GUARD, COV_GUARD_UNKNOWNS) and len(then) == 2 and then[0][0] == "simple" and \
                    error_call(norm(then[0][1])) is not None and then[1][0] == "simple" and norm(then[1][1]) == "tmp_dim=tmp_band=0":
                if c == COV_GUARD_UNKNOWNS:
                    if not getattr(cx, "count_unknowns", False):
                        fail(f"{where}: `tmp_dim > unknowns` without the count of the unknowns in front of it")
                    cx.cov_guard_unknowns = True
                ops.append(("covGuard", cx.err(error_call(norm(then[0][1])))))
                continue
            if c == "tmp_point_adjusted":
                # index bookkeeping of adjusted points: data only (checked textually)
                if norm(body_text(st[2])) != norm("if (tmp_point.hxy) { tmp_point.indx = ++tmp_adj_index; tmp_point.indy = ++tmp_adj_index; }"
                                                  " if (tmp_point.hz) { tmp_point.indz = ++tmp_adj_index; }"):
                    fail(f"{where}: index bookkeeping block changed")
                ops.append(("data",))
                continue
            fail(f"{where}: if statement not understood: if ({st[1]}) ...")
        else:
            fail(f"{where}: nested block not understood")
    return ops


def body_text(st):
    if st[0] == "block":
        return st[1]
    fail("block expected")


def translate_handler(cx, src, name):
    body, params = member_body(src, name)
    cx.count_unknowns = False
    body = COUNT_UNKNOWNS_RX.sub("COUNT_UNKNOWNS;", body)
    if norm(params) not in ("boolstart", "bool"):
        fail(f"handler {name}: parameter list '{params}'")
    sts = split_statements(body)
    if name == "unknown":
        if len(sts) != 1 or sts[0][0] != "simple" or error_call(norm(sts[0][1])) is None:
            fail("Parser::unknown must consist of one error(...) call")
        ops = [("error", cx.err(error_call(norm(sts[0][1]))))]
        return ops, ops
    if len(sts) != 1 or sts[0][0] != "if" or norm(sts[0][1]) != "start" or sts[0][3] is None:
        fail(f"handler {name}: body is not `if (start) {{...}} else {{...}}`")
    return (translate_block(cx, as_list(sts[0][2]), f"{name}(start)"),
            translate_block(cx, as_list(sts[0][3]), f"{name}(end)"))


# ------------------------------------------------------------------ fixed skeletons the run model was written for

EXPECT = {
    "startElement": "check_and_clear_data();attributes=atts;tmp_tag=name;intt=tag(name);TagFunf=tagfun[state][t];(this->*f)(true);return0;",
    "characterDataHandler": "data+=std::string(s,std::string::size_type(len));return0;",
    "endElement": "if(stack.empty())stack.push(&Parser::unknown);TagFunf=stack.top();stack.pop();(this->*f)(false);data.clear();return0;",
    "check_and_clear_data": 'for(std::string::const_iteratori=data.begin(),e=data.end();i!=e;++i){if(!std::isspace(*i))error("Bad Data");}data.clear();',
    "get_int": 'string::const_iteratorb=data.begin();string::const_iteratore=data.end();if(!IsInteger(b,e))error("integer syntax error");'
               "istringstreamistr(data);intn=0;istr>>n;returnn;",
    "get_float": 'string::const_iteratorb=data.begin();string::const_iteratore=data.end();if(!IsFloat(b,e))error("float syntax error");'
                 "istringstreamistr(data);doublen=0;istr>>n;returnn;",
    "get_string": 'constchar*ws=" \\t\\r\\n";conststring::size_typeb=data.find_first_not_of(ws);if(b==string::npos)returnstring();'
                  "conststring::size_typee=data.find_last_not_of(ws);returndata.substr(b,e-b+1);",
}
EXPECT_CORE_ERROR = "if(errCode)return1;errString=std::string(text);errCode=-1;errLineNumber=XML_GetCurrentLineNumber(parser);state=0;return1;"
EXPECT_XML_PARSE_TAIL = "if(state==0){errCode=-1;throwParserException(errString,errLineNumber,errCode);}"


def lean_ident(s, prefix):
    n = s[len(prefix):] if s.startswith(prefix) else s
    if n in ("error", "start", "stop", "point", "at", "from", "to", "end", "id", "fixed", "x", "y", "z", "f", "obs", "dim", "band", "flt", "ind",
             "left", "right", "used", "lower", "upper", "ratio", "passed", "failed", "unknown", "adj", "alpha", "angle", "angles", "major", "minor"):
        return n + "_"
    return n


def lstr(s):
    return '"' + s.replace("\\", "\\\\").replace('"', '\\"') + '"'


def generate(repo):
    d = Path(repo) / "lib" / "gnu_gama" / "xml"
    try:
        hdr = strip_comments((d / "localnetwork_adjustment_results.h").read_text())
        src = strip_comments((d / "localnetwork_adjustment_results.cpp").read_text())
        base_h = strip_comments((d / "baseparser.h").read_text())
        base_c = strip_comments((d / "baseparser.cpp").read_text())
        xsd_h = (Path(repo) / "lib" / "gnu_gama" / "xsd.h").read_text()
    except OSError as e:
        fail(f"cannot read the sources: {e}")

    states = parse_enum(hdr, "parser_state")
    tags = parse_enum(hdr, "xml_tag")
    if states[0] != "s_error" or states[-1] != "s_stop":
        fail("enum parser_state must start with s_error (== 0) and end with s_stop")
    if tags[-1] != "t_unknown":
        fail("enum xml_tag must end with t_unknown")
    if not re.search(r"TagFun\s+tagfun\s*\[\s*s_stop\s*\+\s*1\s*\]\s*\[\s*t_unknown\s*\+\s*1\s*\]", hdr):
        fail("dimensions of tagfun[][] are not [s_stop+1][t_unknown+1]")
    m = re.search(r"void\s+set_state\s*\(\s*parser_state\s+new_state\s*\)\s*\{([^}]*)\}", hdr)
    if not m:
        fail("inline set_state not found")
    ss = norm(m.group(1))
    if ss == "if(state)state=new_state;":
        set_state_guarded = True
    elif ss == "state=new_state;":
        set_state_guarded = False
    else:
        fail("set_state body not understood: " + m.group(1))

    # CoreParser::error and BaseParser::xml_parse
    m = re.search(r"int\s+CoreParser::error\s*\(\s*const\s+char\s*\*\s*text\s*\)\s*\{", base_c)
    if not m:
        fail("CoreParser::error not found")
    i = base_c.find("{", m.end() - 1)
    if norm(base_c[i + 1:match_brace(base_c, i)]) != EXPECT_CORE_ERROR:
        fail("CoreParser::error differs from the modelled text")
    if EXPECT_XML_PARSE_TAIL not in norm(base_h):
        fail("BaseParser::xml_parse: `if (state == 0) throw` not found as modelled")
    error_return = 1

    for fn, exp in EXPECT.items():
        body, _ = member_body(src, fn)
        if norm(body) != exp:
            fail(f"Parser::{fn} differs from the text the run model was written for:\n{norm(body)}")

    m = re.search(r'#define\s+XSD_GAMA_LOCAL_ADJUSTMENT\s+"([^"]*)"', xsd_h)
    if not m:
        fail("XSD_GAMA_LOCAL_ADJUSTMENT not found in xsd.h")
    consts = {"XSD_GAMA_LOCAL_ADJUSTMENT": m.group(1)}

    # ---- init()
    body, _ = member_body(src, "init")
    nb = norm(body)
    head = "state=s_start;for(ints=0;s<=s_stop;s++)for(intt=0;t<=t_unknown;t++)tagfun[s][t]=&Parser::unknown;"
    if not nb.startswith(head):
        fail("Parser::init: initial state / default fill of tagfun not as modelled (must cover 0..s_stop x 0..t_unknown)")
    rest = nb[len(head):]
    table = {}
    handlers = ["unknown"]
    for st in rest.split(";"):
        if not st:
            continue
        m = re.fullmatch(r"tagfun\[(\w+)\]\[(\w+)\]=&Parser::(\w+)", st)
        if not m:
            fail("Parser::init: statement not understood: " + st)
        s, t, h = m.groups()
        if s not in states or t not in tags:
            fail(f"Parser::init: tagfun[{s}][{t}]: unknown state or tag (index out of the array)")
        table[(s, t)] = h          # later assignments win, as in the C++
        if h not in handlers:
            handlers.append(h)

    # ---- tag()
    body, _ = member_body(src, "tag")
    nb = norm(body)
    if not nb.startswith("name=c;switch(*c){") or not nb.endswith('}returnerror("unknowntag");'.replace("unknowntag", "unknown tag")):
        fail("Parser::tag: frame not understood (name = c; switch (*c) {...} return error(\"unknown tag\");)")
    i = body.find("{", body.find("switch"))
    sw = body[i + 1:match_brace(body, i)]
    parts = re.split(r"case\s*'(.)'\s*:", sw)
    if parts[0].strip():
        fail("Parser::tag: text before the first case")
    tag_table = []    # (string, tag, flag or None)
    seen = set()
    for ch, txt in zip(parts[1::2], parts[2::2]):
        t = norm(txt)
        if not t.endswith("break;"):
            fail(f"Parser::tag: case '{ch}' does not end with break (fall-through)")
        t = t[:-len("break;")]
        pos = 0
        for m in re.finditer(r'if\(!strcmp\(c,"([^"]*)"\)\)(?:return(\w+);|\{point_con_([xyz])=true;return(\w+);\})', t):
            if m.start() != pos:
                fail(f"Parser::tag: case '{ch}': text not understood: {t[pos:m.start()]}")
            pos = m.end()
            s = m.group(1)
            tg = m.group(2) or m.group(4)
            if tg not in tags:
                fail(f"Parser::tag: unknown enumerator {tg}")
            if not s or s[0] != ch:
                continue            # unreachable strcmp (first character differs from the case label)
            if s in seen:
                continue            # shadowed by an earlier comparison
            seen.add(s)
            tag_table.append((s, tg, ("con" + m.group(3).upper()) if m.group(3) else None))
        if pos != len(t):
            fail(f"Parser::tag: case '{ch}': text not understood: {t[pos:]}")

    cx = H(states, handlers)
    for lit in ("unknown tag", "Bad Data", "integer syntax error", "float syntax error"):
        cx.err('"' + lit + '"')
    start_ops, end_ops = {}, {}
    for h in handlers:
        start_ops[h], end_ops[h] = translate_handler(cx, src, h)

    # ------------------------------------------------------------------ emit
    S = lambda s: "." + lean_ident(s, "s_")
    T = lambda t: "." + lean_ident(t, "t_")
    Hn = lambda h: "." + lean_ident(h, "")
    err_ids = {}
    for e in cx.errs:
        b = re.sub(r"[^A-Za-z0-9]+", "_", e).strip("_").lower()[:40] or "empty"
        k, c = "e_" + b, 2
        while k in err_ids.values():
            k, c = f"e_{b}_{c}", c + 1
        err_ids[e] = k
    E = lambda e: "." + err_ids[e]

    def op_lean(op):
        k = op[0]
        if k == "push":
            return f".push {Hn(op[1])}"
        if k in ("setState", "assignState"):
            return f".{k} {S(op[1])}"
        if k in ("checkData", "clearCategory", "covReset", "iterBegin", "iterEnd", "data"):
            return f".{k}"
        if k == "stageSet":
            return f".stageSet {op[1]}"
        if k == "setFlag":
            return f".setFlag .{op[1]} {'true' if op[2] else 'false'}"
        if k in ("getInt", "getFloat", "getString"):
            return f".{k} .{op[1]}" if k != "getFloat" else ".getFloat"
        if k == "store":
            return f".store {'true' if op[1] else 'false'}"
        if k == "error":
            return f".error {E(op[1])}"
        if k == "attrs":
            names = ", ".join(
                "(" + lstr(n) + ", " + {"plain": ".plain", "category": ".category"}.get(kind, "") +
                (f".equals {lstr(consts.get(c, None) if c in consts else fail('unknown constant ' + c))} {E(er)}" if kind == "equals" else "") + ")"
                for n, kind, c, er in op[1])
            return f".attrs [{names}] {E(op[2])}"
        if k == "stageSwitch":
            return f".stageSwitch [{', '.join(map(str, op[1]))}] {E(op[2])}"
        if k == "requireState":
            return f".requireState [{', '.join(S(s) for s in op[1])}] {E(op[2])}"
        if k == "requireFlagEq":
            return f".requireFlagEq .{op[1]} .{op[2]} {E(op[3])}"
        if k == "iterErr":
            g = f"(some {S(op[1])})" if op[1] else "none"
            return f".iterErr {g} {'true' if op[2] else 'false'} {E(op[3])}"
        if k == "requireString":
            return f".requireString [{', '.join(lstr(s) for s in op[1])}] {E(op[2])}"
        if k in ("needCategory", "covGuard"):
            return f".{k} {E(op[1])}"
        if k == "book":
            return f".book (.{op[1]}" + ("" if len(op) == 2 else (" true" if op[2] else " false")) + ")"
        fail("internal: op " + repr(op))

    L = []
    A = L.append
    A("/-\n  GENERATED by tools/gen/c11_adjres.py from lib/gnu_gama/xml/localnetwork_adjustment_results.{h,cpp}\n"
      "  (class LocalNetworkAdjustmentResults::Parser) of the current working tree.\n"
      "  DO NOT EDIT: regenerated (and the proofs re-checked) on every run.\n-/\nnamespace Gama.AdjRes\n")
    A("/-- `enum parser_state` (order of declaration; `s_error == 0`) -/\ninductive State where")
    for s in states:
        A(f"  | {lean_ident(s, 's_')}")
    A("  deriving DecidableEq, Repr, Inhabited\n")
    A("def State.all : List State := [" + ", ".join(S(s) for s in states) + "]\n")
    A("/-- `enum xml_tag` -/\ninductive Tag where")
    for t in tags:
        A(f"  | {lean_ident(t, 't_')}")
    A("  deriving DecidableEq, Repr, Inhabited\n")
    A("def Tag.all : List Tag := [" + ", ".join(T(t) for t in tags) + "]\n")
    A("/-- the handler member functions `void Parser::h(bool start)` referenced by `tagfun` -/\ninductive Handler where")
    for h in handlers:
        A(f"  | {lean_ident(h, '')}")
    A("  deriving DecidableEq, Repr, Inhabited\n")
    A("def Handler.all : List Handler := [" + ", ".join(Hn(h) for h in handlers) + "]\n")
    A("/-- every `error(\"…\")` literal of the parser (prefix of the message when the call appends dynamic text) -/\ninductive Err where")
    for e in cx.errs:
        A(f"  | {err_ids[e]}")
    A("  deriving DecidableEq, Repr, Inhabited\n")
    A("def Err.msg : Err → String")
    for e in cx.errs:
        A(f"  | {E(e)} => {lstr(e)}")
    A("")
    A("inductive Flag where\n  | hasX | hasY | hasZ | conX | conY | conZ\n  deriving DecidableEq, Repr\n")
    A("/-- what an attribute branch of a `while (*attributes)` loop does with the value -/\n"
      "inductive AttrKind where\n  | plain\n  | category\n  | equals (v : String) (e : Err)\n  deriving DecidableEq, Repr\n")
    A("inductive IntDst where\n  | none | dim | band\n  deriving DecidableEq, Repr\n")
    A("inductive StrDst where\n  | none | s\n  deriving DecidableEq, Repr\n")
    A("/-- bookkeeping read by the `tmp_dim > unknowns` test of `band(false)`: `pointlist = &adj->…` (is it adjusted_points?),\n"
      "    `tmp_point_adjusted = …`, `pointlist->push_back(tmp_point)`, `adj->orientations.push_back(tmp_orientation)` -/\n"
      "inductive Book where\n  | listAdjusted (v : Bool) | pointAdjusted (v : Bool) | pushPoint | pushOrientation\n  deriving DecidableEq, Repr\n")
    A("/-- one statement of a handler branch (see tools/gen/c11_adjres.py) -/\ninductive Op where\n"
      "  | push (h : Handler)\n  | setState (s : State)\n  | assignState (s : State)\n"
      "  | attrs (names : List (String × AttrKind)) (unknownErr : Err)\n  | needCategory (e : Err)\n"
      "  | getInt (d : IntDst)\n  | getFloat\n  | getString (d : StrDst)\n  | checkData\n  | clearCategory\n"
      "  | stageSet (n : Nat)\n  | stageSwitch (cases : List Nat) (e : Err)\n"
      "  | requireState (ss : List State) (e : Err)\n  | requireFlagEq (a b : Flag) (e : Err)\n"
      "  | setFlag (f : Flag) (v : Bool)\n  | covGuard (e : Err)\n  | covReset\n  | iterBegin\n  | iterEnd\n"
      "  | iterErr (stateGuard : Option State) (whenAtEnd : Bool) (e : Err)\n  | store (guarded : Bool)\n"
      "  | requireString (allowed : List String) (e : Err)\n  | error (e : Err)\n  | data\n  | book (b : Book)\n"
      "  deriving DecidableEq, Repr\n")
    A("/-- the guard in front of `adj->cov.reset` also refuses `tmp_dim > unknowns`, `unknowns` = `adj->orientations.size()` + the\n"
      "    number of non-zero `indx/indy/indz` of `adj->adjusted_points` (counted in a loop just before it; fix 3e87ff8) -/\n"
      f"def covGuardUnknowns : Bool := {'true' if getattr(cx, 'cov_guard_unknowns', False) else 'false'}\n")
    A(f"/-- `set_state(s)` is `if (state) state = s;` -/\ndef setStateGuarded : Bool := {'true' if set_state_guarded else 'false'}\n")
    A(f"/-- value returned by `CoreParser::error`, used as a tag index by `return error(\"unknown tag\")` -/\n"
      f"def errorReturn : Nat := {error_return}\n")
    A("/-- `Parser::init()`: `tagfun[s][t]`, default `&Parser::unknown` -/\ndef tagfun : State → Tag → Handler")
    for (s, t), h in table.items():
        A(f"  | {S(s)}, {T(t)} => {Hn(h)}")
    A(f"  | _, _ => {Hn('unknown')}\n")
    A("/-- `Parser::tag()`: reachable `strcmp`s in source order, with the `point_con_*` flag set by X / Y / Z -/\n"
      "def tagTable : List (String × Tag × Option Flag) := [")
    A(",\n".join(f"  ({lstr(s)}, {T(t)}, {'some .' + f if f else 'none'})" for s, t, f in tag_table))
    A("]\n")
    A("def startOps : Handler → List Op")
    for h in handlers:
        A(f"  | {Hn(h)} => [" + ", ".join(op_lean(o) for o in start_ops[h]) + "]")
    A("")
    A("def endOps : Handler → List Op")
    for h in handlers:
        A(f"  | {Hn(h)} => [" + ", ".join(op_lean(o) for o in end_ops[h]) + "]")
    A("")
    A("end Gama.AdjRes\n")
    return "\n".join(L)


def write_if_changed(path, text):
    path = Path(path)
    if path.exists() and path.read_text() == text:
        return False
    path.parent.mkdir(parents=True, exist_ok=True)
    path.write_text(text)
    return True


def run(repo, verif):
    text = generate(repo)
    return write_if_changed(Path(verif) / "lean" / "Gama" / "Gen" / "AdjResAutomaton.lean", text)


if __name__ == "__main__":
    repo = sys.argv[1] if len(sys.argv) > 1 else "/repo"
    if len(sys.argv) > 2 and sys.argv[2] == "-":
        sys.stdout.write(generate(repo))
    else:
        ch = run(repo, Path(__file__).resolve().parents[2])
        print("AdjResAutomaton.lean", "rewritten" if ch else "unchanged")
