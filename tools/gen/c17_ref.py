"""High-precision references for C17 (run with python3-vt: needs mpmath).
stdin: JSON list of queries  ["normal", x] | ["student", t, N] | ["chi", x, n] | ["ncdf", x]
stdout: JSON list of upper-tail probabilities P(X > x) (ncdf: P(X <= x)) as decimal strings."""
import json
import sys
try:
    import mpmath as mp
except ImportError:           # sympy bundles it on some installs
    from sympy import mpmath as mp
mp.mp.dps = 30


def student_tail(t, n):
    t = mp.mpf(t); n = mp.mpf(n)
    if t == 0:
        return mp.mpf(1) / 2
    x = n / (n + t * t)
    if n > 5000:      # large dof: integrate the density tail-free form via the normal-like variable (quad is robust here)
        lg = mp.loggamma((n + 1) / 2) - mp.loggamma(n / 2) - mp.log(n * mp.pi) / 2
        f = lambda u: mp.exp(lg - (n + 1) / 2 * mp.log1p(u * u / n))
        a = abs(t)
        v = mp.quad(f, [a, a + 2, a + 6, a + 20, mp.inf])
    else:
        v = mp.betainc(n / 2, mp.mpf(1) / 2, 0, x, regularized=True) / 2
    return v if t > 0 else 1 - v


def chi_tail(x, n):
    x = mp.mpf(x); n = mp.mpf(n)
    if x <= 0:
        return mp.mpf(1)
    if n > 5000:
        lg = -mp.loggamma(n / 2) - n / 2 * mp.log(2)
        f = lambda u: mp.exp(lg + (n / 2 - 1) * mp.log(u) - u / 2)
        sd = mp.sqrt(2 * n)
        return mp.quad(f, [x, x + sd, x + 4 * sd, x + 20 * sd, mp.inf])
    return mp.gammainc(n / 2, x / 2, mp.inf, regularized=True)


def main():
    out = []
    for q in json.load(sys.stdin):
        k = q[0]
        if k == "normal":
            v = mp.erfc(mp.mpf(q[1]) / mp.sqrt(2)) / 2
        elif k == "ncdf":
            v = mp.erfc(-mp.mpf(q[1]) / mp.sqrt(2)) / 2
        elif k == "student":
            v = student_tail(q[1], q[2])
        elif k == "chi":
            v = chi_tail(q[1], q[2])
        else:
            v = mp.nan
        out.append(mp.nstr(v, 25))
    json.dump(out, sys.stdout)


if __name__ == "__main__":
    main()
