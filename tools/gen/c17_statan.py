"""
C17 translator: the decision fragments of lib/gnu_gama/statan.cpp that the C17 theorems are about, read from
the C++ text of the current tree and written as Lean definitions  ->  lean/Gama/Gen/StatanGen.lean.

What is read (Unreadable -> TieBroken if any of it can no longer be found / parsed):
  NormalDistribution : the exit test of the power-series loop        `if (D-s <= 0) break;`
                       the overflow guard of the continued fraction  `if (q2 > maxd) { q1 *= mind; ... }`
                         (guard expression + the statements of the block, in source order)
                       the loop condition                            `while (std::abs(r - D) > DBL_EPSILON);`
  Chi_square         : the selector between the two polynomials      `if(n < (2+int(4*fabs(t))))`
                       the two polynomials  `z = ...;`  (then / else branch)
  KSprob             : `if (term < eps) break;`  and  `while (term > eps && k <= 100);`

Model/Statan.lean uses these definitions in place (cfStep, seriesLoop, chiSquare, ksLoop1/2); the theorems
`rescale_invariant`, `chiSel_abs` … in Lemmas/ are proved about the generated text, so a rescale that forgets one
of q1, q2, p1, p2 or a selector without fabs makes `lake build` fail.

Expressions: C arithmetic (+ - * / unary -, parentheses, < <= > >=, &&, calls int(), fabs(), std::abs()),
decimal literals -> Scalar.ofSci, integer literals -> Scalar.ofNat (0 and 1 -> 0, 1), `int` typed names
(n) stay Int and are converted with Scalar.ofInt where they meet a double.
"""
import re
from pathlib import Path


class Unreadable(Exception):
    pass


def strip_comments(s):
    s = re.sub(r"/\*.*?\*/", " ", s, flags=re.S)
    return re.sub(r"//[^\n]*", "", s)


def function_body(text, header_re):
    m = re.search(header_re, text)
    if not m:
        raise Unreadable("cannot find " + header_re)
    i = text.index("{", m.end() - 1)
    return text[i + 1:matching(text, i, "{", "}")]


def matching(text, i, op, cl):
    depth, j = 0, i
    while j < len(text):
        if text[j] == op:
            depth += 1
        elif text[j] == cl:
            depth -= 1
            if depth == 0:
                return j
        j += 1
    raise Unreadable(f"unbalanced {op}{cl}")


# ---------------------------------------------------------------- expressions

TOK = re.compile(r"\s*(?:(\d+\.\d*(?:[eE][-+]?\d+)?|\.\d+(?:[eE][-+]?\d+)?|\d+[eE][-+]?\d+|\d+)|((?:std::)?[A-Za-z_]\w*)|(<=|>=|&&|[-+*/()<>]))")


def tokenize(s):
    out, i = [], 0
    s = s.strip()
    while i < len(s):
        m = TOK.match(s, i)
        if not m or m.end() == i:
            raise Unreadable("cannot tokenize: " + s[i:i + 30])
        if m.group(1) is not None:
            out.append(("num", m.group(1)))
        elif m.group(2) is not None:
            out.append(("id", m.group(2)))
        else:
            out.append(("op", m.group(3)))
        i = m.end()
        while i < len(s) and s[i].isspace():
            i += 1
    return out


class P:
    def __init__(self, toks):
        self.t, self.i = toks, 0

    def peek(self):
        return self.t[self.i] if self.i < len(self.t) else ("eof", "")

    def take(self, v=None):
        k = self.peek()
        if v is not None and k != ("op", v):
            raise Unreadable(f"expected {v} at token {self.i}: {k}")
        self.i += 1
        return k

    def expr(self):
        a = self.cmp()
        while self.peek() == ("op", "&&"):
            self.take()
            a = ("and", a, self.cmp())
        return a

    def cmp(self):
        a = self.add()
        if self.peek()[0] == "op" and self.peek()[1] in ("<", "<=", ">", ">="):
            o = self.take()[1]
            a = ("cmp", o, a, self.add())
        return a

    def add(self):
        a = self.mul()
        while self.peek()[0] == "op" and self.peek()[1] in "+-":
            o = self.take()[1]
            a = ("bin", o, a, self.mul())
        return a

    def mul(self):
        a = self.unary()
        while self.peek()[0] == "op" and self.peek()[1] in "*/":
            o = self.take()[1]
            a = ("bin", o, a, self.unary())
        return a

    def unary(self):
        if self.peek() == ("op", "-"):
            self.take()
            return ("neg", self.unary())
        if self.peek() == ("op", "+"):
            self.take()
            return self.unary()
        return self.atom()

    def atom(self):
        k, v = self.peek()
        if k == "num":
            self.take()
            return ("num", v)
        if k == "id":
            self.take()
            if self.peek() == ("op", "("):
                self.take()
                a = self.expr()
                self.take(")")
                return ("call", v, a)
            return ("id", v)
        if (k, v) == ("op", "("):
            self.take()
            a = self.expr()
            self.take(")")
            return a
        raise Unreadable(f"unexpected token {k} {v!r}")


def parse_expr(s):
    p = P(tokenize(s))
    a = p.expr()
    if p.i != len(p.t):
        raise Unreadable("trailing tokens in: " + s)
    return a


INT_NAMES = {"n"}
CALLS = {"fabs": "Scalar.abs", "std::abs": "Scalar.abs", "abs": "Scalar.abs"}


def typ(a):
    k = a[0]
    if k == "num":
        return "int" if re.fullmatch(r"\d+", a[1]) else "double"
    if k == "id":
        return "int" if a[1] in INT_NAMES else "double"
    if k == "neg":
        return typ(a[1])
    if k == "bin":
        return "int" if typ(a[2]) == "int" and typ(a[3]) == "int" else "double"
    if k == "call":
        return "int" if a[1] == "int" else "double"
    return "bool"


def literal(s):
    m = re.fullmatch(r"(\d*)\.?(\d*)(?:[eE]([-+]?\d+))?", s)
    if not m:
        raise Unreadable("literal " + s)
    ip, fp, ex = m.group(1) or "", m.group(2) or "", int(m.group(3) or 0)
    fp = fp.rstrip("0")
    mant = int((ip + fp) or "0")
    e = len(fp) - ex                      # value = mant * 10^(-e)
    if mant == 0:
        return "0"
    if e == 0:
        return str(mant) if mant == 1 else f"Scalar.ofNat {mant}"
    if e >= 0:
        return f"Scalar.ofSci {mant} true {e}"
    return f"Scalar.ofSci {mant} false {-e}"


def emit(a, want):
    """Lean term of C type `want` ('int' | 'double' | 'bool')"""
    k = a[0]
    if k == "num":
        if typ(a) == "int":
            v = int(a[1])
            if want == "int":
                return str(v)
            return str(v) if v in (0, 1) else f"Scalar.ofNat {v}"
        return literal(a[1])
    if k == "id":
        name = RENAME.get(a[1], a[1])
        if typ(a) == "int" and want == "double":
            return f"Scalar.ofInt {name}"
        return name
    if k == "neg":
        t = typ(a[1])
        s = f"-({emit(a[1], t)})"
        return f"Scalar.ofInt ({s})" if t == "int" and want == "double" else s
    if k == "bin":
        t = typ(a)
        s = f"({emit(a[2], t)} {a[1]} {emit(a[3], t)})"
        return f"Scalar.ofInt {s}" if t == "int" and want == "double" else s
    if k == "call":
        if a[1] == "int":
            s = f"Trunc.trunc ({emit(a[2], 'double')})"
            return f"Scalar.ofInt ({s})" if want == "double" else s
        if a[1] not in CALLS:
            raise Unreadable("unknown function " + a[1])
        return f"{CALLS[a[1]]} ({emit(a[2], 'double')})"
    if k == "cmp":
        t = "int" if typ(a[2]) == "int" and typ(a[3]) == "int" else "double"
        op = {"<": "<", "<=": "≤", ">": ">", ">=": "≥"}[a[1]]
        return f"{emit(a[2], t)} {op} {emit(a[3], t)}"
    if k == "and":
        return f"({emit(a[1], 'bool')}) ∧ ({emit(a[2], 'bool')})"
    raise Unreadable("emit " + str(a))


RENAME = {"DBL_EPSILON": "eps"}


def names(a, acc=None):
    acc = set() if acc is None else acc
    if a[0] == "id":
        acc.add(a[1])
    for x in a[1:]:
        if isinstance(x, tuple):
            names(x, acc)
    return acc


def only(a, allowed, what):
    bad = names(a) - set(allowed)
    if bad:
        raise Unreadable(f"{what}: unexpected names {sorted(bad)}")


# ---------------------------------------------------------------- fragments

def paren_after(text, pos):
    """text of the parenthesised group starting at the first '(' at or after pos; returns (inside, end index)"""
    i = text.index("(", pos)
    j = matching(text, i, "(", ")")
    return text[i + 1:j], j


def parse(repo):
    src = strip_comments((Path(repo) / "lib" / "gnu_gama" / "statan.cpp").read_text())
    nd = function_body(src, r"void\s+NormalDistribution\s*\([^)]*\)\s*\{")
    chi = function_body(src, r"double\s+Chi_square\s*\([^)]*\)\s*\{")
    ks = function_body(src, r"double\s+KSprob\s*\([^)]*\)\s*\{")
    out = {}

    # --- Normal: which tail of the start value is taken (round 9; notes/proposed/C17-normal-upper-tail.diff)
    #     original:  NormalDistribution(z, f, g);  f = 1 - f;        repaired:  NormalDistribution(-z, f, g);
    nrm = re.sub(r"\s+", "", function_body(src, r"double\s+Normal\s*\([^)]*\)\s*\{"))
    direct = "NormalDistribution(-z,f,g);f=(f-a)/g;" in nrm
    compl = "NormalDistribution(z,f,g);f=1-f;f=(f-a)/g;" in nrm
    if direct == compl:
        raise Unreadable("Normal: neither `NormalDistribution(z, f, g); f = 1 - f;` nor `NormalDistribution(-z, f, g);` in front of `f = (f-a)/g;`")
    out["normalUpperDirect"] = direct

    # --- series loop: for (;;) { ... if (COND) break; ... }
    m = re.search(r"for\s*\(\s*;\s*;\s*\)\s*\{", nd)
    if not m:
        raise Unreadable("NormalDistribution: for(;;) loop not found")
    body = nd[m.end() - 1:matching(nd, m.end() - 1, "{", "}")]
    brk = re.findall(r"if\s*\(([^;{}]*?)\)\s*break\s*;", body)
    if len(brk) != 1:
        raise Unreadable("NormalDistribution: series loop must have exactly one `if (..) break;`")
    e = parse_expr(brk[0]); only(e, ["D", "s"], "series exit test")
    out["seriesStop"] = (brk[0].strip(), emit(e, "bool"))
    sts = [s.strip() for s in re.sub(r"if\s*\([^;{}]*?\)\s*break\s*;", "BREAK;", body[1:]).split(";") if s.strip()]
    if [re.sub(r"\s+", "", s) for s in sts] != ["y*=x2/r", "D+=y", "BREAK", "s=D", "r+=2"]:
        raise Unreadable("NormalDistribution: series loop body changed: " + " ; ".join(sts))

    # --- continued fraction: do { ... if (GUARD) { block } ... } while (COND);
    m = re.search(r"\bdo\s*\{", nd)
    if not m:
        raise Unreadable("NormalDistribution: do-while loop not found")
    j = matching(nd, m.end() - 1, "{", "}")
    dobody = nd[m.end():j]
    mw = re.match(r"\s*while\s*", nd[j + 1:])
    if not mw:
        raise Unreadable("NormalDistribution: `while` after do-block not found")
    cond, _ = paren_after(nd, j + 1)
    e = parse_expr(cond); only(e, ["r", "D", "DBL_EPSILON"], "continued-fraction loop condition")
    out["cfContinue"] = (cond.strip(), emit(e, "bool"))
    ifs = list(re.finditer(r"if\s*\(", dobody))
    guards = []
    for mi in ifs:
        g, gend = paren_after(dobody, mi.start())
        rest = dobody[gend + 1:]
        mb = re.match(r"\s*\{", rest)
        if mb:
            k = matching(rest, mb.end() - 1, "{", "}")
            guards.append((g, rest[mb.end():k]))
    if len(guards) != 1:
        raise Unreadable("NormalDistribution: expected exactly one guarded block `if (..) { .. }` in the do-loop")
    g, block = guards[0]
    e = parse_expr(g); only(e, ["q1", "q2", "p1", "p2", "maxd"], "rescale guard")
    out["rescaleGuard"] = (g.strip(), emit(e, "bool"))
    stmts = []
    for s in [x.strip() for x in block.split(";") if x.strip()]:
        ms = re.fullmatch(r"(\w+)\s*(\*=|/=|\+=|-=|=)\s*(.+)", s, flags=re.S)
        if not ms or ms.group(1) not in ("q1", "q2", "p1", "p2"):
            raise Unreadable("rescale block: cannot read statement `" + s + "`")
        r = parse_expr(ms.group(3)); only(r, ["q1", "q2", "p1", "p2", "mind", "maxd"], "rescale block")
        rhs = emit(r, "double")
        v, o = ms.group(1), ms.group(2)
        stmts.append((s, v, rhs if o == "=" else f"{v} {o[0]} {rhs}"))
    out["rescale"] = stmts

    # --- Chi_square: if (SEL) z = A; else z = B;
    m = re.search(r"if\s*\(\s*n\s*<", chi)
    ms = [x for x in re.finditer(r"if\s*\(", chi)]
    sel = None
    for x in ms:
        g, gend = paren_after(chi, x.start())
        rest = chi[gend + 1:]
        mz = re.match(r"\s*z\s*=", rest)
        if mz:
            a_end = rest.index(";", mz.end())
            me = re.match(r"\s*else\s+z\s*=", rest[a_end + 1:])
            if not me:
                raise Unreadable("Chi_square: else z = ... not found")
            b_start = a_end + 1 + me.end()
            b_end = rest.index(";", b_start)
            sel = (g, rest[mz.end():a_end], rest[b_start:b_end])
    if sel is None:
        raise Unreadable("Chi_square: `if (..) z = ..; else z = ..;` not found")
    e = parse_expr(sel[0]); only(e, ["n", "t"], "Chi_square selector")
    if typ(e[2]) != "int" or typ(e[3]) != "int":
        raise Unreadable("Chi_square selector is no longer an int comparison")
    out["chiSel"] = (re.sub(r"\s+", "", sel[0]), emit(e, "bool"))
    for nm, txt in (("chiPolyA", sel[1]), ("chiPolyB", sel[2])):
        e = parse_expr(txt); only(e, ["f1", "f2"], nm)
        out[nm] = emit(e, "double")

    # --- KSprob
    brk = re.findall(r"if\s*\(([^;{}]*?)\)\s*break\s*;", ks)
    if len(brk) != 1:
        raise Unreadable("KSprob: expected one `if (..) break;`")
    e = parse_expr(brk[0]); only(e, ["term", "eps"], "KSprob exit test")
    out["ksStop1"] = (brk[0].strip(), emit(e, "bool"))
    m = re.search(r"\}\s*while\s*\(", ks)
    if not m:
        raise Unreadable("KSprob: do-while not found")
    cond, _ = paren_after(ks, m.start())
    e = parse_expr(cond); only(e, ["term", "eps", "k"], "KSprob loop condition")
    out["ksContinue2"] = (cond.strip(), emit(e, "bool"))
    return out


def wrap(s, width=104, indent="    "):
    words, lines, cur = s.split(" "), [], ""
    words[0] = "  " + words[0]
    for w in words:
        if cur and len(cur) + 1 + len(w) > width:
            lines.append(cur); cur = indent + w
        else:
            cur = (cur + " " + w) if cur else w
    lines.append(cur)
    return "\n".join(lines)


def render(o):
    L = []
    A = L.append
    A("/-")
    A("  GENERATED by tools/gen/c17_statan.py from lib/gnu_gama/statan.cpp of the current tree.  DO NOT EDIT.")
    A("  Decision fragments of NormalDistribution / Chi_square / KSprob, used in place by Gama/Model/Statan.lean.")
    A("-/")
    A("import Gama.Model.GeoScalar")
    A("namespace Gama.StatanGen")
    A("open Gama")
    A("set_option linter.unusedVariables false")
    A("variable {K : Type} [Scalar K]")
    A("")
    A(f"/-- NormalDistribution, power series: `if ({o['seriesStop'][0]}) break;` -/")
    A(f"def seriesStop (D s : K) : Bool := decide ({o['seriesStop'][1]})")
    A("")
    A(f"/-- NormalDistribution, continued fraction: `if ({o['rescaleGuard'][0]})` -/")
    A(f"def rescaleGuard (maxd q1 q2 p1 p2 : K) : Bool := decide ({o['rescaleGuard'][1]})")
    A("")
    A("/-- the guarded block, statements in source order: " + " ".join(f"`{s};`" for s, _, _ in o["rescale"]) + " ; result (q1, q2, p1, p2) -/")
    A("def rescale (mind maxd q1 q2 p1 p2 : K) : K × K × K × K :=")
    for _, v, rhs in o["rescale"]:
        A(f"  let {v} := {rhs}")
    A("  (q1, q2, p1, p2)")
    A("")
    A(f"/-- NormalDistribution, continued fraction: `while ({o['cfContinue'][0]})` -/")
    A(f"def cfContinue (eps r D : K) : Bool := decide ({o['cfContinue'][1]})")
    A("")
    A(f"/-- Chi_square: `if ({o['chiSel'][0]})` — true selects `chiPolyA` -/")
    A(f"def chiSel [Trunc K] (n : Int) (t : K) : Bool := decide ({o['chiSel'][1]})")
    A("")
    A("/-- Chi_square: the polynomial of the `then` branch -/")
    A("def chiPolyA (f1 f2 : K) : K :=")
    A(wrap(o["chiPolyA"]))
    A("")
    A("/-- Chi_square: the polynomial of the `else` branch -/")
    A("def chiPolyB (f1 f2 : K) : K :=")
    A(wrap(o["chiPolyB"]))
    A("")
    A("/-- Normal: `true` = the repaired code `NormalDistribution(-z, f, g);` (upper tail of the start value computed directly), "
      "`false` = the original `NormalDistribution(z, f, g); f = 1 - f;` -/")
    A(f"def normalUpperDirect : Bool := {'true' if o['normalUpperDirect'] else 'false'}")
    A("")
    A(f"/-- KSprob, first loop: `if ({o['ksStop1'][0]}) break;` -/")
    A(f"def ksStop1 (eps term : K) : Bool := decide ({o['ksStop1'][1]})")
    A("")
    A(f"/-- KSprob, second loop: `while ({o['ksContinue2'][0]})` -/")
    A(f"def ksContinue2 (eps term k : K) : Bool := decide ({o['ksContinue2'][1]})")
    A("")
    A("end Gama.StatanGen")
    return "\n".join(L) + "\n"


def run(repo, lean):
    o = parse(repo)
    text = render(o)
    f = Path(lean) / "Gama" / "Gen" / "StatanGen.lean"
    changed = (not f.exists()) or f.read_text() != text
    if changed:
        f.write_text(text)
    return o, changed


if __name__ == "__main__":
    import sys
    print(render(parse(sys.argv[1] if len(sys.argv) > 1 else "/repo")))
