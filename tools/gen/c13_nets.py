"""
Network generator extensions used by the C12 / C13 end-to-end searches (on top of tools/lib/gen_net.py).

 * rename_ids      : replace the point identifiers of a gen_net network (everywhere)
 * nasty_id        : identifiers drawn from XML specials, quotes, non-ASCII, long strings, inner blanks
 * decorate        : add attributes the plain generator does not emit: extern, from_dh on <obs>, bs_dh/fs_dh on
                     angles, a coordinates cluster, a vectors cluster with full covariance, banded covariance
                     matrices in <obs>/<height-differences>
 * to_gkf2         : serialiser with axes-xy / angles conventions, degree (sexagesimal) input, epoch, cov-band,
                     every attribute above
 * pid_norm        : PointID normalisation (white space collapsed/trimmed), what gama keeps of an identifier

Everything is a function of the `random.Random` passed in.
"""
import math
import sys
from pathlib import Path

sys.path.insert(0, str(Path(__file__).resolve().parents[1]))
from lib import gen_net  # noqa: E402
from lib.gen_net import fmt, xml_escape_attr  # noqa: E402

SPECIALS = ["&", "<", ">", "'", '"', "]]>", "&amp;", "&#65;", "--", "%", "\\", "/", "?", "=", ";", "{", "$"]
NONASCII = ["é", "ž", "ß", "Ω", "点", "Ж", "ñ", "😀", "ø", "ǆ"]


def pid_norm(s):
    """GNU_gama::local::PointID::init : isspace runs -> one blank, trimmed"""
    return " ".join(s.split())


def nasty_id(rng, k, flavour=None):
    """a distinct identifier (k makes it unique); flavours: plain, special, quote, nonascii, long, blank, numeric"""
    fl = flavour or rng.choice(["plain", "special", "special", "quote", "nonascii", "long", "blank", "numeric", "mixed"])
    base = f"{k}"
    if fl == "plain":
        return "P" + base
    if fl == "numeric":
        return str(100 + k)
    if fl == "special":
        return rng.choice(["A", ""]) + rng.choice(SPECIALS[:6]) + "B" + base
    if fl == "quote":
        return rng.choice(["'", '"', "O'", 'q"']) + base + rng.choice(["", "'", '"'])
    if fl == "nonascii":
        return "".join(rng.choice(NONASCII) for _ in range(rng.randint(1, 4))) + base
    if fl == "long":
        return "L" + base + "_" + "".join(rng.choice("abcdefXYZ0123456789-_.") for _ in range(rng.randint(60, 300)))
    if fl == "blank":
        return rng.choice(["A B", "north east", "p  q", " x", "x "]) + " " + base
    return "".join(rng.choice(SPECIALS + NONASCII + list("abcXYZ09")) for _ in range(rng.randint(1, 8))) + base


def nasty_text(rng):
    n = rng.randint(0, 12)
    return " ".join(rng.choice(SPECIALS + NONASCII + ["net", "1", "adj", "Praha", "a'b", 'say "hi"', "x<y", "R&D"])
                    for _ in range(n))


def rename_ids(net, mapping):
    net["points"] = {mapping.get(k, k): v for k, v in net["points"].items()}
    for o in net["obs"]:
        if "from" in o:
            o["from"] = mapping.get(o["from"], o["from"])
        for it in o["items"]:
            for k in ("to", "bs", "fs", "from", "id"):
                if k in it:
                    it[k] = mapping.get(it[k], it[k])
    return net


def spd_band(rng, n, band, diag):
    """symmetric positive definite band matrix with the given diagonal scale: L L^T with L lower band"""
    L = [[0.0] * n for _ in range(n)]
    for i in range(n):
        L[i][i] = math.sqrt(diag[i]) * rng.uniform(0.8, 1.2)
        for j in range(max(0, i - band), i):
            L[i][j] = math.sqrt(diag[i]) * rng.uniform(-0.3, 0.3)
    C = [[sum(L[i][k] * L[j][k] for k in range(n)) for j in range(n)] for i in range(n)]
    for i in range(n):
        for j in range(n):
            if abs(i - j) > band:
                C[i][j] = 0.0
    return C


EXTERN_POOL = ["e1", "ext 2", "a&b", 'q"t', "<x>", "o'c", "é", "id=7;k"]
EXTERN_SAFE = ["e1", "ext 2", "é", "id=7;k", "X-17"]


def decorate(rng, net, extern=0.3, dh=0.3, coords=False, vectors=False, obscov=0.0, hdcov=0.0, extern_pool=None):
    """add attributes (in place); geometry stays consistent only where gama ignores the attribute
    (extern) or the caller generated the values with the heights already applied"""
    ids = list(net["points"])
    for o in net["obs"]:
        for it in o["items"]:
            if rng.random() < extern:
                it["extern"] = rng.choice(extern_pool or EXTERN_POOL)
        if o["kind"] == "obs":
            if rng.random() < obscov and len(o["items"]) >= 2:
                n = len(o["items"])
                band = rng.randint(1, n - 1)
                o["cov"] = spd_band(rng, n, band, [float(it.get("stdev", 10.0)) ** 2 for it in o["items"]])
                o["band"] = band
        if o["kind"] == "hdiffs" and rng.random() < hdcov and len(o["items"]) >= 2:
            n = len(o["items"])
            band = rng.randint(1, n - 1)
            for it in o["items"]:
                it.pop("dist", None)
                it.setdefault("stdev", 1.0)
            o["cov"] = spd_band(rng, n, band, [float(it["stdev"]) ** 2 for it in o["items"]])
            o["band"] = band
    if coords:
        cand = [p for p in ids if net["points"][p]["status"] != "fix"]
        pick = rng.sample(cand, min(len(cand), rng.randint(1, 2)))
        items = []
        for p in pick:
            q = net["points"][p]
            it = {"id": p}
            if "x" in q:
                it["x"], it["y"] = q["x"] + rng.gauss(0, 1e-3), q["y"] + rng.gauss(0, 1e-3)
            if "z" in q and (rng.random() < 0.6 or "x" not in q):
                it["z"] = q["z"] + rng.gauss(0, 1e-3)
            items.append(it)
        n = sum((2 if "x" in it else 0) + (1 if "z" in it else 0) for it in items)
        band = rng.randint(0, n - 1)
        c = {"kind": "coords", "items": items, "cov": spd_band(rng, n, band, [25.0] * n), "band": band}
        if rng.random() < 0.5:
            c["extern"] = "coords ext"
        net["obs"].append(c)
    if vectors and net["dim"] == 3:
        items = []
        ids3 = [p for p in ids if "x" in net["points"][p] and "z" in net["points"][p]]
        for a, b in zip(ids3, ids3[1:]):
            pa, pb = net["points"][a], net["points"][b]
            it = {"from": a, "to": b, "dx": pb["x"] - pa["x"] + rng.gauss(0, 1e-3),
                  "dy": pb["y"] - pa["y"] + rng.gauss(0, 1e-3), "dz": pb["z"] - pa["z"] + rng.gauss(0, 1e-3)}
            items.append(it)
        if not items:
            return net
        items = items[:rng.randint(1, len(items))]
        n = 3 * len(items)
        band = rng.randint(0, n - 1)
        net["obs"].append({"kind": "vectors", "items": items, "cov": spd_band(rng, n, band, [4.0] * n), "band": band})
    return net


def add_lower_dim_points(rng, net, n2=2, n1=2, noise=1.0):
    """mixed-dimension network: to a 3D gen_net network add `n2` plane points (x, y only; observed by horizontal
    distances and directions from two existing stations) and `n1` height points (z only; levelled from two 3D points).
    Identifiers are then re-dealt so that 3D, 2D and 1D points interleave in PointID order."""
    ids3 = [p for p, q in net["points"].items() if "x" in q and "z" in q]
    stations = [o for o in net["obs"] if o["kind"] == "obs" and o["from"] in ids3]
    hd = next((o for o in net["obs"] if o["kind"] == "hdiffs"), None)
    if hd is None:
        hd = {"kind": "hdiffs", "items": []}
        net["obs"].append(hd)
    new = []
    for k in range(n2):
        pid = f"Q{k + 1}"
        q = {"x": rng.uniform(100, 900), "y": rng.uniform(100, 900), "status": "adj", "approx": True}
        net["points"][pid] = q
        new.append(pid)
        for st in rng.sample(stations, min(len(stations), 3)):
            s = net["points"][st["from"]]
            b = (gen_net.bearing(s, q) * gen_net.GON - st["orient"] + rng.gauss(0, 10e-4) * noise) % 400.0
            st["items"].append({"t": "direction", "to": pid, "val": b, "stdev": 10.0})
            st["items"].append({"t": "distance", "to": pid, "val": gen_net.dist2(s, q) + rng.gauss(0, 5e-3) * noise, "stdev": 5.0})
    for k in range(n1):
        pid = f"H{k + 1}"
        q = {"z": rng.uniform(0, 100), "status": "adj", "approx": True}
        net["points"][pid] = q
        new.append(pid)
        for a in rng.sample(ids3, min(len(ids3), 2)):
            hd["items"].append({"from": a, "to": pid, "val": q["z"] - net["points"][a]["z"] + rng.gauss(0, 1e-3) * noise,
                                "stdev": 1.0})
    allp = list(net["points"])
    names = sorted(f"M{k + 1:02d}" for k in range(len(allp)))
    rng.shuffle(allp)
    if rng.random() < 0.5:       # guaranteed pattern: a 3D point directly followed by a plane point and a height point
        three = [p for p in allp if p in ids3]
        two = [p for p in allp if p.startswith("Q")]
        one = [p for p in allp if p.startswith("H")]
        allp = three[:1] + two[:1] + one[:1] + three[1:2] + one[1:] + two[1:] + three[2:]
    rename_ids(net, dict(zip(allp, names)))
    return net


AXES = {"ne": (1, 0, 1, 1), "sw": (1, 0, -1, -1), "es": (0, 1, 1, -1), "wn": (0, 1, -1, 1),
        "en": (0, 1, 1, 1), "nw": (1, 0, 1, -1), "se": (1, 0, -1, 1), "ws": (0, 1, -1, -1)}
LEFT_AXES = {"ne", "sw", "es", "wn"}


def axes_xy(axes, n, e):
    """(north, east) -> (x, y) in the given axes-xy convention"""
    xn, xe, sx, sy = AXES[axes]
    if xn:          # x along north/south, y along east/west
        return sx * n, sy * e
    return sx * e, sy * n


def gon2dms(g, nd=4):
    """gon -> 'd-m-s.ssss' as accepted by GNU_gama::deg2gon"""
    deg = g * 0.9
    sign = "-" if deg < 0 else ""
    deg = abs(deg)
    total = round(deg * 3600 * 10 ** nd)
    s = (total % (60 * 10 ** nd)) / 10 ** nd
    m = (total // (60 * 10 ** nd)) % 60
    d = total // (3600 * 10 ** nd)
    return f"{sign}{d}-{m:02d}-{s:0{3 + nd}.{nd}f}"


def cov_xml(cov, band=None, nd=None):
    n = len(cov)
    if band is None:
        band = n - 1
    rows = []
    for i in range(n):
        rows.append(" ".join(repr(float(cov[i][j])) for j in range(i, min(n, i + band + 1))))
    return f'<cov-mat dim="{n}" band="{band}">\n' + "\n".join(rows) + "\n</cov-mat>"


ANGULAR = {"direction", "angle", "z-angle", "azimuth"}


def to_gkf2(net, nd=10, axes=None, angles=None, degrees=False, description="generated", extra_params=None,
            epoch=None, obs_from_dh=False):
    """serialise; coordinates in `net` are (x=north, y=east), angular values clockwise in gon
    (gen_net conventions).  `axes`/`angles` re-express them; `degrees` writes angular values sexagesimal
    and their stdev in arc seconds."""
    ax = axes or "ne"
    right = (angles == "right-handed")
    out = ['<?xml version="1.0" ?>', '<gama-local xmlns="http://www.gnu.org/software/gama/gama-local">']
    na = ""
    if axes:
        na += f' axes-xy="{axes}"'
    if angles:
        na += f' angles="{angles}"'
    if epoch is not None:
        na += f' epoch="{epoch}"'
    out.append(f"<network{na}>")
    if description is not None:
        out.append(f"<description>{xml_escape_attr(description)}</description>")
    par = dict(net.get("params", {}))
    if extra_params:
        par.update(extra_params)
    out.append("<parameters " + " ".join(f'{k}="{v}"' for k, v in par.items()) + " />")
    out.append("<points-observations>")

    def angval(it, v):
        if right and it["t"] in ("direction", "angle", "azimuth"):
            v = (400.0 - v) % 400.0
        return gon2dms(v) if degrees else fmt(v, nd)

    for pid, p in net["points"].items():
        a = f'<point id="{xml_escape_attr(pid)}"'
        if p.get("approx", True) or p["status"] == "fix":
            if "x" in p:
                x, y = axes_xy(ax, p["x"], p["y"])
                a += f' x="{fmt(x, nd)}" y="{fmt(y, nd)}"'
            if "z" in p:
                a += f' z="{fmt(p["z"], nd)}"'
        what = ("xy" if "x" in p else "") + ("z" if "z" in p else "")
        st = p["status"]
        if st == "fix":
            a += f' fix="{what}"'
        elif st == "adj":
            a += f' adj="{what}"'
        elif st == "con":
            a += f' adj="{what.upper()}"'
        elif st == "mixed":          # xy constrained, z free (3D only)
            a += ' adj="XYz"'
        out.append(a + " />")
    for o in net["obs"]:
        if o["kind"] == "obs":
            a = f'<obs from="{xml_escape_attr(o["from"])}"'
            if obs_from_dh and o.get("from_dh") is not None:
                a += f' from_dh="{fmt(o["from_dh"], nd)}"'
            out.append(a + ">")
            for it in o["items"]:
                t = it["t"]
                a = f"<{t}"
                for k in ("to", "bs", "fs"):
                    if k in it:
                        a += f' {k}="{xml_escape_attr(it[k])}"'
                if t in ANGULAR:
                    a += f' val="{angval(it, it["val"])}"'
                else:
                    a += f' val="{fmt(it["val"], nd)}"'
                if "stdev" in it:
                    sd = it["stdev"]
                    if degrees and t in ANGULAR:
                        sd = sd * 0.324
                    a += f' stdev="{sd}"'
                for k in ("from_dh", "to_dh", "bs_dh", "fs_dh"):
                    if k in it:
                        a += f' {k}="{fmt(it[k], nd)}"'
                if "extern" in it:
                    a += f' extern="{xml_escape_attr(it["extern"])}"'
                out.append(a + " />")
            if o.get("cov"):
                cov = o["cov"]
                if degrees:      # rows/columns of sexagesimal observations are given in arc seconds
                    f = [0.324 if it["t"] in ANGULAR else 1.0 for it in o["items"]]
                    cov = [[cov[i][j] * f[i] * f[j] for j in range(len(cov))] for i in range(len(cov))]
                out.append(cov_xml(cov, o.get("band")))
            out.append("</obs>")
        elif o["kind"] == "hdiffs":
            out.append("<height-differences>")
            for it in o["items"]:
                a = (f'<dh from="{xml_escape_attr(it["from"])}" to="{xml_escape_attr(it["to"])}" '
                     f'val="{fmt(it["val"], nd)}"')
                if "stdev" in it:
                    a += f' stdev="{it["stdev"]}"'
                if "dist" in it:
                    a += f' dist="{fmt(it["dist"], 6)}"'
                if "extern" in it:
                    a += f' extern="{xml_escape_attr(it["extern"])}"'
                out.append(a + " />")
            if o.get("cov"):
                out.append(cov_xml(o["cov"], o.get("band")))
            out.append("</height-differences>")
        elif o["kind"] == "vectors":
            out.append("<vectors>")
            for it in o["items"]:
                dx, dy = axes_xy(ax, it["dx"], it["dy"])
                a = (f'<vec from="{xml_escape_attr(it["from"])}" to="{xml_escape_attr(it["to"])}" '
                     f'dx="{fmt(dx, nd)}" dy="{fmt(dy, nd)}" dz="{fmt(it["dz"], nd)}"')
                for k in ("from_dh", "to_dh"):
                    if k in it:
                        a += f' {k}="{fmt(it[k], nd)}"'
                if "extern" in it:
                    a += f' extern="{xml_escape_attr(it["extern"])}"'
                out.append(a + " />")
            n = 3 * len(o["items"])
            cov = o.get("cov") or [[1.0 if i == j else 0.0 for j in range(n)] for i in range(n)]
            out.append(cov_xml(cov, o.get("band", 0 if not o.get("cov") else None)))
            out.append("</vectors>")
        elif o["kind"] == "coords":
            a = "<coordinates"
            if "extern" in o:
                a += f' extern="{xml_escape_attr(o["extern"])}"'
            out.append(a + ">")
            for it in o["items"]:
                a = f'<point id="{xml_escape_attr(it["id"])}"'
                if "x" in it:
                    x, y = axes_xy(ax, it["x"], it["y"])
                    a += f' x="{fmt(x, nd)}" y="{fmt(y, nd)}"'
                if "z" in it:
                    a += f' z="{fmt(it["z"], nd)}"'
                out.append(a + " />")
            out.append(cov_xml(o["cov"], o.get("band")))
            out.append("</coordinates>")
    out += ["</points-observations>", "</network>", "</gama-local>", ""]
    return "\n".join(out)
