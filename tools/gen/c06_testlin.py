"""
C06 translator:  /repo/lib/gnu_gama/local/test_linearization_visitor.{cpp,h} (+ float.h macros)
                 ->  lean/Gama/Gen/TestLinVisitor.lean

Every `TestLinearizationVisitor::visit(<Class>*)` becomes a Lean definition over `[TrigScalar K]`
reading the SAME record `Lin.Obs` as the generated linearisation (Gama/Gen/Linearization.lean):

  * `IS->PD[obs->from()/to()/fs()]`         -> `o.pfrom / o.pto / o.pfs`  (coordinates, `free_xy()`, `free_z()`)
  * `x(P.index_c())`, `x(obs->index_orientation())`, `v(i)` -> `s.x role coord`, `s.x .station .ori`, `s.v`
  * the private helpers of the header (`computeFromTo`, `computeBearingAndDistance`) and the `[&]` lambdas
    are inlined at their call sites (by-reference parameters alias the caller's variables)
  * `bearing_distance(ya, xa, yb, xb, b, d)` -> C05's generated `Gen.Lin.bearingDistance`
  * `while (c) a op= e;`                    -> `Lin.whileLoop` with fuel (`none` when exhausted)
  * `if (c) { a = …; return; }`             -> early result
  * result: `some (mer, pol)`

Tokenizer / expression parser / literal printer are C05's (tools/gen/c05_linearization.py, imported, not edited).
Anything not understood raises TieBroken.  Pure python3 standard library.
"""
import re
from pathlib import Path

try:
    from gen import c05_linearization as L5
except Exception:  # stand-alone use
    import importlib.util, sys
    _p = Path(__file__).resolve().parent / "c05_linearization.py"
    _s = importlib.util.spec_from_file_location("c05_linearization", _p)
    L5 = importlib.util.module_from_spec(_s)
    _s.loader.exec_module(L5)

TieBroken = L5.TieBroken
NAME = "c06_testlin"

# C++ class of the parameter of `visit` -> name of the Lean definition (= constructor of `Lin.Kind`)
CLASSES = {"Distance": "distance", "Direction": "direction", "Angle": "angle", "H_Diff": "h_diff",
           "S_Distance": "s_distance", "Z_Angle": "z_angle", "X": "x", "Y": "y", "Z": "z",
           "Xdiff": "xdiff", "Ydiff": "ydiff", "Zdiff": "zdiff", "Azimuth": "azimuth"}
ROLES = {"from": "pfrom", "to": "pto", "bs": "pto", "fs": "pfs"}
MATH1 = {"sin": "TrigScalar.sin", "cos": "TrigScalar.cos", "acos": "TrigScalar.acos", "sqrt": "Scalar.sqrt"}


def broken(msg):
    raise TieBroken(NAME, msg)


def match_brace(toks, i):
    """toks[i] is '{' -> index just after the matching '}'"""
    depth, j = 0, i
    while j < len(toks):
        depth += (toks[j][1] == "{") - (toks[j][1] == "}")
        j += 1
        if depth == 0:
            return j
    broken("unbalanced braces")


def normalise(toks):
    """token-level rewrites of forms C05's parser does not read: `IS->PD` -> `PD`, `name {0}` -> `name = 0`,
    `GNU_gama::local::` qualifiers dropped"""
    out, i = [], 0
    while i < len(toks):
        t = toks[i][1]
        if t == "GNU_gama" and i + 3 < len(toks) and [x[1] for x in toks[i + 1:i + 4]] == ["::", "local", "::"]:
            i += 4
            continue
        if t == "IS" and i + 2 < len(toks) and toks[i + 1][1] == "->" and toks[i + 2][1] == "PD":
            out.append(("id", "PD"))
            i += 3
            continue
        if toks[i][0] == "id" and i + 3 < len(toks) and toks[i + 1][1] == "{" and toks[i + 2][0] == "num" \
                and toks[i + 3][1] == "}" and out and out[-1][1] in ("double", ","):
            out += [toks[i], ("op", "="), toks[i + 2]]
            i += 4
            continue
        out.append(toks[i])
        i += 1
    return out


def split_lambdas(body):
    """`auto f = [&](const PointID& pid) { … };` taken out of a function body:
    returns (remaining tokens, {f: (pid, parsed body)})"""
    lam, out, i = {}, [], 0
    while i < len(body):
        if body[i][1] == "auto":
            pat = [t for _, t in body[i:i + 13]]
            if len(pat) == 13 and pat[2:4] == ["=", "["] and pat[4:7] == ["&", "]", "("] \
                    and pat[7:10] == ["const", "PointID", "&"] and pat[11:13] == [")", "{"]:
                j = match_brace(body, i + 12)
                if body[j][1] != ";":
                    broken("lambda not terminated by ';'")
                p = L5.P(body[i + 12:j], "lambda " + pat[1])
                st = p.stmt()
                lam[pat[1]] = (pat[10], st[1])
                i = j + 1
                continue
            broken("`auto` declaration that is not a [&](const PointID&) lambda")
        out.append(body[i])
        i += 1
    return out, lam


def functions(toks, cls, what):
    """[(name, param tokens, body tokens)] of `void [cls ::] name ( … ) { … }`"""
    res, i, n = [], 0, len(toks)
    while i < n:
        if toks[i][1] == "void":
            j = i + 1
            if cls:
                if not (j + 1 < n and toks[j][1] == cls and toks[j + 1][1] == "::"):
                    i += 1
                    continue
                j += 2
            if j + 1 < n and toks[j][0] == "id" and toks[j + 1][1] == "(":
                k, depth = j + 2, 1
                while depth:
                    depth += (toks[k][1] == "(") - (toks[k][1] == ")")
                    k += 1
                params = toks[j + 2:k - 1]
                if toks[k][1] == "{":
                    e = match_brace(toks, k)
                    res.append((toks[j][1], params, toks[k:e]))
                    i = e
                    continue
        i += 1
    return res


class Env:
    def __init__(self, parent=None):
        self.parent = parent
        self.vars = {}      # C++ double -> lean name
        self.points = {}    # C++ LocalPoint reference -> role
        self.pids = {}      # C++ PointID parameter -> role
        self.obs = set()    # names of the observation pointer

    def look(self, kind, n):
        e = self
        while e is not None:
            d = getattr(e, kind)
            if n in d:
                return d[n] if isinstance(d, dict) else True
            e = e.parent
        return None


class Gen:
    def __init__(self, fname, helpers):
        self.f = fname
        self.helpers = helpers       # name -> (params, stmts)
        self.lines = []
        self.ind = "  "
        self.assigned = set()        # lean names that hold a value
        self.used = set()            # lean names ever introduced
        self.n = 0
        self.depth = 0

    def bad(self, msg):
        broken(f"{self.f}: {msg}")

    def emit(self, s):
        self.lines.append(self.ind + s)

    def fresh(self, p):
        self.n += 1
        return f"{p}_{self.n}"

    def newvar(self, env, cname):
        ln = "v_" + cname
        if ln in self.used:
            ln = self.fresh("v_" + cname)
        self.used.add(ln)
        env.vars[cname] = ln
        return ln

    # ---- expressions
    def role_of(self, env, e):
        """`obs->from()` / a PointID parameter -> role"""
        if e[0] == "meth" and e[1][0] == "var" and env.look("obs", e[1][1]) and e[2] in ROLES and not e[3]:
            return ROLES[e[2]]
        if e[0] == "var":
            return env.look("pids", e[1])
        return None

    def point(self, env, e):
        if e[0] == "var":
            return env.look("points", e[1])
        if e[0] == "index" and e[1] == ("var", "PD"):
            return self.role_of(env, e[2])
        return None

    def is_int(self, e):
        if e[0] == "num":
            return L5.num_is_int(e[1])
        if e[0] == "un" and e[1] in "+-":
            return self.is_int(e[2])
        if e[0] == "bin" and e[1] in "+-*/":
            return self.is_int(e[2]) and self.is_int(e[3])
        return False

    def var(self, env, n):
        ln = env.look("vars", n)
        if ln is None:
            self.bad(f"unknown identifier {n}")
        if ln not in self.assigned:
            self.bad(f"variable {n} read before assignment")
        return ln

    def ex(self, env, e):
        k = e[0]
        if k == "num":
            return L5.lean_num(e[1])
        if k == "var":
            if e[1] == "M_PI":
                return "(TrigScalar.pi : K)"
            return self.var(env, e[1])
        if k == "un":
            if e[1] == "-":
                return f"(-{self.ex(env, e[2])})"
            if e[1] == "+":
                return self.ex(env, e[2])
            self.bad("'!' in arithmetic")
        if k == "bin" and e[1] in "+-*/":
            if self.is_int(e):
                self.bad("integer arithmetic sub-expression (C++ int semantics not modelled)")
            return f"({self.ex(env, e[2])} {e[1]} {self.ex(env, e[3])})"
        if k == "call":
            fn = e[1][5:] if e[1].startswith("std::") else e[1]
            a = e[2]
            if fn in MATH1 and len(a) == 1:
                return f"({MATH1[fn]} {self.ex(env, a[0])})"
            if fn == "max" and len(a) == 2:
                return f"(Scalar.max {self.ex(env, a[0])} {self.ex(env, a[1])})"
            if fn == "v" and a == [("var", "i")]:
                return "s.v"
            if fn == "x" and len(a) == 1 and a[0][0] == "meth" and not a[0][3]:
                obj, name = a[0][1], a[0][2]
                pt = self.point(env, obj)
                if pt and name in ("index_x", "index_y", "index_z"):
                    return f"(s.x .{pt} .{name[-1]})"
                if obj[0] == "var" and env.look("obs", obj[1]) and name == "index_orientation":
                    return "(s.x .station .ori)"
            self.bad(f"call of {e[1]}/{len(a)}")
        if k == "meth":
            obj, name, args = e[1], e[2], e[3]
            if args:
                self.bad(f"method {name} with arguments in an expression")
            pt = self.point(env, obj)
            if pt and name in ("x", "y", "z"):
                return f"o.{pt}.{name}"
            if obj[0] == "var" and env.look("obs", obj[1]):
                if name == "value":
                    return "o.value"
                if name == "orientation":
                    return "o.orientation"
            self.bad(f"method {name}() on {obj}")
        self.bad(f"expression form {k}")

    def cond(self, env, e):
        k = e[0]
        if k == "bin" and e[1] in ("||", "&&"):
            return f"({self.cond(env, e[2])} {e[1]} {self.cond(env, e[3])})"
        if k == "un" and e[1] == "!":
            return f"(!{self.cond(env, e[2])})"
        if k == "bin" and e[1] in ("<", ">", "<=", ">=", "==", "!="):
            a, b = self.ex(env, e[2]), self.ex(env, e[3])
            return {"<": f"decide ({a} < {b})", ">": f"decide ({b} < {a})",
                    "<=": f"decide ({a} ≤ {b})", ">=": f"decide ({b} ≤ {a})",
                    "==": f"(Scalar.beq {a} {b})", "!=": f"(!Scalar.beq {a} {b})"}[e[1]]
        if k == "meth" and not e[3] and e[2] in ("free_xy", "free_z"):
            pt = self.point(env, e[1])
            if pt:
                return f"o.{pt}.{e[2]}"
        self.bad(f"condition {e}")

    # ---- statements
    def assign_val(self, env, e):
        """`v op= e` -> (lean name, value); chained assignments are not used by the visitor"""
        op, lhs, rhs = e[1], e[2], e[3]
        if lhs[0] != "var" or env.look("vars", lhs[1]) is None:
            self.bad(f"assignment to {lhs}")
        if rhs[0] == "assign":
            self.bad("chained assignment")
        ln = env.look("vars", lhs[1])
        val = self.ex(env, rhs)
        if op != "=":
            val = f"({self.var(env, lhs[1])} {op[0]} {val})"
        return ln, val

    def is_assign(self, s):
        return s[0] == "expr" and s[1][0] == "assign"

    def ends_with_return(self, s):
        body = s[1] if s[0] == "block" else [s]
        return bool(body) and body[-1][0] == "return"

    def result(self, env):
        return f"some ({self.var(env, 'mer')}, {self.var(env, 'pol')})"

    def call(self, env, e):
        name, args = e[1], e[2]
        if name == "bearing_distance" and len(args) == 6:
            ins = [self.ex(env, a) for a in args[:4]]
            outs = args[4:]
            for o_ in outs:
                if o_[0] != "var" or env.look("vars", o_[1]) is None:
                    self.bad("bearing_distance output argument")
            r = self.fresh("bd")
            self.emit(f"let {r} := Gen.Lin.bearingDistance {' '.join(ins)}")
            for o_, proj in zip(outs, ("1", "2")):
                ln = env.look("vars", o_[1])
                self.emit(f"let {ln} : K := {r}.{proj}")
                self.assigned.add(ln)
            return
        if name in self.helpers:
            self.depth += 1
            if self.depth > 4:
                self.bad("helper recursion")
            params, stmts = self.helpers[name]
            if len(params) != len(args):
                self.bad(f"{name}: {len(args)} arguments for {len(params)} parameters")
            inner = Env()
            for (ty, pn), a in zip(params, args):
                if ty == "obs":
                    if not (a[0] == "var" and env.look("obs", a[1])):
                        self.bad(f"{name}: observation argument")
                    inner.obs.add(pn)
                elif ty == "ref":
                    ln = env.look("vars", a[1]) if a[0] == "var" else None
                    if ln is None:
                        self.bad(f"{name}: by-reference argument {a}")
                    inner.vars[pn] = ln
                else:
                    self.bad(f"{name}: parameter kind {ty}")
            self.run(inner, stmts)
            self.depth -= 1
            return
        lam = env.look("pids", "\0lambda:" + name)
        if lam is not None:
            pid, stmts = lam
            if len(args) != 1:
                self.bad(f"lambda {name}: arguments")
            r = self.role_of(env, args[0])
            if not r:
                self.bad(f"lambda {name}: argument is not obs->from()/to()/fs()")
            inner = Env(env)
            inner.pids[pid] = r
            self.run(inner, stmts)
            return
        self.bad(f"call statement {name}")

    def run(self, env, stmts):
        """emit the statements; False when control cannot reach the end"""
        for idx, s in enumerate(stmts):
            k = s[0]
            if k == "block":
                if not self.run(env, s[1]):
                    return False
            elif k == "decl":
                ty, decls = s[1], s[2]
                for name, ref, init in decls:
                    if ty == "double" and not ref:
                        ln = self.newvar(env, name)
                        self.assigned.discard(ln)
                        if init is not None:
                            self.emit(f"let {ln} : K := {self.ex(env, init)}")
                            self.assigned.add(ln)
                    elif ty == "LocalPoint" and ref == "&" and init is not None and self.point(env, init):
                        env.points[name] = self.point(env, init)
                    else:
                        self.bad(f"declaration {ty}{ref} {name}")
            elif k == "expr":
                e = s[1]
                if e[0] == "assign":
                    ln, val = self.assign_val(env, e)
                    self.emit(f"let {ln} : K := {val}")
                    self.assigned.add(ln)
                elif e[0] == "call":
                    self.call(env, e)
                else:
                    self.bad(f"expression statement {e[0]}")
            elif k == "while":
                body = s[2][1] if s[2][0] == "block" else [s[2]]
                if len(body) != 1 or not self.is_assign(body[0]):
                    self.bad("while body is not a single assignment")
                ln, val = self.assign_val(env, body[0][1])
                self.emit(f"match Lin.whileLoop (fun {ln} => {self.cond(env, s[1])}) (fun {ln} => {val}) fuel {ln} with")
                self.emit("| none => none")
                self.emit(f"| some {ln} =>")
            elif k == "if":
                c, th, el = s[1], s[2], s[3]
                if el is not None:
                    self.bad("if/else")
                body = th[1] if th[0] == "block" else [th]
                if self.ends_with_return(th):
                    self.emit(f"if {self.cond(env, c)} then")
                    saved = set(self.assigned)
                    self.ind += "  "
                    self.run(env, body)
                    self.ind = self.ind[:-2]
                    self.assigned = saved
                    self.emit("else")
                elif body and all(self.is_assign(b) for b in body):
                    b = self.fresh("b")
                    self.emit(f"let {b} : Bool := {self.cond(env, c)}")
                    for st in body:
                        ln, val = self.assign_val(env, st[1])
                        if ln not in self.assigned:
                            self.bad("conditional first assignment")
                        self.emit(f"let {ln} : K := if {b} then {val} else {ln}")
                else:
                    self.bad("if body is neither `…; return;` nor plain assignments")
            elif k == "return":
                self.emit(self.result(env))
                return False
            else:
                self.bad(f"statement {k}")
        return True


def parse_params(ptoks, what):
    """[(kind, name)]: kind obs (`const Observation* pm`) | ref (`double& a`)"""
    res, cur = [], []
    for _, t in ptoks + [("op", ",")]:
        if t == ",":
            ty = [w for w in cur[:-1] if w != "const"]
            if ty == ["Observation", "*"]:
                res.append(("obs", cur[-1]))
            elif ty == ["double", "&"]:
                res.append(("ref", cur[-1]))
            else:
                broken(f"{what}: parameter {' '.join(cur)}")
            cur = []
        else:
            cur.append(t)
    return res


HEADER = """/-
  GENERATED by tools/gen/c06_testlin.py — do not edit.
  Source: lib/gnu_gama/local/test_linearization_visitor.cpp, test_linearization_visitor.h
          (computeFromTo, computeBearingAndDistance), float.h (CC2R, R2CC, M_PI)
  One definition per `TestLinearizationVisitor::visit(<Class>*)`, on the record `Lin.Obs` the generated
  linearisation reads; `s.x role coord` is `x(P.index_coord())` (`.station .ori`: `x(obs->index_orientation())`),
  `s.v` is `v(i)`; helpers and lambdas are inlined; the result is `(mer, pol)`, `none` = a `while` did not
  end within `fuel` turns.
-/
import Gama.Gen.Linearization
set_option linter.unusedVariables false
namespace Gama.Gen.TestLin
open Gama Gama.Lin

/-- what a visit reads of the adjustment: the corrections of the unknowns its points / its stand-point own,
    and its own residual -/
structure Sol (K : Type) where
  x : Role → Coord → K
  v : K

"""


def translate_text(repo, lean_dir=None):
    loc = Path(repo) / "lib" / "gnu_gama" / "local"
    try:
        src = (loc / "test_linearization_visitor.cpp").read_text()
        hsrc = (loc / "test_linearization_visitor.h").read_text()
        fsrc = (loc / "float.h").read_text()
        bh = (loc / "bearing.h").read_text()
    except OSError as e:
        broken(f"cannot read sources: {e}")
    macros, _ = L5.read_macros(fsrc)
    for need in ("CC2R", "R2CC"):
        if need not in macros:
            broken(f"float.h: macro {need} missing")
    # the scalar overload of bearing_distance is the one C05 generates as Gen.Lin.bearingDistance
    if not re.search(r"void\s+bearing_distance\(\s*double\s+ya\s*,\s*double\s+xa\s*,\s*double\s+yb\s*,\s*double\s+xb\s*,"
                     r"\s*double\s*&\s*\w+\s*,\s*double\s*&\s*\w+\s*\)", L5.strip_comments(bh)):
        broken("bearing.h: bearing_distance(ya, xa, yb, xb, b&, d&) not found")
    if lean_dir is not None:
        g5 = Path(lean_dir) / "Gama" / "Gen" / "Linearization.lean"
        if g5.exists() and "def bearingDistance {K : Type} [TrigScalar K] (v_ya : K) (v_xa : K) (v_yb : K) (v_xb : K) : K × K" \
                not in g5.read_text():
            broken("Gen/Linearization.lean: bearingDistance has an unexpected signature")

    def prep(text, what):
        text = L5.strip_comments(re.sub(r"^\s*#.*$", "", text, flags=re.M))
        return normalise(L5.expand(L5.tokenize(text, what), macros))

    # header: the private helpers of class TestLinearizationVisitor
    h = L5.strip_comments(hsrc)
    m = re.search(r"class\s+TestLinearizationVisitor\b.*?\n\};", h, re.S)
    if not m:
        broken("test_linearization_visitor.h: class TestLinearizationVisitor not found")
    cls = m.group(0)
    for member in (r"const\s+GNU_gama::local::Vec&\s+v;", r"const\s+GNU_gama::local::Vec&\s+x;", r"double\s+pol;", r"double\s+mer;",
                   r"double\s+getPol\(\)\s*\{\s*return\s+pol;\s*\}"):
        if not re.search(member, cls):
            broken(f"test_linearization_visitor.h: member {member} not found")
    if not re.search(r":\s*IS\(localNetwork\),\s*v\(residuals\),\s*x\(unknowns\)", cls):
        broken("test_linearization_visitor.h: constructor no longer stores (network, residuals, unknowns)")
    helpers = {}
    for name, params, body in functions(prep(cls, "test_linearization_visitor.h"), None, "header"):
        if name == "setObservationIndex":
            continue
        if name == "visit":
            broken("test_linearization_visitor.h: a visit() is defined in the header")
        rest, lam = split_lambdas(body)
        if lam:
            broken(f"{name}: lambda in a helper")
        helpers[name] = (parse_params(params, name), L5.P(rest, name).stmt()[1])
    for need in ("computeFromTo", "computeBearingAndDistance"):
        if need not in helpers:
            broken(f"test_linearization_visitor.h: helper {need} not found")

    # the visits
    toks = prep(src, "test_linearization_visitor.cpp")
    out, seen = [HEADER], {}
    for name, params, body in functions(toks, "TestLinearizationVisitor", "cpp"):
        if name != "visit":
            broken(f"unexpected member function {name}")
        p = [t for _, t in params]
        if not (len(p) in (2, 3) and p[1] == "*" and p[0] in CLASSES and (len(p) == 2 or p[2] == "obs")):
            broken(f"visit({' '.join(p)})")
        lname = CLASSES[p[0]]
        if lname in seen:
            broken(f"two visits of {p[0]}")
        rest, lam = split_lambdas(body)
        g = Gen(f"visit({p[0]}*)", helpers)
        env = Env()
        if len(p) == 3:
            env.obs.add("obs")
        for member in ("mer", "pol"):          # data members of the visitor, written by every visit
            g.newvar(env, member)
        for f, v in lam.items():
            env.pids["\0lambda:" + f] = v
        if g.run(env, L5.P(rest, g.f).stmt()[1]):
            g.emit(g.result(env))
        seen[lname] = p[0]
        out.append(f"/-- `TestLinearizationVisitor::visit({p[0]}*)` -/\n"
                   f"def {lname} {{K : Type}} [TrigScalar K] (fuel : Nat) (o : Obs K) (s : Sol K) : Option (K × K) :=\n"
                   + "\n".join(g.lines) + "\n")
    if sorted(seen) != sorted(CLASSES.values()):
        broken(f"visits found: {sorted(seen.values())}")
    out.append("/-- the acyclic visitor's dispatch: `pm->accept(&testVisitor)` by class name -/\n"
               "def visit {K : Type} [TrigScalar K] : String → Option (Nat → Obs K → Sol K → Option (K × K))\n" +
               "".join(f'  | "{c}" => some {f}\n' for f, c in seen.items()) + "  | _ => none\n")

    # TestLinearization(): the facts the hand-written loop model (Model/TestLinearization.lean) relies on
    t = L5.strip_comments(src)
    m = re.search(r"bool\s+GNU_gama::local::TestLinearization\(.*?\n\}", t, re.S)
    if not m:
        broken("TestLinearization() not found")
    f = re.sub(r"\s+", " ", m.group(0))
    facts = [
        (r"const Vec& v = IS->residuals\(\); const Vec& x = IS->solve\(\); const int M = IS->observations_count\(\);",
         "residuals(), solve(), then observations_count() (fix 1f509bf)"),
        (r"TestLinearizationVisitor testVisitor\(IS, v, x\);", "visitor built from (IS, v, x)"),
        (r"for \(int i=1; i<=M; i\+\+\)", "loop i = 1..M"),
        (r"if \(dynamic_cast<const Coordinates\*>\(pm->ptr_cluster\(\)\)\) \{ dif_m\(i\) = dif_p\(i\) = 0; continue; \}",
         "Coordinates cluster: 0"),
        (r"testVisitor\.setObservationIndex\(i\); pm->accept\(&testVisitor\);", "visit of observation i"),
        (r"pol = testVisitor\.getPol\(\);", "pol read back"),
        (r"dif_p\(i\) = pol;", "dif_p(i) = pol"),
        (r"double max_pol = 0; \{ for \(Vec::iterator i=dif_p\.begin\(\); i != dif_p\.end\(\); \+\+i\) if \(fabs\(\*i\) > max_pol\) "
         r"max_pol = fabs\(\*i\); \} if \(max_pol >= max_dif\) test = true;", "max |pol| >= max_dif"),
    ]
    for pat, what in facts:
        if not re.search(pat, f):
            broken(f"TestLinearization(): {what} — shape changed")
    out.append("/-- shape of `TestLinearization()` checked by the translator (the loop itself is hand-modelled in\n"
               "    `Model/TestLinearization.lean`): " + "; ".join(w for _, w in facts) + " -/\n"
               "def testLinearizationShapeChecked : Bool := true\n")
    out.append("end Gama.Gen.TestLin\n")
    return "\n".join(out)


# ------------------------------------------------------------------ refine_obsdh_reductions / refine_adjustment
#
#   bool refine_obsdh_reductions(LocalNetwork* IS, bool adjusted)   (test_linearization_visitor.cpp)
#   bool LocalNetwork::refine_adjustment()                           (network.cpp)
#        ->  lean/Gama/Gen/RefineObsdh.lean
#
# The arithmetic (the `coordinates` lambda with the `adjusted` flag, the two tolerances, the S_Distance and the Z_Angle
# branch from the two `continue` guards to the two decisions `store` / `ask`) is translated expression by expression;
# the skeleton around it (the loop over IS->OD, the dynamic_cast dispatch, what the two `if` bodies do, the tail
# `if (changed) IS->update_residuals(); return status;`) and the loop of refine_adjustment are matched textually and
# emitted as data (`refineTests`).  Anything else raises TieBroken.

OBS_FIELDS = {"from_dh": "o.from_dh", "to_dh": "o.to_dh", "reduction": "o.reduction"}


class DhGen:
    """straight-line C++ (doubles) -> Lean `let`s"""

    def __init__(self, what, consts=()):
        self.what = what
        self.lines = []
        self.ind = "  "
        self.vars = {}          # C++ double -> lean name (assigned)
        self.declared = set()   # declared, not yet assigned
        self.points = {}        # C++ LocalPoint variable -> lean term of type DhPt K
        self.obs = None         # name of the observation pointer
        self.consts = set(consts)
        self.n = 0

    def bad(self, msg):
        broken(f"{self.what}: {msg}")

    def emit(self, s_):
        self.lines.append(self.ind + s_)

    def is_int(self, e):
        if e[0] == "num":
            return L5.num_is_int(e[1])
        if e[0] == "un" and e[1] in "+-":
            return self.is_int(e[2])
        if e[0] == "bin" and e[1] in "+-*/":
            return self.is_int(e[2]) and self.is_int(e[3])
        return False

    def ex(self, e):
        k = e[0]
        if k == "num":
            return L5.lean_num(e[1])
        if k == "var":
            n = e[1]
            if n == "M_PI":
                return "(TrigScalar.pi : K)"
            if n in self.consts:
                return f"({n} : K)"
            if n in self.vars:
                return self.vars[n]
            self.bad(f"identifier {n} read before assignment / unknown")
        if k == "un" and e[1] in "+-":
            return f"(-{self.ex(e[2])})" if e[1] == "-" else self.ex(e[2])
        if k == "bin" and e[1] in "+-*/":
            if self.is_int(e):
                self.bad("integer arithmetic sub-expression (C++ int semantics not modelled)")
            return f"({self.ex(e[2])} {e[1]} {self.ex(e[3])})"
        if k == "call":
            fn = e[1][5:] if e[1].startswith("std::") else e[1]
            a = e[2]
            if fn == "sqrt" and len(a) == 1:
                return f"(Scalar.sqrt {self.ex(a[0])})"
            if fn == "abs" and len(a) == 1:
                return f"(Scalar.abs {self.ex(a[0])})"
            if fn == "atan2" and len(a) == 2:
                return f"(TrigScalar.atan2 {self.ex(a[0])} {self.ex(a[1])})"
            if fn == "x" and len(a) == 1 and a[0][0] == "meth" and not a[0][3] and a[0][1][0] == "var" \
                    and a[0][1][1] in self.points and a[0][2] in ("index_x", "index_y", "index_z"):
                return f"(x {self.points[a[0][1][1]]}.i{a[0][2][-1]})"
            self.bad(f"call of {e[1]}/{len(a)}")
        if k == "meth" and not e[3] and e[1][0] == "var":
            obj, name = e[1][1], e[2]
            if obj in self.points and name in ("x", "y", "z"):
                return f"{self.points[obj]}.pt.{name}"
            if obj == self.obs and name in OBS_FIELDS:
                return OBS_FIELDS[name]
        self.bad(f"expression {e}")

    def cond(self, e):
        k = e[0]
        if k == "bin" and e[1] in ("||", "&&"):
            return f"({self.cond(e[2])} {e[1]} {self.cond(e[3])})"
        if k == "un" and e[1] == "!":
            return f"(!{self.cond(e[2])})"
        if k == "var" and e[1] == "adjusted":
            return "adjusted"
        if k == "bin" and e[1] in ("<", ">", "<=", ">=", "==", "!="):
            a, b = self.ex(e[2]), self.ex(e[3])
            return {"<": f"decide ({a} < {b})", ">": f"decide ({b} < {a})",
                    "<=": f"decide ({a} ≤ {b})", ">=": f"decide ({b} ≤ {a})",
                    "==": f"(Scalar.beq {a} {b})", "!=": f"(!Scalar.beq {a} {b})"}[e[1]]
        if k == "meth" and not e[3] and e[1][0] == "var" and e[1][1] in self.points:
            pt, name = self.points[e[1][1]], e[2]
            if name in ("free_xy", "free_z"):
                return f"{pt}.pt.{name}"
            if name in ("index_x", "index_y", "index_z"):      # int used as a condition
                return f"({pt}.i{name[-1]} != 0)"
            if name == "test_xyz":
                return f"{pt}.xyz"
        self.bad(f"condition {e}")

    def assign(self, e):
        op, lhs, rhs = e[1], e[2], e[3]
        if lhs[0] != "var" or (lhs[1] not in self.vars and lhs[1] not in self.declared):
            self.bad(f"assignment to {lhs}")
        n = lhs[1]
        val = self.ex(rhs)
        if op != "=":
            if n not in self.vars:
                self.bad(f"{n} {op} before assignment")
            val = f"({self.vars[n]} {op[0]} {val})"
        return n, val

    def let(self, n, val):
        self.emit(f"let v_{n} : K := {val}")
        self.vars[n] = f"v_{n}"
        self.declared.discard(n)

    def decl(self, s_):
        ty, decls = s_[1], s_[2]
        if ty != "double":
            self.bad(f"declaration of type {ty}")
        for name, ref, init in decls:
            if ref:
                self.bad(f"reference declaration {name}")
            if init is None:
                self.declared.add(name)
                self.vars.pop(name, None)
            else:
                self.let(name, self.ex(init))

    def cond_assigns(self, c, body):
        """`if (c) { a op= e; … }` -> conditional lets"""
        self.n += 1
        b = f"b_{self.n}"
        self.emit(f"let {b} : Bool := {self.cond(c)}")
        for st in body:
            if not (st[0] == "expr" and st[1][0] == "assign"):
                self.bad("conditional body is not plain assignments")
            n, val = self.assign(st[1])
            if n not in self.vars:
                self.bad("conditional first assignment")
            self.emit(f"let v_{n} : K := if {b} then {val} else v_{n}")


def _stmts(text, what, macros):
    toks = normalise(L5.expand(L5.tokenize(text, what), macros))
    return L5.P([("op", "{")] + toks + [("op", "}")], what).stmt()[1]


def _body(st):
    return st[1] if st[0] == "block" else [st]


def gen_coordinates(text, macros):
    g = DhGen("refine_obsdh_reductions: lambda coordinates")
    stmts = _stmts(text, g.what, macros)
    outs = ("px", "py", "pz")
    for o_ in outs:
        g.declared.add(o_)
    result = lambda: "(" + ", ".join(g.vars.get(o_) or g.bad(f"{o_} unassigned") for o_ in outs) + ")"
    done = False
    for st in stmts:
        if done:
            g.bad("statement after the end")
        if st[0] == "decl" and st[1] == "LocalPoint" and len(st[2]) == 1 and st[2][0][1] == "&" \
                and st[2][0][2] == ("index", ("var", "PD"), ("var", "id")):
            g.points[st[2][0][0]] = "p"
        elif st[0] == "expr" and st[1][0] == "assign":
            n, val = g.assign(st[1])
            g.let(n, val)
        elif st[0] == "if" and st[3] is None and _body(st[2]) == [("return",)]:
            g.emit(f"if {g.cond(st[1])} then {result()} else")
        elif st[0] == "if" and st[3] is None:
            g.cond_assigns(st[1], _body(st[2]))
        else:
            g.bad(f"statement {st[0]}")
    g.emit(result())
    return ("/-- the lambda `coordinates(id, px, py, pz)`: the coordinates of `IS->PD[id]`, plus `x(index)/1000` of the\n"
            "    adjustment when `adjusted` and the point is free with a non-zero index -/\n"
            "def coordinates {K : Type} [TrigScalar K] (adjusted : Bool) (x : Nat → K) (p : DhPt K) : K × K × K :=\n"
            + "\n".join(g.lines) + "\n")


def gen_branch(name, cls, ptr, tol, text, macros, doc):
    g = DhGen(f"refine_obsdh_reductions: {cls} branch", consts=("linear_tol", "angular_tol"))
    g.obs = ptr
    # `auto from = IS->PD[ptr->from()]; auto to = IS->PD[ptr->to()];` (copies of the two points)
    for var, role in (("from", "pfrom"), ("to", "pto")):
        pat = rf"auto\s+{var}\s*=\s*IS->PD\[{ptr}->{var}\(\)\];"
        if len(re.findall(pat, text)) != 1:
            g.bad(f"`auto {var} = IS->PD[{ptr}->{var}()];` not found")
        text = re.sub(pat, "", text)
        g.points[var] = f"o.{role}"
    stmts = _stmts(text, g.what, macros)
    store = ask = recomputed = None
    for st in stmts:
        if ask is not None:
            g.bad("statement after the `status` decision")
        if st[0] == "if" and st[3] is None and _body(st[2]) == [("expr", ("var", "continue"))]:
            if g.vars:
                g.bad("`continue` after arithmetic")
            g.emit(f"if {g.cond(st[1])} then none else")
        elif st[0] == "decl":
            g.decl(st)
        elif st[0] == "expr" and st[1][0] == "assign":
            n, val = g.assign(st[1])
            g.let(n, val)
        elif st[0] == "expr" and st[1][0] == "call" and st[1][1] == "coordinates" and len(st[1][2]) == 4:
            a = st[1][2]
            if not (a[0][0] == "meth" and a[0][1] == ("var", ptr) and a[0][2] in ("from", "to") and not a[0][3]):
                g.bad("coordinates(): first argument")
            g.n += 1
            c = f"c_{g.n}"
            g.emit(f"let {c} := coordinates adjusted x o.p{a[0][2]}")
            for o_, proj in zip(a[1:], ("1", "2.1", "2.2")):
                if o_[0] != "var" or o_[1] not in g.declared | set(g.vars):
                    g.bad("coordinates(): output argument")
                g.let(o_[1], f"{c}.{proj}")
        elif st[0] == "if" and st[3] is None and store is None:
            body = _body(st[2])
            if not (len(body) == 2 and body[0][0] == "expr" and body[0][1][0] == "meth" and body[0][1][1] == ("var", ptr)
                    and body[0][1][2] == "set_reduction_dh" and len(body[0][1][3]) == 1 and body[0][1][3][0][0] == "var"
                    and body[1] == ("expr", ("assign", "=", ("var", "changed"), ("var", "true")))):
                g.bad("the body of the first decision is not `{ set_reduction_dh(<recomputed>); changed = true; }`")
            recomputed = g.ex(body[0][1][3][0])
            store = g.cond(st[1])
        elif st[0] == "if" and st[3] is None:
            if _body(st[2]) != [("expr", ("assign", "=", ("var", "status"), ("var", "true")))]:
                g.bad("the body of the second decision is not `status = true;`")
            ask = g.cond(st[1])
            if f"({tol} : K)" not in ask:
                g.bad(f"the second decision does not compare with {tol}")
        else:
            g.bad(f"statement {st}")
    if store is None or ask is None:
        g.bad("decisions `store` / `ask` not found")
    g.emit(f"some ({recomputed}, {store}, {ask})")
    return (f"/-- {doc} -/\n"
            f"def {name} {{K : Type}} [TrigScalar K] (adjusted : Bool) (x : Nat → K) (o : DhObs K) : Option (K × Bool × Bool) :=\n"
            + "\n".join(g.lines) + "\n")


OBSDH_HEADER = """/-
  GENERATED by tools/gen/c06_testlin.py — do not edit.
  Source: lib/gnu_gama/local/test_linearization_visitor.cpp (`refine_obsdh_reductions`), test_linearization_visitor.h
          (default `adjusted=false`), network.cpp (`LocalNetwork::refine_adjustment`), network.h (iteration counter)
  `coordinates`, `linear_tol`, `angular_tol`, `slopeBranch`, `zenithBranch` are translated expression by expression;
  a branch returns `none` for `continue` and `some (recomputed reduction, store, ask)` otherwise, where
  `store` = the condition under which `set_reduction_dh(recomputed); changed = true;` run and
  `ask`   = the condition under which `status = true;` runs.  The skeleton (loop over `IS->OD`, dispatch by
  `dynamic_cast`, `if (changed) IS->update_residuals(); return status;`) is matched textually; the loop itself is
  hand-modelled in `Model/RefineAdjustment.lean`.
-/
import Gama.Model.LinTypes
set_option linter.unusedVariables false
namespace Gama.Gen.Obsdh
open Gama Gama.Lin

/-- what `refine_obsdh_reductions` reads of a `LocalPoint`: coordinates and `free_xy()` / `free_z()` (`pt`),
    `index_x()`, `index_y()`, `index_z()`, `test_xyz()` -/
structure DhPt (K : Type) where
  pt : Pt K
  ix : Nat
  iy : Nat
  iz : Nat
  xyz : Bool

/-- what it reads of a `S_Distance` / `Z_Angle`: the two points, `from_dh()`, `to_dh()`, `reduction()` -/
structure DhObs (K : Type) where
  pfrom : DhPt K
  pto : DhPt K
  from_dh : K
  to_dh : K
  reduction : K

/-- the tests of one turn of the loop of `refine_adjustment` -/
inductive Test where
  /-- `refine_obsdh_reductions(this, adjusted)` -/
  | obsdh (adjusted : Bool)
  /-- `TestLinearization(this)` -/
  | testLin
deriving DecidableEq, Repr

"""


def translate_obsdh_text(repo):
    loc = Path(repo) / "lib" / "gnu_gama" / "local"
    try:
        src = L5.strip_comments((loc / "test_linearization_visitor.cpp").read_text())
        hsrc = L5.strip_comments((loc / "test_linearization_visitor.h").read_text())
        nsrc = L5.strip_comments((loc / "network.cpp").read_text())
        nh = L5.strip_comments((loc / "network.h").read_text())
        fsrc = (loc / "float.h").read_text()
    except OSError as e:
        broken(f"cannot read sources: {e}")
    macros, _ = L5.read_macros(fsrc)
    if not re.search(r"bool\s+refine_obsdh_reductions\(GNU_gama::local::LocalNetwork\*\s*IS,\s*bool\s+adjusted\s*=\s*false\);", hsrc):
        broken("test_linearization_visitor.h: `bool refine_obsdh_reductions(LocalNetwork* IS, bool adjusted=false);` not found")
    m = re.search(r"bool\s+GNU_gama::local::refine_obsdh_reductions\(GNU_gama::local::LocalNetwork\*\s*IS,\s*bool\s+adjusted\)\s*\{(.*?)\n\}",
                  src, re.S)
    if not m:
        broken("refine_obsdh_reductions(LocalNetwork* IS, bool adjusted) not found")
    f = re.sub(r"\s+", " ", m.group(1)).strip()
    shape = re.fullmatch(
        r"bool status = false; bool changed = false; "
        r"const double angular_tol = (?P<atol>[^;]+); const double linear_tol = (?P<ltol>[^;]+); "
        r"Vec x; if \(adjusted\) x = IS->solve\(\); "
        r"auto coordinates = \[&\]\(const PointID& id, double& px, double& py, double& pz\) \{ (?P<lam>.*?) \}; "
        r"auto biter = IS->OD\.begin\(\); auto eiter = IS->OD\.end\(\); "
        r"for \(auto observation=biter; observation!=eiter; observation\+\+\) \{ "
        r"using GNU_gama::local::S_Distance; using GNU_gama::local::Z_Angle; "
        r"if \(S_Distance\* (?P<sp>\w+) = dynamic_cast<S_Distance\*>\(\*observation\)\) \{ (?P<sb>.*?) \} "
        r"else if \(Z_Angle\* (?P<zp>\w+) = dynamic_cast<Z_Angle\*>\(\*observation\)\) \{ (?P<zb>.*) \} \} "
        r"if \(changed\) IS->update_residuals\(\); return status;", f)
    if not shape:
        broken("refine_obsdh_reductions: skeleton changed (declarations, `if (adjusted) x = IS->solve()`, lambda, loop over "
               "IS->OD, dispatch S_Distance / Z_Angle, `if (changed) IS->update_residuals(); return status;`)")
    out = [OBSDH_HEADER]
    for name, key, doc in (("angular_tol", "atol", "0.1 cc in radians"), ("linear_tol", "ltol", "1 mm / 1e3 = 1 µm in metres")):
        g = DhGen(name)
        e = L5.P(normalise(L5.expand(L5.tokenize(shape.group(key), name), macros)) + [("op", ";")], name).expr()
        out.append(f"/-- `{name}` ({doc}) -/\ndef {name} {{K : Type}} [TrigScalar K] : K := {g.ex(e)}\n")
    out.append(gen_coordinates(shape.group("lam"), macros))
    out.append(gen_branch("slopeBranch", "S_Distance", shape.group("sp"), "linear_tol", shape.group("sb"), macros,
                          "the `S_Distance` branch of the loop body"))
    out.append(gen_branch("zenithBranch", "Z_Angle", shape.group("zp"), "angular_tol", shape.group("zb"), macros,
                          "the `Z_Angle` branch of the loop body"))

    # LocalNetwork::refine_adjustment
    m = re.search(r"bool\s+LocalNetwork::refine_adjustment\(\)\s*\{(.*?)\n\}", nsrc, re.S)
    if not m:
        broken("LocalNetwork::refine_adjustment() not found")
    f = re.sub(r"\s+", " ", m.group(1)).strip()
    loop = re.fullmatch(
        r"clear_linearization_iterations\(\); while \(next_linearization_iterations\(\)\) \{ "
        r"bool refine = (?P<t0>[^;]+);(?P<rest>(?: if \(!refine\) refine = [^;]+;)*) "
        r"if \(!refine\) break; increment_linearization_iterations\(\); refine_approx_coordinates\(\); \} "
        r"return linearization_iterations\(\) > 0;", f)
    if not loop:
        broken("LocalNetwork::refine_adjustment(): shape of the loop changed")
    calls = [loop.group("t0")] + re.findall(r"if \(!refine\) refine = ([^;]+);", loop.group("rest"))
    tests = []
    for c in calls:
        c = c.strip()
        if c == "TestLinearization(this)":
            tests.append(".testLin")
        elif c in ("refine_obsdh_reductions(this)", "refine_obsdh_reductions(this, false)"):
            tests.append(".obsdh false")
        elif c == "refine_obsdh_reductions(this, true)":
            tests.append(".obsdh true")
        else:
            broken(f"LocalNetwork::refine_adjustment(): unknown test `{c}`")
    for pat, what in ((r"int clear_linearization_iterations\(\) \{ return \(iterations_ = 0\); \}", "clear"),
                      (r"int increment_linearization_iterations\(\) \{ return \+\+iterations_; \}", "increment"),
                      (r"bool next_linearization_iterations\(\) const \{ return iterations_ < max_linearization_iterations_; ?\}", "next"),
                      (r"int linearization_iterations\(\) const \{ return iterations_; \}", "read")):
        if not re.search(pat, re.sub(r"\s+", " ", nh)):
            broken(f"network.h: iteration counter ({what}) changed")
    out.append("/-- the tests of one turn of `LocalNetwork::refine_adjustment()` in program order:\n"
               "    `bool refine = t0; if (!refine) refine = t1; …; if (!refine) break;\n"
               "     increment_linearization_iterations(); refine_approx_coordinates();` inside\n"
               "    `clear_linearization_iterations(); while (iterations_ < max_linearization_iterations_) { … }` -/\n"
               "def refineTests : List Test := [" + ", ".join(tests) + "]\n")
    out.append("end Gama.Gen.Obsdh\n")
    return "\n".join(out)


def translate(repo, lean_dir):
    text = translate_text(repo, lean_dir)
    dst = Path(lean_dir) / "Gama" / "Gen" / "TestLinVisitor.lean"
    dst.parent.mkdir(parents=True, exist_ok=True)
    if not dst.exists() or dst.read_text() != text:
        dst.write_text(text)
    text2 = translate_obsdh_text(repo)
    dst2 = Path(lean_dir) / "Gama" / "Gen" / "RefineObsdh.lean"
    if not dst2.exists() or dst2.read_text() != text2:
        dst2.write_text(text2)
    return dst


if __name__ == "__main__":
    import sys
    r = sys.argv[1] if len(sys.argv) > 1 else "/repo"
    if len(sys.argv) > 2 and sys.argv[2] == "obsdh":
        print(translate_obsdh_text(r))
    else:
        print(translate_text(r))
