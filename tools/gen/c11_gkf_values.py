#!/usr/bin/env python3
"""
C11 translator, second table: lib/gnu_gama/xml/gkfparser.cpp (+ local/observation.h, xsd.h)
    ->  lean/Gama/Gen/GkfValueChecks.lean

For every `process_*` handler and every attribute it compares, WHICH check the code applies to the value:

    free                      stored / handed on as a string, never converted
    enum [..]                 `if (val == "a") .. else if (val == "b") .. else [return] error(..)`
    num conv range            conv  = dbl (toDouble) | int (toInteger) | index (toIndex) | angle (deg2gon, else toDouble)
                              range = any | pos (`<= 0` refused) | nonneg (`< 0` refused) | open01 (`<= 0 || >= 1` refused)
                                      | ge1 (`< 1` refused) | other comparisons are emitted as they are written (leOne …)
    words n conv              at most n blank separated words, each converted (distance-stdev)

plus, per handler: attribute -> local variable (`bindVar`), initial value of the variables that do not start empty
(`varInit`: a literal or the members standpoint_id / pp_id), `if (v == "") return error` (`requiredVars`),
`if (a != "" && b == "") return error` (`requiredPairs`), what the constructors called in the try block refuse
(`crossRules`, read from observation.h: `d <= 0`, `s == f`, and `iband >= idim` of process_cov), the variables that reach a
numeric conversion (`numericSinks`) and what the handler does to the parser's members that later checks read
(`effects`: standpoint_id, idim/iband, a new cluster, the number of observation_list.push_back).

The body of every handler is parsed statement by statement (if / else / while / try / block / simple statement);
every statement must match one of the shapes listed here, otherwise TieBroken — nothing is guessed.  In particular
an attribute chain must end in `else return error(..)`, a converted variable must be converted exactly once, and a
string variable that is neither converted nor handed to a constructor / setter is reported.
Python 3 standard library only.
"""
import re
from pathlib import Path

NAME = "c11_gkf_values"


class _Fail(Exception):
    pass


TieBroken = strip_comments = match_brace = None          # set by c11_gkf_automaton


def fail(msg):
    raise TieBroken(NAME, msg)


# ------------------------------------------------------------------ statement parser

def norm(s):
    """collapse white space; no blanks around punctuation; string/char literals verbatim"""
    out, i, n = [], 0, len(s)
    while i < n:
        c = s[i]
        if c in "\"'":
            j = i + 1
            while j < n and s[j] != c:
                j += 2 if s[j] == "\\" else 1
            out.append(s[i:j + 1])
            i = j + 1
        elif c.isspace():
            out.append(" ")
            while i < n and s[i].isspace():
                i += 1
        else:
            out.append(c)
            i += 1
    t = "".join(out).strip()
    # remove blanks next to punctuation (outside literals)
    res, i, n = [], 0, len(t)
    while i < n:
        c = t[i]
        if c in "\"'":
            j = i + 1
            while j < n and t[j] != c:
                j += 2 if t[j] == "\\" else 1
            res.append(t[i:j + 1])
            i = j + 1
            continue
        if c == " ":
            prev = res[-1][-1] if res else ""
            nxt = t[i + 1] if i + 1 < n else ""
            if (prev.isalnum() or prev == "_") and (nxt.isalnum() or nxt == "_"):
                res.append(" ")
            i += 1
            continue
        res.append(c)
        i += 1
    return "".join(res)


def _skip_lit(s, i):
    q = s[i]
    j = i + 1
    while j < len(s) and s[j] != q:
        j += 2 if s[j] == "\\" else 1
    return j + 1


def _match(s, i, op, cl):
    d, n = 0, len(s)
    while i < n:
        c = s[i]
        if c in "\"'":
            i = _skip_lit(s, i)
            continue
        if c == op:
            d += 1
        elif c == cl:
            d -= 1
            if d == 0:
                return i
        i += 1
    fail("unbalanced " + op + cl)


def _ws(s, i):
    while i < len(s) and s[i].isspace():
        i += 1
    return i


_KW = re.compile(r"(if|while|catch)\s*\(")


def parse_stmt(s, i):
    i = _ws(s, i)
    if s[i] == "{":
        j = _match(s, i, "{", "}")
        return ("block", parse_stmts(s[i + 1:j])), j + 1
    m = _KW.match(s, i)
    if m and (i == 0 or not (s[i - 1].isalnum() or s[i - 1] == "_")):
        kw = m.group(1)
        k = _match(s, m.end() - 1, "(", ")")
        cond = norm(s[m.end():k])
        body, j = parse_stmt(s, k + 1)
        if kw == "if":
            j2 = _ws(s, j)
            if s.startswith("else", j2) and not (s[j2 + 4:j2 + 5].isalnum() or s[j2 + 4:j2 + 5] == "_"):
                els, j = parse_stmt(s, j2 + 4)
                return ("if", cond, body, els), j
            return ("if", cond, body, None), j
        if kw == "while":
            return ("while", cond, body), j
        fail("catch without try")
    if re.match(r"try\b", s[i:]):
        body, j = parse_stmt(s, i + 3)
        j = _ws(s, j)
        m = _KW.match(s, j)
        if not m or m.group(1) != "catch":
            fail("try without catch")
        k = _match(s, m.end() - 1, "(", ")")
        h, j = parse_stmt(s, k + 1)
        return ("try", body, h), j
    if re.match(r"(else|switch|for|do)\b", s[i:]):
        fail("unsupported statement: " + s[i:i + 40])
    j, d = i, 0
    while j < len(s):
        c = s[j]
        if c in "\"'":
            j = _skip_lit(s, j)
            continue
        if c in "([":
            d += 1
        elif c in ")]":
            d -= 1
        elif c == ";" and d == 0:
            break
        elif c in "{}":
            fail("brace inside a simple statement: " + s[i:j + 1][:60])
        j += 1
    if j >= len(s):
        fail("statement without ';': " + s[i:i + 60])
    return ("simple", norm(s[i:j])), j + 1


def parse_stmts(s):
    out, i = [], 0
    while True:
        i = _ws(s, i)
        if i >= len(s):
            return out
        node, i = parse_stmt(s, i)
        if node == ("simple", ""):
            continue
        out.append(node)


def flat(node):
    """statement -> list of statements (a block is its content)"""
    if node is None:
        return []
    if node[0] == "block":
        out = []
        for x in node[1]:
            out += flat(x) if x[0] == "block" else [x]
        return out
    return [node]


def is_ret_error(node):
    f = flat(node)
    return len(f) == 1 and f[0][0] == "simple" and re.fullmatch(r"return error\(.*\)", f[0][1]) is not None


def is_error_call(node):
    f = flat(node)
    return len(f) == 1 and f[0][0] == "simple" and re.fullmatch(r"error\(.*\)", f[0][1]) is not None


# ------------------------------------------------------------------ handler analysis

ATTR_NAME_VARS = ("nam", "jmeno")
ATTR_VAL_VARS = ("val", "hodnota")
MEMBERS = ("standpoint_id", "pp_id")
CONV_FUN = {"toDouble": "dbl", "toInteger": "int", "toIndex": "index"}
ID = r"[A-Za-z_]\w*"

# simple statements that neither check nor consume an attribute value
IGNORED_SIMPLE = [
    r"state=state_\w+", r"return 0", r"lnet\.clear_nullable_data\(\)", r"obs_from_dh=0",
    r"bool degrees=false", r"degrees=true", r"(double|int) " + ID + r"(," + ID + r")*",
    r"double " + ID + r"=(0|obs_from_dh|implicit_stdev_\w+\((\w*)\)|lnet\.apriori_m_0\(\)\*sqrt\(\w+\))",
    r"standpoint->station=standpoint_id", r"OD\.clusters\.push_back\(\w+\)",
    r"sigma\.push_back\(DB_pair\(\w+,(false|degrees)\)\)",
    r"LocalCoordinateSystem::CS&lcs=SB\.local_coordinate_system",
    r"pp_[xyz]=d[xyz]", r"pp_(xy|z)def=true",
]
IGNORED_RE = [re.compile(x) for x in IGNORED_SIMPLE]
NEW_CLUSTER = re.compile(r"(standpoint|coordinates|heightdifferences|vectors)=new (StandPoint|Coordinates|HeightDifferences|Vectors)\(&OD\)")


class H:
    def __init__(self, name):
        self.name = name
        self.loop = "none"
        self.attrs = []            # (attr name, dest)   dest = ("var", v) | ("inline", check) | ("words", [v..])
        self.locals = {}           # string variable -> init ("empty" | ("lit", s) | ("member", m))
        self.required, self.pairs, self.defaults = [], [], []
        self.convs = []            # (var, conv, range, guard|None, out)
        self.enums = []            # (var, [values], guard)
        self.cross = []
        self.sinks = set()         # string variables handed on as strings
        self.eff = dict(setStandpoint=None, resetDim=False, newCluster=False, pushes=0, pushXY=0, pushZ=0, cov=None)
        self.flags_reset = False
        self.ctor_args = []        # (class, [arg expressions])
        self.calls = []            # other process_* called
        self.member_reset = set()  # members assigned "" before the attribute loop


def split_args(s):
    out, d, cur = [], 0, []
    i = 0
    while i < len(s):
        c = s[i]
        if c in "\"'":
            j = _skip_lit(s, i)
            cur.append(s[i:j])
            i = j
            continue
        if c in "([":
            d += 1
        elif c in ")]":
            d -= 1
        if c == "," and d == 0:
            out.append("".join(cur))
            cur = []
        else:
            cur.append(c)
        i += 1
    if cur:
        out.append("".join(cur))
    return out


RANGES = {
    "{o}<=0": "pos", "{o}<0": "nonneg", "{o}<=0||{o}>=1": "open01", "{o}<1": "ge1",
    "{o}<=0||{o}>1": "openClosed01", "{o}<0||{o}>=1": "closedOpen01", "{o}<0||{o}>1": "closed01",
}


def range_of(cond, out, where):
    for pat, r in RANGES.items():
        if cond == pat.format(o=out):
            return r
    fail(f"{where}: unrecognised range test `{cond}` on {out}")


def conv_cond(cond, where):
    """`!toDouble(v,o)` [`||!toDouble(v2,o2)`]* [`||range(o)`]  ->  [(v, conv, range, out)]"""
    parts = cond.split("||")
    res, i = [], 0
    while i < len(parts):
        m = re.fullmatch(r"!(toDouble|toInteger|toIndex)\((" + ID + r"),(" + ID + r")\)", parts[i])
        if not m:
            break
        res.append([m.group(2), CONV_FUN[m.group(1)], "any", m.group(3)])
        i += 1
    if not res:
        return None
    if i < len(parts):
        rest = "||".join(parts[i:])
        if len(res) != 1:
            fail(f"{where}: range test after several conversions: {cond}")
        res[0][2] = range_of(rest, res[0][3], where)
    return [tuple(r) for r in res]


def enum_chain(node, var, where):
    """if (var == "a") .. else if (var == "b") .. else [return] error(..)  ->  ([values], hard?)"""
    vals = []
    while True:
        if node is None:
            fail(f"{where}: comparison chain on {var} has no final else")
        if node[0] == "if":
            m = re.fullmatch(re.escape(var) + r'=="([^"]*)"', node[1])
            if not m:
                fail(f"{where}: unrecognised condition `{node[1]}` in a comparison chain on {var}")
            for s in flat(node[2]):
                if s[0] != "simple" or re.match(r"(return\b|error\()", s[1]):
                    fail(f"{where}: unrecognised statement in a branch of the comparison chain on {var}: {s}")
            vals.append(m.group(1))
            node = node[3]
            continue
        if is_ret_error(node):
            return vals, True
        if is_error_call(node):
            return vals, False
        fail(f"{where}: comparison chain on {var} does not end in error(..): {node}")


def analyse_inline(stmts, valvar, where, consts):
    """the statements executed for one attribute inside the loop -> check"""
    S = [s for s in stmts if not (s[0] == "simple" and any(r.fullmatch(s[1]) for r in IGNORED_RE))]
    if not S:
        return ("free",)
    if len(S) == 1 and S[0][0] == "simple" and re.fullmatch(r"lnet\.set_(algorithm|ellipsoid)\(" + valvar + r"\)", S[0][1]):
        return ("free",)
    if len(S) == 1 and S[0][0] == "if" and S[0][3] is None:
        m = re.fullmatch(re.escape(valvar) + r"!=(\w+)", S[0][1])
        if m and is_ret_error(S[0][2]):
            if m.group(1) not in consts:
                fail(f"{where}: unknown constant {m.group(1)}")
            return ("enum", [consts[m.group(1)]])
    if len(S) == 1 and S[0][0] == "if" and re.match(re.escape(valvar) + r'=="', S[0][1]):
        vals, _hard = enum_chain(S[0], valvar, where)
        return ("enum", vals)
    # numeric: conversion [range test] sink
    if S and S[0][0] == "if" and S[0][3] is None:
        cc = conv_cond(S[0][1], where)
        if cc and len(cc) == 1 and cc[0][0] == valvar and is_ret_error(S[0][2]):
            v, conv, rng, out = cc[0]
            rest = S[1:]
            if rest and rest[0][0] == "if" and rest[0][3] is None and is_ret_error(rest[0][2]):
                if rng != "any":
                    fail(f"{where}: two range tests")
                rng = range_of(rest[0][1], out, where)
                rest = rest[1:]
            if len(rest) == 1 and rest[0][0] == "simple" and re.fullmatch(r"lnet\.\w+\(" + out + r"\)", rest[0][1]):
                return ("num", conv, rng)
            fail(f"{where}: unrecognised statements after the conversion: {rest}")
        m = re.fullmatch(r"!GNU_gama::deg2gon\(" + valvar + r",(\w+)\)", S[0][1])
        if m:
            inner = flat(S[0][2])
            if len(inner) == 1 and inner[0][0] == "if" and inner[0][3] is None and is_ret_error(inner[0][2]) and \
                    inner[0][1] == f"!toDouble({valvar},{m.group(1)})" and len(S) == 2 and S[1][0] == "simple" and \
                    re.fullmatch(r"lnet\.\w+\(" + m.group(1) + r"\*M_PI/200\)", S[1][1]):
                return ("num", "angle", "any")
    fail(f"{where}: unrecognised handling of the attribute value: {S}")


def analyse_words(stmts, where):
    """distance-stdev: `sds_abc = val;` iterator; (skip blanks; collect a word)×n; skip blanks; `if (i != val.end()) return error`"""
    S = list(stmts)
    if not (S and S[0] == ("simple", "sds_abc=val")):
        return None
    if S[1] != ("simple", "string::const_iterator i=val.begin()"):
        fail(f"{where}: word splitting: iterator declaration not found")
    words = []
    skip = ("while", "i!=val.end()&&isspace(*i)", ("simple", "++i"))
    k = 2
    while True:
        if S[k] != skip:
            fail(f"{where}: word splitting: expected the blank-skipping loop, got {S[k]}")
        k += 1
        n = S[k]
        if n[0] == "while" and n[1] == "i!=val.end()&&!isspace(*i)":
            b = flat(n[2])
            m = len(b) == 2 and b[0][0] == "simple" and re.fullmatch(r"(\w+)\+=\*i", b[0][1])
            if not m or b[1] != ("simple", "++i"):
                fail(f"{where}: word splitting: unrecognised collecting loop")
            words.append(m.group(1))
            k += 1
            continue
        break
    if not (S[k][0] == "if" and S[k][1] == "i!=val.end()" and is_ret_error(S[k][2]) and S[k][3] is None and k == len(S) - 1):
        fail(f"{where}: word splitting: final `if (i != val.end()) return error` not found")
    return words


def analyse_chain(h, node, valvar, consts):
    where = f"process_{h.name}"
    while True:
        if node is None:
            fail(f"{where}: attribute chain does not end in `else return error(..)` (an unknown attribute would be accepted)")
        if node[0] != "if":
            if is_ret_error(node):
                return
            fail(f"{where}: attribute chain ends in {node} instead of `return error(..)`")
        names = []
        for p in node[1].split("||"):
            m = re.fullmatch(r"(?:%s)==\"([^\"]*)\"" % "|".join(ATTR_NAME_VARS), p)
            if not m:
                fail(f"{where}: unrecognised condition in the attribute chain: {node[1]}")
            names.append(m.group(1))
        body = flat(node[2])
        dest = None
        if len(body) == 1 and body[0][0] == "simple":
            m = re.fullmatch(r"(" + ID + r")=" + valvar, body[0][1])
            if m:
                dest = ("var", m.group(1))
        if dest is None:
            w = analyse_words(body, where)
            if w is not None:
                dest = ("words", w)
        if dest is None:
            dest = ("inline", analyse_inline(body, valvar, f"{where} attribute {names[0]}", consts))
        for nm in names:
            if any(a == nm for a, _ in h.attrs):
                fail(f"{where}: attribute {nm} compared twice")
            h.attrs.append((nm, dest))
        node = node[3]


def analyse_loop_body(h, body, consts):
    where = f"process_{h.name}"
    S = flat(body)
    S = [s for s in S if not (s[0] == "simple" and re.fullmatch(r"string \w+,\w+", s[1]))]
    if len(S) < 2 or S[0][0] != "simple" or S[1][0] != "simple":
        fail(f"{where}: attribute loop does not start with the name/value extraction")
    m1 = re.fullmatch(r"(\w+)=string\(\*atts\+\+\)", S[0][1])
    m2 = re.fullmatch(r"(\w+)=string\(\*atts\+\+\)", S[1][1])
    if not m1 or not m2 or m1.group(1) not in ATTR_NAME_VARS or m2.group(1) not in ATTR_VAL_VARS:
        fail(f"{where}: unrecognised name/value extraction: {S[0][1]} ; {S[1][1]}")
    rest = S[2:]
    if len(rest) == 1 and is_ret_error(rest[0]):
        return                                # every attribute is refused (hdiffs, vectors)
    if len(rest) != 1 or rest[0][0] != "if":
        fail(f"{where}: the loop body is not one if/else-if chain: {rest}")
    analyse_chain(h, rest[0], m2.group(1), consts)


def analyse_decl(h, text):
    m = re.fullmatch(r"(?:std::)?string (.+)", text)
    if not m:
        return False
    for d in split_args(m.group(1)):
        mm = re.fullmatch(r"(" + ID + r")(?:=(.+))?", d)
        if not mm:
            fail(f"process_{h.name}: unrecognised declarator {d}")
        v, init = mm.group(1), mm.group(2)
        if init is None:
            h.locals[v] = "empty"
        elif init in MEMBERS:
            h.locals[v] = ("member", init)
        elif re.fullmatch(r'"[^"\\]*"', init):
            h.locals[v] = ("lit", init[1:-1]) if init != '""' else "empty"
        else:
            fail(f"process_{h.name}: unrecognised initialiser of {v}: {init}")
    return True


def analyse_guarded(h, guard, stmts, where):
    """statements under `if (guard != "")`"""
    S = [s for s in stmts if not (s[0] == "simple" and any(r.fullmatch(s[1]) for r in IGNORED_RE))]
    for s in S:
        if s[0] == "if" and s[3] is None and is_ret_error(s[2]):
            cc = conv_cond(s[1], where)
            if cc:
                for v, conv, rng, out in cc:
                    h.convs.append((v, conv, rng, guard, out))
                continue
            if s[1] in ("pp_xydef", "pp_zdef"):
                if not h.flags_reset:
                    fail(f"{where}: `if ({s[1]}) return error` without `pp_xydef = pp_zdef = false` at the top")
                continue                       # dead: the flag was cleared at the top of this call
        if s[0] == "if" and re.match(re.escape(guard) + r'=="', s[1]):
            vals, hard = enum_chain(s, guard, where)
            if not hard:
                fail(f"{where}: enumeration of {guard} without return")
            h.enums.append((guard, vals, guard))
            continue
        if s[0] == "simple" and re.fullmatch(r"(SB\[pp_id\]\.set_(xy|z)\((\w+)(,\w+)?\)|standpoint->set_orientation\(\w+\))", s[1]):
            continue
        # sink guarded by "the point has no coordinates of this group yet" for a point inside <coordinates> (no effect on
        # acceptance or on the values checked; what is stored is C13's concern)
        if s[0] == "if" and s[3] is None and re.fullmatch(r"!\(observed&&SB\[pp_id\]\.test_(xy|z)\(\)\)", s[1]) and \
                [b[1] for b in flat(s[2]) if b[0] == "simple"] and \
                all(b[0] == "simple" and re.fullmatch(r"SB\[pp_id\]\.set_(xy|z)\((\w+)(,\w+)?\)", b[1]) for b in flat(s[2])):
            continue
        fail(f"{where}: unrecognised statement under `if ({guard} != \"\")`: {s}")


def analyse_try(h, node, classes):
    where = f"process_{h.name}"
    for s in flat(node[1]):
        if s[0] == "if" and s[1] == "standpoint==0" and s[3] is None:
            continue
        if s[0] != "simple":
            fail(f"{where}: unrecognised statement in the try block: {s}")
        t = s[1]
        m = re.fullmatch(r"(\w+)\*(\w+)=new (\w+)\((.*)\)", t)
        if m:
            if m.group(1) != m.group(3):
                fail(f"{where}: {t}")
            h.ctor_args.append((m.group(3), split_args(m.group(4))))
            continue
        m = re.fullmatch(r"(\w+)->set_extern\((\w+)\)", t)
        if m:
            h.sinks.add(m.group(2))
            continue
        if re.fullmatch(r"\w+->set_(from_dh|to_dh|fs_dh)\(\w+\)", t):
            continue
        if re.fullmatch(r"\w+->observation_list\.push_back\(\w+\)", t):
            h.eff["pushes"] += 1
            continue
        if any(r.fullmatch(t) for r in IGNORED_RE):
            continue
        fail(f"{where}: unrecognised statement in the try block: {t}")
    c = flat(node[2])
    if not (len(c) == 1 and c[0][0] == "simple" and re.fullmatch(r"(return )?error\(e\.what\(\)\)", c[0][1])):
        fail(f"{where}: catch block does not call error(e.what())")


def analyse_handler(src_all, name, func_body, classes, consts):
    h = H(name)
    where = f"process_{name}"
    body = func_body(src_all, "process_" + name)
    stmts = parse_stmts(body)
    seen_loop = False
    for s in stmts:
        if s[0] == "simple":
            t = s[1]
            if analyse_decl(h, t):
                continue
            if t == "pp_xydef=pp_zdef=false":
                h.flags_reset = True
                continue
            if t == "idim=0":
                h.eff["resetDim"] = True
                continue
            m = re.fullmatch(r"(pp_id|standpoint_id)=(\"\"|PointID\(\)|std::string\(\)|string\(\))", t)
            if m and not seen_loop:
                h.member_reset.add(m.group(1))       # the member is cleared before the attributes are read
                continue
            m = re.fullmatch(r"standpoint_id=(\w+)", t)
            if m:
                h.eff["setStandpoint"] = m.group(1)
                h.sinks.add(m.group(1))
                continue
            if NEW_CLUSTER.fullmatch(t):
                h.eff["newCluster"] = True
                continue
            m = re.fullmatch(r"return process_(\w+)\(atts\)", t)
            if m:
                h.calls.append(m.group(1))
                continue
            if any(r.fullmatch(t) for r in IGNORED_RE):
                continue
            fail(f"{where}: unrecognised statement: {t}")
        if s[0] == "while" and s[1] == "*atts":
            if seen_loop:
                fail(f"{where}: second attribute loop")
            seen_loop, h.loop = True, "all"
            analyse_loop_body(h, s[2], consts)
            continue
        if s[0] == "if" and s[1] == "*atts" and s[3] is None:
            if seen_loop:
                fail(f"{where}: second attribute loop")
            seen_loop, h.loop = True, "first"
            analyse_loop_body(h, s[2], consts)
            continue
        if s[0] == "try":
            analyse_try(h, s, classes)
            continue
        if s[0] == "if":
            cond, then, els = s[1], s[2], s[3]
            m = re.fullmatch(r"(" + ID + r')==""', cond)
            if m and els is None and is_ret_error(then):
                h.required.append(m.group(1))
                continue
            if m and els is None:
                b = flat(then)
                mm = len(b) == 1 and b[0][0] == "simple" and re.fullmatch(re.escape(m.group(1)) + r'="([^"]*)"', b[0][1])
                if mm:
                    h.defaults.append((m.group(1), mm.group(1)))
                    continue
            mo = re.fullmatch(r"(" + ID + r'=="")(\|\|' + ID + r'=="")+', cond)
            if mo and els is None and is_ret_error(then):
                h.required += [p[:-4] for p in cond.split("||")]
                continue
            m = re.fullmatch(r"(" + ID + r')!=""&&(' + ID + r')==""', cond)
            if m and els is None and is_ret_error(then):
                h.pairs.append((m.group(1), m.group(2)))
                continue
            cc = conv_cond(cond, where)
            if cc and els is None and is_ret_error(then):
                for v, conv, rng, out in cc:
                    h.convs.append((v, conv, rng, None, out))
                continue
            m = re.fullmatch(r"(" + ID + r')!=""', cond)
            if m and els is None:
                analyse_guarded(h, m.group(1), flat(then), where)
                continue
            m = re.fullmatch(r"GNU_gama::deg2gon\((\w+),(\w+)\)", cond)
            if m and flat(then) == [("simple", "degrees=true")] and els is not None:
                e = flat(els)
                if len(e) == 1 and e[0][0] == "if" and e[0][1] == f"!toDouble({m.group(1)},{m.group(2)})" and \
                        is_ret_error(e[0][2]) and e[0][3] is None:
                    h.convs.append((m.group(1), "angle", "any", None, m.group(2)))
                    continue
            m = re.fullmatch(r"(\w+)<1", cond)
            if m and els is None and is_ret_error(then):
                hit = [i for i, c in enumerate(h.convs) if c[4] == m.group(1)]
                if len(hit) != 1 or h.convs[hit[0]][2] != "any":
                    fail(f"{where}: range test on {m.group(1)} without one conversion into it")
                c = h.convs[hit[0]]
                h.convs[hit[0]] = (c[0], c[1], "ge1", c[3], c[4])
                continue
            m = re.fullmatch(r"isNegative\((\w+)\)\|\|(\w+)>=(\w+)", cond)
            if m and m.group(1) == m.group(2) and els is None and is_ret_error(then):
                src = {c[4]: c[0] for c in h.convs}
                if m.group(2) not in src or m.group(3) not in src:
                    fail(f"{where}: {cond}: operands are not converted values")
                h.cross.append(("less", src[m.group(2)], src[m.group(3)]))
                continue
            if cond == "!ext.empty()" and els is None and flat(then) == [("simple", "coordinates->set_extern(ext)")]:
                h.sinks.add("ext")
                continue
            if cond in ("process_point(atts)", "process_point(atts,true)") and els is None and flat(then) == [("simple", "return 1")]:
                h.calls.append("point")
                continue
            if cond == "!pp_xydef&&!pp_zdef" and els is None and is_ret_error(then):
                continue                        # Op.needXYorZ of the automaton table
            if cond in ("pp_xydef", "pp_zdef") and els is None:
                n = 0
                for b in flat(then):
                    if b[0] == "simple" and re.fullmatch(r"coordinates->observation_list\.push_back\(new [XYZ]\(pp_id,pp_[xyz]\)\)", b[1]):
                        n += 1
                    else:
                        fail(f"{where}: unrecognised statement under `if ({cond})`: {b}")
                h.eff["pushXY" if cond == "pp_xydef" else "pushZ"] += n
                continue
        fail(f"{where}: unrecognised statement: {str(s)[:160]}")
    return h


def parse_classes(repo):
    """observation.h: what the constructors used by the parser refuse -> {class: (params, [(lhs, op, rhs)])}"""
    src = strip_comments((Path(repo) / "lib" / "gnu_gama" / "local" / "observation.h").read_text())
    out = {}
    for m in re.finditer(r"\bclass (\w+)\s*:\s*public Accept<\1,\s*Observation>", src):
        cls = m.group(1)
        i = src.find("{", m.end())
        j = match_brace(src, i)
        body = src[i + 1:j]
        cm = re.search(r"\b" + cls + r"\s*\(((?:const PointID&\s*\w+\s*,\s*)+)double\s+(\w+)(?:\s*,\s*double\s+(\w+)\s*=\s*0)?\s*\)", body)
        if not cm:
            cm2 = re.search(r"\b" + cls + r"\s*\(\s*const PointID&\s*(\w+)\s*,\s*double\s+(\w+)\s*\)", body)
            if not cm2:
                fail(f"observation.h: constructor of {cls} not recognised")
            cm = cm2
            params = [cm2.group(1), cm2.group(2)]
        else:
            ids = re.findall(r"const PointID&\s*(\w+)", cm.group(1))
            params = ids + [cm.group(2)] + ([cm.group(3)] if cm.group(3) else [])
        k = body.find("{", cm.end())
        cbody = body[k:match_brace(body, k) + 1]
        conds = []
        for t in re.finditer(r"\bif\s*\(([^()]*)\)\s*throw\b", cbody):
            c = norm(t.group(1))
            mm = re.fullmatch(r"(\w+)(<=|<|==)(\w+)", c)
            if not mm:
                fail(f"observation.h: constructor of {cls}: unrecognised guard {c}")
            conds.append((mm.group(1), mm.group(2), mm.group(3)))
        if len(re.findall(r"\bthrow\b", cbody)) != len(conds):
            fail(f"observation.h: constructor of {cls}: a throw without a recognised guard")
        out[cls] = (params, conds)
    return out


def parse_consts(repo):
    src = (Path(repo) / "lib" / "gnu_gama" / "xsd.h").read_text()
    return {m.group(1): m.group(2) for m in re.finditer(r'#define\s+(\w+)\s+"([^"]*)"', src)}


def finalise(h, classes):
    """cross rules from the constructors; consistency of the per-attribute view; -> dict for the emitter"""
    where = f"process_{h.name}"
    outs = {c[4]: c for c in h.convs}
    for cls, args in h.ctor_args:
        if cls not in classes:
            fail(f"{where}: class {cls} not found in observation.h")
        params, conds = classes[cls]
        if len(args) > len(params) or len(args) < len(params) - 1:
            fail(f"{where}: new {cls}({args}) does not fit the constructor {params}")
        amap = dict(zip(params, args))
        for a in args:
            if re.fullmatch(ID, a) and (a in h.locals or a in MEMBERS):
                h.sinks.add(a)
        for lhs, op, rhs in conds:
            if op == "==":
                a, b = amap.get(lhs), amap.get(rhs)
                if a is None or b is None:
                    fail(f"{where}: {cls}: guard {lhs}=={rhs} on unknown parameters")
                h.cross.append(("distinct", a, b))
            else:
                a = amap.get(lhs)
                if rhs != "0":
                    fail(f"{where}: {cls}: guard {lhs}{op}{rhs}")
                if a is None:
                    continue                       # defaulted parameter
                m = re.fullmatch(r"(\w+)(\*G2R)?", a)
                if not m or m.group(1) not in outs:
                    fail(f"{where}: {cls}: numeric argument {a} is not a converted value")
                c = outs[m.group(1)]
                if op == "<=":
                    h.cross.append(("positive", c[0], c[1]))
                elif op == "<":
                    if c[2] not in ("nonneg", "pos"):
                        h.cross.append(("nonnegative", c[0], c[1]))
    # every numeric argument of a constructor / setter comes from a conversion: checked above for the guarded ones
    entries = {}
    bind = {}
    for a, dest in h.attrs:
        if dest[0] == "inline":
            entries[a] = (dest[1], False)
            continue
        if dest[0] == "words":
            ws = dest[1]
            for v in ws:
                cv = [c for c in h.convs if c[0] == v]
                if len(cv) != 1 or cv[0][1:4] != ("dbl", "any", None) or not any(d[0] == v for d in h.defaults):
                    fail(f"{where}: word variable {v} of {a}: expected a default and one unguarded toDouble")
            entries[a] = (("words", len(ws), "dbl"), False)
            continue
        v = dest[1]
        if v not in h.locals and v not in MEMBERS:
            fail(f"{where}: attribute {a} assigned to an unknown variable {v}")
        bind[a] = v
        cv = [c for c in h.convs if c[0] == v]
        en = [e for e in h.enums if e[0] == v]
        if len(cv) + len(en) > 1:
            fail(f"{where}: variable {v} is checked more than once")
        if cv:
            _, conv, rng, guard, _o = cv[0]
            if guard is None:
                absent = False
            elif guard == v:
                absent = True
            elif (v, guard) in h.pairs and (guard, v) in h.pairs:
                absent = True                  # `if (g != "")` ≡ `if (v != "")` because each requires the other
            else:
                fail(f"{where}: conversion of {v} is guarded by {guard} without the mutual requirement")
            if v in h.required and absent:
                absent = False
            entries[a] = (("num", conv, rng), absent)
        elif en:
            entries[a] = (("enum", en[0][1]), True)
        else:
            if v not in h.sinks and v not in MEMBERS:
                fail(f"{where}: string variable {v} (attribute {a}) is neither converted nor handed on")
            entries[a] = (("free",), True)
    for v in h.required:
        if v not in h.locals and v not in MEMBERS:
            fail(f"{where}: required variable {v} unknown")
    for c in h.convs:
        if c[0] not in h.locals:
            fail(f"{where}: conversion of {c[0]}, which is not a local string")
        if not any(d[0] in ("var", "words") and (c[0] == d[1] or (d[0] == "words" and c[0] in d[1])) for _, d in h.attrs):
            fail(f"{where}: converted variable {c[0]} is not bound to an attribute")
    cov = None
    idx = [c for c in h.convs if c[1] == "index"]
    if idx:
        o = {c[4]: c[0] for c in idx}
        if set(o) != {"idim", "iband"}:
            fail(f"{where}: toIndex into {sorted(o)} (expected idim, iband)")
        cov = (o["idim"], o["iband"])
    h.eff["cov"] = cov
    inits = {v: i for v, i in h.locals.items() if i != "empty"}
    for v in sorted(set(h.required) | set(bind.values())):
        if v in MEMBERS and v not in h.member_reset:
            inits[v] = ("member", v)
    words_defaults = {}
    return dict(entries=entries, bind=bind, inits=inits, required=list(h.required), pairs=list(h.pairs), cross=list(h.cross),
                sinks=sorted({c[0] for c in h.convs}), eff=h.eff, calls=h.calls)


def lean_str(s):
    return '"' + s.replace("\\", "\\\\").replace('"', '\\"') + '"'


def lean_check(c):
    if c[0] == "free":
        return ".free"
    if c[0] == "enum":
        return ".enum [" + ", ".join(lean_str(v) for v in c[1]) + "]"
    if c[0] == "num":
        return f".num .{c[1]} .{c[2]}"
    if c[0] == "words":
        return f".words {c[1]} .{c[2]}"
    raise AssertionError(c)


def parse_finishes(cpp, func_body, finishes):
    res = {}
    for f in finishes:
        b = norm(func_body(cpp, "finish_" + f))
        res[f] = 'standpoint_id=""' in b
    b = norm(func_body(cpp, "finish_cov"))
    if not b.endswith('idim=0;cov_mat_data="";return 0;'):
        fail("finish_cov does not end with `idim = 0; cov_mat_data = \"\"; return 0;`")
    t = norm(func_body(cpp, "characterDataHandler"))
    if "cov_mat_data+=string(s,len)" not in t:
        fail("characterDataHandler: `cov_mat_data += string(s, len)` not found")
    return res


def member_types(both):
    """gkfparser.h: the members compared with "" — a `PointID` member is compared after PointID's normalisation of blanks"""
    norm_vars = []
    for mname in MEMBERS:
        m = re.search(r"\b(PointID|std::string|string)\s+" + mname + r"\s*;", both)
        if not m:
            fail(f"gkfparser.h: declaration of member {mname} not found")
        if m.group(1) == "PointID":
            norm_vars.append(mname)
    return norm_vars


def generate(repo, both, cpp, handlers, finishes, func_body):
    norm_vars = member_types(both)
    classes = parse_classes(repo)
    consts = parse_consts(repo)
    info = {}
    for hn in handlers:
        info[hn] = finalise(analyse_handler(both, hn, func_body, classes, consts), classes)
    fin = parse_finishes(cpp, func_body, finishes)
    Hn = lambda h: "." + h + "_"
    L = []
    A = L.append
    A("/-")
    A("  GENERATED by tools/gen/c11_gkf_values.py (called from c11_gkf_automaton.py) from lib/gnu_gama/xml/gkfparser.cpp,")
    A("  lib/gnu_gama/local/observation.h and lib/gnu_gama/xsd.h of the current working tree.")
    A("  DO NOT EDIT: regenerated (and the proofs re-checked) on every run.")
    A("-/")
    A("import Gama.Gen.GkfAutomaton")
    A("namespace Gama.Gkf")
    A("")
    A("/-- `toDouble` | `toInteger` | `toIndex` | `deg2gon`, and `toDouble` when that fails -/")
    A("inductive Conv where | dbl | int | index | angle")
    A("  deriving DecidableEq, Repr")
    A("/-- the comparison(s) applied to the converted value; the refused side is written in the C++:")
    A("    pos `<= 0`, nonneg `< 0`, open01 `<= 0 || >= 1`, ge1 `< 1`, openClosed01 `<= 0 || > 1`, closedOpen01 `< 0 || >= 1`, closed01 `< 0 || > 1` -/")
    A("inductive Range where | any | pos | nonneg | open01 | ge1 | openClosed01 | closedOpen01 | closed01")
    A("  deriving DecidableEq, Repr")
    A("inductive Check where")
    A("  | free                              -- kept / handed on as a string, never converted")
    A("  | enum (vals : List String)         -- must be one of the listed strings")
    A("  | num (c : Conv) (r : Range)        -- conversion, then the range test")
    A("  | words (n : Nat) (c : Conv)        -- at most n blank separated words, each converted")
    A("  deriving DecidableEq, Repr")
    A("/-- `emptyAbsent`: the check is skipped when the value is the empty string (`if (v != \"\")`) -/")
    A("structure Entry where")
    A("  check : Check")
    A("  emptyAbsent : Bool")
    A("  deriving DecidableEq, Repr")
    A("inductive Src where | empty | lit (s : String) | standpointId | ppId")
    A("  deriving DecidableEq, Repr")
    A("/-- refusals that involve more than one value, or the constructor of the observation:")
    A("    `positive v c`: the converted value of v must be > 0 (`if (d <= 0) throw`), `nonnegative` likewise with `<`,")
    A("    `distinct a b`: `if (a == b) throw` on PointIDs, `less a b`: `isNegative(a) || a >= b` refused -/")
    A("inductive Cross where")
    A("  | positive (v : String) (c : Conv) | nonnegative (v : String) (c : Conv) | distinct (a b : String) | less (a b : String)")
    A("  deriving DecidableEq, Repr")
    A("structure Effects where")
    A("  setStandpoint : Option String   -- `standpoint_id = v;`")
    A("  resetDim : Bool                 -- `idim = 0;`")
    A("  newCluster : Bool               -- a new cluster object: its observation_list is empty")
    A("  pushes : Nat                    -- observation_list.push_back in the try block")
    A("  pushXY : Nat                    -- … under `if (pp_xydef)`")
    A("  pushZ : Nat                     -- … under `if (pp_zdef)`")
    A("  cov : Option (String × String)  -- `toIndex(a, idim)`, `toIndex(b, iband)`")
    A("  deriving DecidableEq, Repr")
    A("")
    A("/-- the check `process_h` applies to the value of attribute `a` (`none`: the name is not compared by the handler) -/")
    A("def valueCheck : Handler → String → Option Entry")
    for hn in handlers:
        for a, (c, absent) in info[hn]["entries"].items():
            A(f"  | {Hn(hn)}, {lean_str(a)} => some ⟨{lean_check(c)}, {'true' if absent else 'false'}⟩")
    A("  | _, _ => none")
    A("")
    A("/-- attribute ↦ the local string variable its value is assigned to (`none`: checked inside the loop, or ignored) -/")
    A("def bindVar : Handler → String → Option String")
    for hn in handlers:
        for a, v in info[hn]["bind"].items():
            A(f"  | {Hn(hn)}, {lean_str(a)} => some {lean_str(v)}")
    A("  | _, _ => none")
    A("")
    A("/-- initial value of a variable (declaration initialiser, or the member itself) -/")
    A("def varInit : Handler → String → Src")
    for hn in handlers:
        for v, i in info[hn]["inits"].items():
            if i[0] == "lit":
                A(f"  | {Hn(hn)}, {lean_str(v)} => .lit {lean_str(i[1])}")
            else:
                A(f"  | {Hn(hn)}, {lean_str(v)} => {'.standpointId' if i[1] == 'standpoint_id' else '.ppId'}")
    A("  | _, _ => .empty")
    A("")
    A("/-- variables of type `PointID`: the comparison with \"\" is made on the normalised id (blanks collapsed and trimmed) -/")
    A("def pointIdVars : List String := [" + ", ".join(lean_str(v) for v in norm_vars) + "]")
    A("/-- `if (v == \"\") return error(..)` -/")
    A("def requiredVars : Handler → List String")
    for hn in handlers:
        A(f"  | {Hn(hn)} => [" + ", ".join(lean_str(v) for v in info[hn]["required"]) + "]")
    A("/-- `if (a != \"\" && b == \"\") return error(..)` -/")
    A("def requiredPairs : Handler → List (String × String)")
    for hn in handlers:
        A(f"  | {Hn(hn)} => [" + ", ".join(f"({lean_str(a)}, {lean_str(b)})" for a, b in info[hn]["pairs"]) + "]")
    A("def crossRules : Handler → List Cross")
    for hn in handlers:
        cs = []
        for c in info[hn]["cross"]:
            if c[0] in ("positive", "nonnegative"):
                cs.append(f".{c[0]} {lean_str(c[1])} .{c[2]}")
            else:
                cs.append(f".{c[0]} {lean_str(c[1])} {lean_str(c[2])}")
        A(f"  | {Hn(hn)} => [" + ", ".join(cs) + "]")
    A("/-- variables whose value is given to toDouble / toInteger / toIndex / deg2gon -/")
    A("def numericSinks : Handler → List String")
    for hn in handlers:
        A(f"  | {Hn(hn)} => [" + ", ".join(lean_str(v) for v in info[hn]["sinks"]) + "]")
    A("def effects : Handler → Effects")
    for hn in handlers:
        e = info[hn]["eff"]
        sp = f"(some {lean_str(e['setStandpoint'])})" if e["setStandpoint"] else "none"
        cv = f"(some ({lean_str(e['cov'][0])}, {lean_str(e['cov'][1])}))" if e["cov"] else "none"
        b = lambda x: "true" if x else "false"
        A(f"  | {Hn(hn)} => ⟨{sp}, {b(e['resetDim'])}, {b(e['newCluster'])}, {e['pushes']}, {e['pushXY']}, {e['pushZ']}, {cv}⟩")
    A("")
    A("/-- `standpoint_id = \"\";` at the end of `finish_f` -/")
    A("def finishResetsStandpoint : Finish → Bool")
    for f in finishes:
        A(f"  | .{f}_ => {'true' if fin[f] else 'false'}")
    A("")
    A("end Gama.Gkf")
    return "\n".join(L) + "\n"
