"""C11: translator of xml/gama-local.xsd -> lean/Gama/Gen/GkfXsd.lean  (audit #4 gap 7: the documented tables of the GKF input
— attribute names, required attributes, attribute types / enumerations / defaults, element nesting with occurrence bounds — were hand
transcriptions nothing read).

Only the schema constructs that occur in the file are recognised; anything else raises TieBroken (nothing is guessed):
  global  xs:element name=N   with  type="xs:string" (text only)
                               or   xs:complexType [mixed] > (xs:sequence | xs:choice)? xs:attribute*
                               or   xs:complexType > xs:complexContent > xs:extension base=T   (T a global named complexType, no additions)
  global  xs:complexType name=T > (xs:sequence | xs:choice)? xs:attribute*
  content model, normalised to a SEQUENCE of particles; a particle = a set of alternative element refs with (min, max|unbounded):
          xs:choice[min,max] of xs:element ref        -> one particle
          xs:sequence of (xs:element ref[min,max] | xs:choice[min,max] of xs:element ref)   -> one particle each
  xs:attribute name [use=required] [default] with type in {xs:double, xs:token, xs:string, xs:NMTOKEN, xs:NMTOKENS, xs:nonNegativeInteger}
          or an inline xs:simpleType > xs:restriction base=xs:token > xs:enumeration*      -> enum
          or an inline xs:simpleType > xs:restriction base=xs:integer > xs:minInclusive     -> intMin
"""
import xml.etree.ElementTree as ET
from pathlib import Path

NAME = "c11_xsd"
XS = "{http://www.w3.org/2001/XMLSchema}"
TieBroken = None          # set by the plugin


def fail(msg):
    raise TieBroken(NAME, msg)


def lean_str(s):
    return '"' + s.replace("\\", "\\\\").replace('"', '\\"') + '"'


def kids(e):
    return [k for k in e if k.tag != XS + "annotation"]


def occurs(e):
    mn = int(e.get("minOccurs", "1"))
    mx = e.get("maxOccurs", "1")
    return mn, (None if mx == "unbounded" else int(mx))


SIMPLE = {"xs:double": ".double", "xs:token": ".token", "xs:string": ".string", "xs:NMTOKEN": ".nmtoken", "xs:NMTOKENS": ".nmtokens",
          "xs:nonNegativeInteger": ".nonNegInt"}


def attr_decl(a, where):
    for k in a.keys():
        if k not in ("name", "type", "use", "default"):
            fail(f"{where}: attribute of xs:attribute not recognised: {k}")
    name = a.get("name")
    if name is None:
        fail(f"{where}: xs:attribute without a name")
    use = a.get("use", "optional")
    if use not in ("required", "optional"):
        fail(f"{where}/@{name}: use={use}")
    ty = a.get("type")
    sub = kids(a)
    if ty is not None:
        if sub or ty not in SIMPLE:
            fail(f"{where}/@{name}: type {ty} not recognised")
        lty = SIMPLE[ty]
    else:
        if len(sub) != 1 or sub[0].tag != XS + "simpleType" or len(kids(sub[0])) != 1 or kids(sub[0])[0].tag != XS + "restriction":
            fail(f"{where}/@{name}: expected one xs:simpleType > xs:restriction")
        r = kids(sub[0])[0]
        facets = kids(r)
        base = r.get("base")
        if base == "xs:token" and facets and all(f.tag == XS + "enumeration" and list(f.keys()) == ["value"] for f in facets):
            lty = "(.enum [" + ", ".join(lean_str(f.get("value")) for f in facets) + "])"
        elif base == "xs:integer" and len(facets) == 1 and facets[0].tag == XS + "minInclusive":
            lty = f"(.intMin ({int(facets[0].get('value'))}))"
        else:
            fail(f"{where}/@{name}: restriction of {base} not recognised")
    d = a.get("default")
    return name, lty, use == "required", d


def particle_of_choice(c, where):
    refs = []
    for k in kids(c):
        if k.tag != XS + "element" or k.get("ref") is None or set(k.keys()) != {"ref"}:
            fail(f"{where}: a choice may only hold xs:element ref=..")
        refs.append(k.get("ref"))
    mn, mx = occurs(c)
    return refs, mn, mx


def content_model(ct, where):
    """-> (particles, attribute declarations, mixed)"""
    for k in ct.keys():
        if k not in ("name", "mixed"):
            fail(f"{where}: attribute of xs:complexType not recognised: {k}")
    parts, attrs = [], []
    body = kids(ct)
    i = 0
    if body and body[0].tag in (XS + "sequence", XS + "choice"):
        g = body[0]
        if g.tag == XS + "choice":
            parts.append(particle_of_choice(g, where))
        else:
            if occurs(g) != (1, 1):
                fail(f"{where}: occurrence bounds on xs:sequence")
            for k in kids(g):
                if k.tag == XS + "element":
                    if k.get("ref") is None or not set(k.keys()) <= {"ref", "minOccurs", "maxOccurs"}:
                        fail(f"{where}: local element declaration")
                    mn, mx = occurs(k)
                    parts.append(([k.get("ref")], mn, mx))
                elif k.tag == XS + "choice":
                    parts.append(particle_of_choice(k, where))
                else:
                    fail(f"{where}: {k.tag} inside xs:sequence")
        i = 1
    for a in body[i:]:
        if a.tag != XS + "attribute":
            fail(f"{where}: {a.tag} after the content model")
        attrs.append(attr_decl(a, where))
    return parts, attrs, ct.get("mixed") == "true"


def read_schema(repo):
    path = Path(repo) / "xml" / "gama-local.xsd"
    try:
        root = ET.parse(str(path)).getroot()
    except Exception as e:          # noqa
        fail(f"cannot parse {path}: {e}")
    if root.tag != XS + "schema":
        fail("root is not xs:schema")
    named, elements = {}, []
    for k in kids(root):
        if k.tag == XS + "complexType":
            if k.get("name") is None:
                fail("global xs:complexType without a name")
            named[k.get("name")] = k
        elif k.tag != XS + "element":
            fail(f"global {k.tag}")
    for e in kids(root):
        if e.tag != XS + "element":
            continue
        name = e.get("name")
        if name is None or not set(e.keys()) <= {"name", "type"}:
            fail(f"global element {name}: attributes {sorted(e.keys())}")
        sub = kids(e)
        if e.get("type") is not None:
            if e.get("type") != "xs:string" or sub:
                fail(f"element {name}: type {e.get('type')}")
            elements.append((name, [], [], True))
            continue
        if len(sub) != 1 or sub[0].tag != XS + "complexType":
            fail(f"element {name}: expected one xs:complexType")
        ct = sub[0]
        inner = kids(ct)
        if len(inner) == 1 and inner[0].tag == XS + "complexContent":
            ext = kids(inner[0])
            if len(ext) != 1 or ext[0].tag != XS + "extension" or kids(ext[0]) or ext[0].get("base") not in named:
                fail(f"element {name}: complexContent must be an empty xs:extension of a named complexType")
            parts, attrs, mixed = content_model(named[ext[0].get("base")], f"complexType {ext[0].get('base')}")
        else:
            parts, attrs, mixed = content_model(ct, f"element {name}")
        elements.append((name, parts, attrs, mixed))
    names = [n for n, *_ in elements]
    if len(set(names)) != len(names):
        fail("an element is declared twice")
    for n, parts, _a, _m in elements:
        for refs, _mn, _mx in parts:
            for r in refs:
                if r not in names:
                    fail(f"element {n}: ref to undeclared element {r}")
    return root.get("targetNamespace"), elements


def generate(repo):
    ns, elements = read_schema(repo)
    o = []
    w = o.append
    w("/-")
    w("  GENERATED by tools/gen/c11_xsd.py from xml/gama-local.xsd — do not edit.")
    w("  The documented gama-local input as the schema declares it: per element its attribute declarations (name, type, required,")
    w("  default) in document order and its content model as a sequence of particles (alternative element names, minOccurs, maxOccurs;")
    w("  `none` = unbounded); `text` = character data allowed (xs:string / mixed).")
    w("-/")
    w("namespace Gama.Gkf.Xsd")
    w("")
    w("inductive Ty where")
    w("  | double | token | string | nmtoken | nmtokens | nonNegInt")
    w("  | intMin (lo : Int)              -- xs:integer with minInclusive")
    w("  | enum (vals : List String)      -- xs:token restricted to an enumeration")
    w("  deriving DecidableEq, Repr")
    w("")
    w("structure AttrDecl where")
    w("  name : String")
    w("  ty : Ty")
    w("  required : Bool")
    w("  default : Option String")
    w("  deriving DecidableEq, Repr")
    w("")
    w("structure Particle where")
    w("  alts : List String")
    w("  min : Nat")
    w("  max : Option Nat")
    w("  deriving DecidableEq, Repr")
    w("")
    w("structure Element where")
    w("  name : String")
    w("  content : List Particle")
    w("  attrs : List AttrDecl")
    w("  text : Bool")
    w("  deriving DecidableEq, Repr")
    w("")
    w(f"def targetNamespace : String := {lean_str(ns or '')}")
    w("")
    w("def elements : List Element := [")
    rows = []
    for name, parts, attrs, mixed in elements:
        ps = ", ".join("⟨[" + ", ".join(lean_str(r) for r in refs) + f"], {mn}, " + ("none" if mx is None else f"some {mx}") + "⟩"
                       for refs, mn, mx in parts)
        ats = ",\n      ".join(f"⟨{lean_str(n)}, {ty}, {'true' if req else 'false'}, " + ("none" if d is None else f"some {lean_str(d)}") + "⟩"
                               for n, ty, req, d in attrs)
        rows.append(f"  ⟨{lean_str(name)}, [{ps}],\n     [{ats}], {'true' if mixed else 'false'}⟩")
    w(",\n".join(rows))
    w("]")
    w("")
    w("def element? (n : String) : Option Element := elements.find? (fun e => e.name == n)")
    w("")
    w("end Gama.Gkf.Xsd")
    return "\n".join(o) + "\n"


def run(repo, verif):
    text = generate(repo)
    out = Path(verif) / "lean" / "Gama" / "Gen" / "GkfXsd.lean"
    if not out.exists() or out.read_text() != text:
        out.write_text(text)
    return out
