#!/usr/bin/env python3
"""
Translator for C13:  lib/gnu_gama/xml/gkfparser.cpp  ->  lean/Gama/Gen/GkfAttrs.lean

For every GKFparser::process_<element> that reads observation attributes the table says, per accepted
attribute name, where its value ends up:

    ctor:<k>      k-th argument of the observation's constructor  (new Angle(ss, sl, sp, dm*G2R) …)
    set_from_dh / set_to_dh / set_fs_dh / set_extern …   the setter called on the new object
    sigma         the standard deviation pushed to `sigma` (-> diagonal of the cluster covariance)
    dropped       parsed (or not even parsed) but never stored

The chain followed is  attribute name --(nam == "a") v = val-->  string variable v
--toDouble(v, d) | deg2gon(v, d)-->  double variable d  -->  constructor argument / setter / DB_pair.
A process_* whose text does not fit this shape stops the translator (AttrsError).
"""
import re
import sys
from pathlib import Path

ELEMENTS = {           # process_* name -> (element tag, classes constructed)
    "distance": ("distance", ["Distance"]),
    "angle": ("angle", ["Angle"]),
    "sdistance": ("s-distance", ["S_Distance"]),
    "zangle": ("z-angle", ["Z_Angle"]),
    "direction": ("direction", ["Direction"]),
    "azimuth": ("azimuth", ["Azimuth"]),
    "dh": ("dh", ["H_Diff"]),
    "vec": ("vec", ["Xdiff", "Ydiff", "Zdiff"]),
}


class AttrsError(Exception):
    pass


def strip_comments(src):
    src = re.sub(r"/\*.*?\*/", " ", src, flags=re.S)
    return re.sub(r"//[^\n]*", "", src)


def function_body(src, name):
    m = re.search(r"int\s+GKFparser::process_%s\s*\(\s*const\s+char\s*\*\*\s*atts\s*\)\s*\{" % name, src)
    if not m:
        raise AttrsError(f"process_{name} not found")
    i, depth = m.end(), 1
    while depth and i < len(src):
        depth += {"{": 1, "}": -1}.get(src[i], 0)
        i += 1
    return src[m.end():i - 1]


def routes_of(src, name):
    body = function_body(src, name)
    tag, classes = ELEMENTS[name]
    pairs = re.findall(r'nam\s*==\s*"([\w-]+)"\s*\)\s*(\w+)\s*=\s*val\s*;', body)
    if not pairs:
        raise AttrsError(f"process_{name}: no attribute assignments recognised")
    n_cmp = len(re.findall(r'nam\s*==\s*"', body))
    if n_cmp != len(pairs):
        raise AttrsError(f"process_{name}: {n_cmp} attribute tests but {len(pairs)} recognised")
    # string variable -> double variable
    s2d = {}
    for v, d in re.findall(r"toDouble\s*\(\s*(\w+)\s*,\s*(\w+)\s*\)", body):
        s2d.setdefault(v, d)
    for v, d in re.findall(r"deg2gon\s*\(\s*(\w+)\s*,\s*(\w+)\s*\)", body):
        s2d.setdefault(v, d)
    ctor = {}
    for cls in classes:
        m = re.search(r"new\s+%s\s*\(([^;]*?)\)\s*;" % cls, body)
        if not m:
            raise AttrsError(f"process_{name}: constructor of {cls} not found")
        for k, a in enumerate(x.strip() for x in m.group(1).split(",")):
            for w in re.findall(r"[A-Za-z_]\w*", a):
                ctor.setdefault(w, []).append(f"ctor:{k}" if len(classes) == 1 else f"ctor:{cls}:{k}")
    setters = {}
    for st, arg in re.findall(r"->\s*(set_\w+)\s*\(\s*(\w+)\s*\)", body):
        setters.setdefault(arg, [])
        if st not in setters[arg]:
            setters[arg].append(st)
    sig = re.findall(r"DB_pair\s*\(\s*(\w+)\s*,", body)
    out = []
    for attr, v in pairs:
        cands = [v] + ([s2d[v]] if v in s2d else [])
        dest = []
        for c in cands:
            dest += ctor.get(c, [])
            dest += setters.get(c, [])
            if c in sig:
                dest.append("sigma")
        dest = sorted(set(dest))
        if name == "vec":
            # from/to go to the same argument of all three component objects; dx/dy/dz to one component each
            cs = [d for d in dest if d.startswith("ctor:")]
            if len(cs) == 3 and len(set(d.split(":")[2] for d in cs)) == 1:
                dest = [d for d in dest if not d.startswith("ctor:")] + ["ctor:" + cs[0].split(":")[2]]
        if len(dest) > 1:
            raise AttrsError(f"process_{name}: attribute {attr} reaches several destinations {dest}")
        out.append((tag, attr, dest[0] if dest else "dropped"))
    return out


ATTR_CTOR = {"from": "from_", "to": "to", "bs": "bs", "fs": "fs", "rs": "rs", "val": "val", "stdev": "stdev",
             "from_dh": "from_dh", "to_dh": "to_dh", "bs_dh": "bs_dh", "fs_dh": "fs_dh", "dist": "dist",
             "extern": "extern", "dx": "dx", "dy": "dy", "dz": "dz"}
ELEM_CTOR = {"distance": "distance", "angle": "angle", "s-distance": "sdistance", "z-angle": "zangle",
             "direction": "direction", "azimuth": "azimuth", "dh": "dh", "vec": "vec"}
DEST_CTOR = {"ctor:0": ".ctor 0", "ctor:1": ".ctor 1", "ctor:2": ".ctor 2", "ctor:3": ".ctor 3",
             "ctor:Xdiff:2": ".ctorX", "ctor:Ydiff:2": ".ctorY", "ctor:Zdiff:2": ".ctorZ",
             "set_from_dh": ".setFromDh", "set_to_dh": ".setToDh", "set_fs_dh": ".setFsDh", "set_extern": ".setExtern",
             "sigma": ".sigma", "dropped": ".dropped"}


def generate(repo):
    src = strip_comments((Path(repo) / "lib/gnu_gama/xml/gkfparser.cpp").read_text())
    rows = []
    for name in ELEMENTS:
        rows += routes_of(src, name)
    for e, a, d in rows:
        if a not in ATTR_CTOR:
            raise AttrsError(f"attribute name {a!r} of <{e}> is not known to the model")
        if d not in DEST_CTOR:
            raise AttrsError(f"destination {d!r} of {e}/{a} is not known to the model")
    L = ["/-",
         "  GENERATED by tools/gen/c13_attrs.py from lib/gnu_gama/xml/gkfparser.cpp — do not edit.",
         "  For every attribute GKFparser::process_* accepts: where its value ends up.",
         "-/",
         "namespace Gama.Gen.GkfAttrs",
         "",
         "inductive Elem where | distance | angle | sdistance | zangle | direction | azimuth | dh | vec",
         "deriving DecidableEq, Repr",
         "",
         "inductive Attr where | from_ | to | bs | fs | rs | val | stdev | from_dh | to_dh | bs_dh | fs_dh | dist | extern | dx | dy | dz",
         "deriving DecidableEq, Repr",
         "",
         "/-- constructor argument k / component constructor / setter / `sigma.push_back` / parsed but never stored -/",
         "inductive Dest where | ctor (k : Nat) | ctorX | ctorY | ctorZ | setFromDh | setToDh | setFsDh | setExtern | sigma | dropped",
         "deriving DecidableEq, Repr",
         "",
         "/-- `none` : the attribute is not accepted by the element (parser error) -/",
         "def route : Elem → Attr → Option Dest"]
    for e, a, d in rows:
        L.append(f"  | .{ELEM_CTOR[e]}, .{ATTR_CTOR[a]} => some ({DEST_CTOR[d][1:]})".replace("some (ctor", "some (.ctor").replace("some (", "some (.").replace("(..", "(."))
    L.append("  | _, _ => none")
    L += ["",
          "/-- the same table as text (element, attribute, destination) -/",
          "def routes : List (String × String × String) := ["]
    L.append(",\n".join(f'  ("{e}", "{a}", "{d}")' for e, a, d in rows))
    L += ["]", "", "end Gama.Gen.GkfAttrs", ""]
    return "\n".join(L)


if __name__ == "__main__":
    sys.stdout.write(generate(sys.argv[1] if len(sys.argv) > 1 else "/repo"))
