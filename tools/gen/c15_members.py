"""Translator C15:  lib/matvec/{memrep,matvecbase,matbase,mat}.h  ->  lean/Gama/Gen/MatMembers.lean

What persists in a `Mat` object between calls, and how `Mat::invert` treats the one member that is a raw
address (`Float* pentry`):

  * `members`      (class, member) of every data member of MemRep, MatVecBase, MatBase, Mat, base classes
                   first, declaration order.  `Props.C15.C15_members_modelled` compares the list with the
                   members the object-history model carries (`Gama.MatObj.modelMembers`): a NEW persistent
                   member breaks that theorem.
  * `implicitCopy` the classes (of MatVecBase, MatBase, Mat) that declare no copy constructor / copy
                   assignment of their own, i.e. whose members are copied verbatim by the implicit ones
                   (the model assumes all three; anything else is a broken tie).
  * `pentryInit`   how `Mat::invert` sets `pentry` before the first `entry(…)`:
                   `pentry = this->begin();`                        -> .always
                   `if (pentry == nullptr) pentry = this->begin();` -> .ifNull   (also `!pentry`, `== 0`, `NULL`)
                   anything else (no assignment before the first use, another right-hand side, a second
                   assignment, a use of `pentry`/`entry(` in another member function) -> Unparsable.
"""
import re
from pathlib import Path

CLASSES = [("MemRep", "memrep.h"), ("MatVecBase", "matvecbase.h"), ("MatBase", "matbase.h"), ("Mat", "mat.h")]


class Unparsable(Exception):
    pass


def strip_comments(s):
    s = re.sub(r"/\*.*?\*/", lambda m: re.sub(r"[^\n]", " ", m.group(0)), s, flags=re.S)
    return re.sub(r"//[^\n]*", "", s)


def block_at(src, i):
    """src[i] == '{' : (inner text, index after the closing brace)"""
    depth, j = 0, i
    while j < len(src):
        if src[j] == "{":
            depth += 1
        elif src[j] == "}":
            depth -= 1
            if depth == 0:
                return src[i + 1:j], j + 1
        j += 1
    raise Unparsable("unbalanced braces")


def class_body(src, name):
    m = re.search(r"\bclass\s+" + name + r"\b[^;{]*\{", src)
    if not m:
        raise Unparsable(f"class {name} not found")
    return block_at(src, m.end() - 1)[0]


TYPES = r"(?:const\s+)?(?:Float|Index|size_type|int|long|unsigned|double|bool|std::size_t|size_t)"


def data_members(body, cls):
    """[(name, declared type text)] of the data members at class scope; also the function-ish chunks"""
    out, funcs = [], []
    chunk, i = "", 0
    while i < len(body):
        ch = body[i]
        if ch == "{":
            inner, j = block_at(body, i)
            head = chunk.strip()
            # `Float* pentry {nullptr};`  — a brace initialiser of a data member, not a function body
            if re.fullmatch(TYPES + r"\s*\*?\s*[A-Za-z_]\w*", re.sub(r"\b(public|private|protected)\s*:", " ", head).strip()) \
                    and body[j:].lstrip().startswith(";"):
                chunk = head + " "
                i = j
                continue
            funcs.append((head, inner))
            chunk = ""
            i = j
            continue
        if ch == ";":
            decl = re.sub(r"\b(public|private|protected)\s*:", " ", chunk).strip()
            chunk = ""
            i += 1
            if not decl or decl.startswith("using ") or decl.startswith("typedef ") or decl.startswith("friend "):
                continue
            if "(" in decl:
                funcs.append((decl, None))
                continue
            m = re.match(r"^(" + TYPES + r")\b(.*)$", decl, re.S)
            if not m:
                raise Unparsable(f"{cls}: class-scope declaration not understood: {decl}")
            for item in m.group(2).split(","):
                mm = re.match(r"^\s*(\*?)\s*([A-Za-z_]\w*)\s*$", item, re.S)
                if not mm:
                    raise Unparsable(f"{cls}: member declarator not understood: {item.strip()}")
                out.append((mm.group(2), m.group(1).strip() + ("*" if mm.group(1) else "")))
            continue
        chunk += ch
        i += 1
    return out, funcs


def declares_copy(funcs, cls):
    for head, _ in funcs:
        h = re.sub(r"\s+", " ", head)
        if re.search(r"\b" + cls + r"\s*\(\s*const\s+" + cls + r"\b[^,)]*&\s*\w*\s*\)", h):
            return True
        if re.search(r"operator\s*=\s*\(\s*const\s+" + cls + r"\b[^,)]*&", h):
            return True
    return False


def run(repo, out_path):
    d = Path(repo) / "lib" / "matvec"
    members, implicit, mat_funcs = [], [], None
    mat_src = None
    for cls, fn in CLASSES:
        src = strip_comments((d / fn).read_text())
        body = class_body(src, cls)
        ms, funcs = data_members(body, cls)
        members += [(cls, n, t) for n, t in ms]
        if cls != "MemRep" and not declares_copy(funcs, cls):
            implicit.append(cls)
        if cls == "Mat":
            mat_funcs, mat_src = funcs, src
    if implicit != ["MatVecBase", "MatBase", "Mat"]:
        raise Unparsable("a class of MatVecBase/MatBase/Mat declares its own copy operations (the model copies "
                         "row_, col_, pentry verbatim): implicit = " + repr(implicit))
    if ("Mat", "pentry", "Float*") not in members:
        raise Unparsable("Mat::pentry (Float*) not found among the data members: " + repr(members))

    # ---- uses of pentry: the accessor entry(i,j) and Mat::invert only
    for head, inner in mat_funcs:
        if inner is None:
            continue
        name = re.sub(r"\s+", " ", head)
        if re.search(r"\bentry\s*\(\s*Index \w+\s*,\s*Index \w+\s*\)", name):
            if not re.fullmatch(r"\s*return\s*\*\s*\(\s*pentry\s*\+\s*(\w+)\s*\*\s*this->col_\s*\+\s*(\w+)\s*\)\s*;\s*", inner):
                raise Unparsable("Mat::entry is not `*(pentry + i*this->col_ + j)`: " + inner.strip())
            continue
        if re.search(r"\bpentry\b|\bentry\s*\(", inner):
            raise Unparsable("a member function defined in class Mat other than entry() uses pentry: " + name)
    defs = [m for m in re.finditer(r"Mat\s*<\s*Float\s*,\s*Index\s*,\s*Exc\s*>\s*::\s*(\w+)\s*\(", mat_src)]
    inv_body = None
    for m in defs:
        i = mat_src.index("{", m.end())
        inner, _ = block_at(mat_src, i)
        if m.group(1) == "invert":
            inv_body = inner
        elif re.search(r"\bpentry\b|\bentry\s*\(", inner):
            raise Unparsable(f"Mat::{m.group(1)} uses pentry / entry()")
    if inv_body is None:
        raise Unparsable("Mat::invert definition not found")
    first_use = re.search(r"\bentry\s*\(", inv_body)
    if not first_use:
        raise Unparsable("Mat::invert: no entry(…) access")
    assigns = list(re.finditer(r"\bpentry\s*=(?!=)", inv_body))
    if len(assigns) != 1 or assigns[0].start() > first_use.start():
        raise Unparsable("Mat::invert: expected exactly one assignment to pentry, before the first entry(…)")
    a = assigns[0]
    stmt_start = max(inv_body.rfind(";", 0, a.start()), inv_body.rfind("}", 0, a.start()), inv_body.rfind("{", 0, a.start())) + 1
    stmt = re.sub(r"\s+", " ", inv_body[stmt_start:inv_body.index(";", a.start())]).strip()
    if re.fullmatch(r"pentry = this->begin\(\)", stmt):
        init = "always"
    elif re.fullmatch(r"if \( ?(pentry == (nullptr|0|NULL)|! ?pentry) ?\) pentry = this->begin\(\)", stmt):
        init = "ifNull"
    else:
        raise Unparsable("Mat::invert: initialisation of pentry not understood: " + stmt)
    if re.search(r"\bpentry\b", inv_body[:stmt_start]):
        raise Unparsable("Mat::invert: pentry mentioned before its initialisation")

    L = ["/-\n  GENERATED by tools/gen/c15_members.py from lib/matvec/{memrep,matvecbase,matbase,mat}.h — do not edit.\n"
         "  Persistent data members of a `Mat` object and the way `Mat::invert` initialises `pentry`.\n-/\n"
         "import Gama.Model.MatObj\nnamespace Gama.Gen.MatMembers\n"]
    L.append("/-- (class, member, declared type) of every data member, base classes first -/")
    L.append("def members : List (String × String × String) := [\n  "
             + ",\n  ".join(f'("{c}", "{n}", "{t}")' for c, n, t in members) + "]\n")
    L.append("/-- classes whose copy constructor / copy assignment are the implicit (memberwise) ones -/")
    L.append("def implicitCopy : List String := [" + ", ".join(f'"{c}"' for c in implicit) + "]\n")
    L.append(f"/-- `Mat::invert`: `{stmt};` -/")
    L.append(f"def pentryInit : Gama.MatObj.PInit := .{init}\n")
    L.append("end Gama.Gen.MatMembers\n")
    txt = "\n".join(L)
    out = Path(out_path)
    out.parent.mkdir(exist_ok=True)
    if not out.exists() or out.read_text() != txt:
        out.write_text(txt)
        return True
    return False


if __name__ == "__main__":
    import sys
    print(run(sys.argv[1], sys.argv[2]))
