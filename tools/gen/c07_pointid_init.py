"""Translator C07 (init):  lib/gnu_gama/local/pointid.cpp  `void PointID::init(const std::string& s)`
    ->  lean/Gama/Gen/PointIdInit.lean   (`Gama.Gen.PointIdInit.init`, `.loopBody`, `.LoopState`)

The body is READ statement by statement, in source order, and every statement becomes one line of a
Lean `let` chain that keeps the C++ variable names (re-binding a name = assigning the variable):

    char t {};  bool prev{true}, curr{};  PointInt tmp = -1;      let t : UInt8 := 0 …
    x = <expr>;                                                   let x := <expr>
    X.push_back(<expr>);  X.pop_back();                           let X := X ++ [<expr>]   /  X.dropLast
    if (<cond>) continue;   (in the loop)                         if <cond> then <loop state> else …
    if (<cond>) return;                                           if <cond> then ⟨iid.toNat, sid⟩ else …
    if (<cond>) <one assignment / push_back / pop_back>           let v := if <cond> then <new v> else v
    for (char c : s) { … }                                        List.foldl of a GENERATED `loopBody` over the
                                                                  variables declared before it (`LoopState`)
Expressions (conditions, right-hand sides) go through a small parser:  ! && || == != < <= > >= ?: unary -,
parentheses, integer and character literals, variables, `X.empty()`, `X.back()` (only to the right of
`!X.empty() &&`), `out.str()`, and the library calls `std::isspace` (-> PointId.isSpace),
`GNU_gama::IsInteger(b, e)` (-> PointId.isInteger X for iterators b = X.begin(), e = X.end()).
Pinned idioms (statement level) are only the iostream ones and the iterator declarations:
    std::istringstream inp(X);  inp >> v;        let v := PointId.parseLong X
    std::ostringstream out;     out << v;        let out := PointId.renderNat v.toNat
    std::string::const_iterator b = X.begin();   (alias, no line)
Everything else -- order of the statements, conditions, negations, which variable is pushed, the blank
literal, the comparison operators, the early returns, the initial values -- comes from the source text.
Anything not understood is a broken tie (`Unparsable`).
"""
import re
from pathlib import Path


class Unparsable(Exception):
    pass


def strip_cxx_comments(s):
    s = re.sub(r"/\*.*?\*/", " ", s, flags=re.S)
    return re.sub(r"//[^\n]*", "", s)


TOK = re.compile(r"\s*(?:(\d+)|('(?:[^'\\]|\\.)')|([A-Za-z_]\w*(?:::[A-Za-z_]\w*)*)|(&&|\|\||==|!=|<=|>=|<<|>>|[-!<>();{}?:,.=&]))")


def tokenize(s):
    out, i = [], 0
    s = s.strip()
    while i < len(s):
        m = TOK.match(s, i)
        if not m:
            raise Unparsable(f"PointID::init: cannot tokenize `{s[i:i + 40]}`")
        i = m.end()
        if m.group(1):
            out.append(("num", m.group(1)))
        elif m.group(2):
            out.append(("chr", m.group(2)))
        elif m.group(3):
            out.append(("id", m.group(3)))
        else:
            out.append(("op", m.group(4)))
    return out


LEAN_TYPE = {"bool": "Bool", "char": "UInt8", "int": "Int", "str": "Bytes"}
CXX_TYPE = {"bool": "bool", "char": "char", "PointInt": "int"}
ESC = {"\\n": 10, "\\t": 9, "\\0": 0, "\\\\": 92, "\\'": 39, "\\r": 13, "\\v": 11, "\\f": 12}


def bad(why):
    raise Unparsable(f"PointID::init: {why}")


class Parser:
    """statements -> AST (tuples); expressions -> (type, lean term) resolved against self.vars at parse time"""

    def __init__(self, toks):
        self.t, self.i = toks, 0
        # variables in scope: name -> type.  Members / parameter first.
        self.vars = {"s": "str", "sid": "str", "iid": "int"}
        self.readonly = {"s"}
        self.iters = {}        # iterator name -> ("begin"|"end", string variable)
        self.istreams = {}     # name -> string variable it reads
        self.ostreams = {}     # name -> True once written
        self.frozen = set()    # string variables that iterators point into (must not change any more)
        self.nonempty = set()  # string variables known non-empty while parsing the right side of `!X.empty() &&`

    def peek(self, k=0):
        return self.t[self.i + k] if self.i + k < len(self.t) else (None, None)

    def at(self, v):
        return self.peek()[1] == v

    def eat(self, v=None, kind=None):
        k, x = self.peek()
        if x is None or (v is not None and x != v) or (kind is not None and k != kind):
            bad(f"expected `{v or kind}`, got `{x}`")
        self.i += 1
        return x

    # ------------------------------------------------------------------ statements
    def block(self):
        self.eat("{")
        out = []
        while not self.at("}"):
            out.extend(self.stmt())
        self.eat("}")
        return out

    def body(self):
        if self.at("{"):
            return self.block()
        return self.stmt()

    def stmt(self):
        """returns a list of AST statements (a declaration with two declarators gives two)"""
        k, x = self.peek()
        if x == "{":
            return self.block()
        if x == "for":
            return [self.for_range()]
        if x == "if":
            self.eat()
            self.eat("(")
            c = self.expr()
            self.eat(")")
            if c[0] != "bool":
                bad("condition is not a bool")
            inner = self.body()
            if self.at("else"):
                bad("`else` is not expected in init")
            if len(inner) != 1:
                bad("an `if` must guard exactly one statement")
            return [("if", c[1], inner[0])]
        if x in ("continue", "return"):
            self.eat()
            self.eat(";")
            return [(x,)]
        if k == "id" and x in CXX_TYPE:
            return self.declaration()
        if x == "std::string::const_iterator":
            self.eat()
            name = self.eat(kind="id")
            self.eat("=")
            var = self.eat(kind="id")
            self.eat(".")
            which = self.eat(kind="id")
            self.eat("(")
            self.eat(")")
            self.eat(";")
            if which not in ("begin", "end") or self.vars.get(var) != "str" or name in self.vars or name in self.iters:
                bad(f"iterator declaration `{name} = {var}.{which}()` not understood")
            self.iters[name] = (which, var)
            self.frozen.add(var)
            return [("note", f"std::string::const_iterator {name} = {var}.{which}();   (alias of {var})")]
        if x == "std::istringstream":
            self.eat()
            name = self.eat(kind="id")
            self.eat("(")
            var = self.eat(kind="id")
            self.eat(")")
            self.eat(";")
            if self.vars.get(var) != "str" or name in self.vars:
                bad(f"std::istringstream {name}({var}) not understood")
            self.istreams[name] = var
            return [("note", f"std::istringstream {name}({var});")]
        if x == "std::ostringstream":
            self.eat()
            name = self.eat(kind="id")
            self.eat(";")
            if name in self.vars:
                bad(f"std::ostringstream {name} redeclares a variable")
            self.ostreams[name] = False
            return [("note", f"std::ostringstream {name};")]
        if k == "id" and x in self.istreams and self.peek(1)[1] == ">>":
            self.eat()
            self.eat(">>")
            v = self.eat(kind="id")
            self.eat(";")
            if self.vars.get(v) != "int" or self.istreams[x] is None:
                bad(f"`{x} >> {v}`: not an extraction of a PointInt from a fresh stream")
            src, self.istreams[x] = self.istreams[x], None
            return [("assign", v, "int", f"parseLong {src}", f"{x} >> {v};   (std::istringstream {x}({src}))")]
        if k == "id" and x in self.ostreams and self.peek(1)[1] == "<<":
            self.eat()
            self.eat("<<")
            v = self.eat(kind="id")
            self.eat(";")
            if self.vars.get(v) != "int" or self.ostreams[x]:
                bad(f"`{x} << {v}`: not one insertion of a PointInt into an empty stream")
            self.ostreams[x] = True
            self.vars[x] = "str"
            self.readonly.add(x)
            return [("assign", x, "str", f"renderNat {v}.toNat", f"{x} << {v};   (std::ostringstream {x}; its content)")]
        if k == "id" and self.peek(1)[1] == "." and self.peek(2)[1] in ("push_back", "pop_back"):
            var = self.eat()
            self.eat(".")
            op = self.eat()
            self.eat("(")
            self.writable(var, "str")
            if op == "push_back":
                e = self.expr()
                if e[0] != "char":
                    bad("push_back of something that is not a char")
                self.eat(")")
                self.eat(";")
                return [("assign", var, "str", f"{var} ++ [{e[1]}]", None)]
            self.eat(")")
            self.eat(";")
            return [("assign", var, "str", f"{var}.dropLast", None)]
        if k == "id" and self.peek(1)[1] == "=":
            var = self.eat()
            self.eat("=")
            e = self.expr()
            self.eat(";")
            ty = self.vars.get(var)
            if ty is None:
                bad(f"assignment to unknown variable {var}")
            self.writable(var, ty)
            return [("assign", var, ty, self.convert(e, ty, var), None)]
        bad(f"statement not understood at `{x}`")

    def writable(self, var, ty):
        if self.vars.get(var) != ty or var in self.readonly:
            bad(f"`{var}` is not a writable {ty} variable")
        if var in self.frozen:
            bad(f"`{var}` is modified while iterators point into it")

    def convert(self, e, ty, what):
        if e[0] == ty:
            return e[1]
        bad(f"`{what}`: a {e[0]} where a {ty} is expected")

    def declaration(self):
        ty = CXX_TYPE[self.eat()]
        out = []
        while True:
            name = self.eat(kind="id")
            if name in self.vars or name in self.iters:
                bad(f"`{name}` declared twice")
            if self.at("{"):
                self.eat()
                if self.at("}"):
                    e = (ty, {"bool": "false", "char": "0", "int": "0"}[ty])
                else:
                    e = self.expr()
                self.eat("}")
            elif self.at("="):
                self.eat()
                e = self.expr()
            else:
                bad(f"`{name}` declared without an initial value")
            self.vars[name] = ty
            out.append(("decl", name, ty, self.convert(e, ty, name)))
            if self.at(","):
                self.eat()
                continue
            self.eat(";")
            return out

    def for_range(self):
        self.eat("for")
        self.eat("(")
        if self.eat(kind="id") != "char":
            bad("range-for over something that is not `char`")
        if self.at("&"):
            bad("range-for by reference")
        c = self.eat(kind="id")
        self.eat(":")
        seq = self.eat(kind="id")
        self.eat(")")
        if self.vars.get(seq) != "str" or c in self.vars:
            bad("range-for not understood")
        self.vars[c] = "char"
        self.readonly.add(c)
        self.readonly.add(seq)
        body = self.body()
        del self.vars[c]
        self.readonly.discard(c)
        if seq != "s":
            self.readonly.discard(seq)
        return ("for", c, seq, body)

    # ------------------------------------------------------------------ expressions: (type, lean term)
    def expr(self):
        c = self.disj()
        if self.at("?"):
            self.eat()
            a = self.expr()
            self.eat(":")
            b = self.expr()
            if c[0] != "bool" or a[0] != b[0]:
                bad("`?:` with a non-bool condition or arms of different types")
            return (a[0], f"(if {c[1]} then {a[1]} else {b[1]})")
        return c

    def disj(self):
        l = self.conj()
        while self.at("||"):
            self.eat()
            r = self.conj()
            if l[0] != "bool" or r[0] != "bool":
                bad("`||` of non-bools")
            l = ("bool", f"({l[1]} || {r[1]})")
        return l

    def conj(self):
        l = self.cmp()
        added = []
        while self.at("&&"):
            self.eat()
            m = re.fullmatch(r"\(!(\w+)\.isEmpty\)", l[1])
            if m and m.group(1) not in self.nonempty:
                self.nonempty.add(m.group(1))
                added.append(m.group(1))
            r = self.cmp()
            if l[0] != "bool" or r[0] != "bool":
                bad("`&&` of non-bools")
            l = ("bool", f"({l[1]} && {r[1]})")
        for v in added:
            self.nonempty.discard(v)
        return l

    def cmp(self):
        l = self.unary()
        if self.peek()[1] in ("==", "!=", "<", ">", "<=", ">="):
            op = self.eat()
            r = self.unary()
            if l[0] != r[0] or l[0] not in ("int", "str", "char", "bool"):
                bad(f"comparison `{op}` of {l[0]} and {r[0]}")
            a, b = l[1], r[1]
            if op == "==":
                return ("bool", f"decide ({a} = {b})")
            if op == "!=":
                return ("bool", f"decide ({a} ≠ {b})")
            if l[0] != "int":
                bad(f"ordering `{op}` of {l[0]}s is not expected in init")
            rel = {"<": f"{a} < {b}", ">": f"{b} < {a}", "<=": f"{a} ≤ {b}", ">=": f"{b} ≤ {a}"}[op]
            return ("bool", f"decide ({rel})")
        return l

    def unary(self):
        k, x = self.peek()
        if x == "!":
            self.eat()
            e = self.unary()
            if e[0] != "bool":
                bad("`!` of a non-bool")
            return ("bool", f"(!{e[1]})")
        if x == "-":
            self.eat()
            e = self.unary()
            if e[0] != "int":
                bad("unary `-` of a non-integer")
            return ("int", f"(-{e[1]})")
        if x == "(":
            self.eat()
            e = self.expr()
            self.eat(")")
            return e
        self.eat()
        if k == "num":
            return ("int", x)
        if k == "chr":
            inner = x[1:-1]
            code = ESC.get(inner) if inner.startswith("\\") else ord(inner)
            if code is None or code > 127:
                bad(f"character literal {x} not understood")
            return ("char", f"({code} : UInt8)")
        if x in ("true", "false"):
            return ("bool", x)
        if x == "std::isspace":
            self.eat("(")
            e = self.expr()
            self.eat(")")
            if e[0] != "char":
                bad("std::isspace of a non-char")
            return ("bool", f"isSpace {e[1]}")
        if x == "GNU_gama::IsInteger":
            self.eat("(")
            b = self.eat(kind="id")
            self.eat(",")
            e = self.eat(kind="id")
            self.eat(")")
            ib, ie = self.iters.get(b), self.iters.get(e)
            if not ib or not ie or ib[0] != "begin" or ie[0] != "end" or ib[1] != ie[1]:
                bad(f"IsInteger({b}, {e}): not the begin/end of one string")
            # IsInteger advances its first argument: the iterators must not be used again
            del self.iters[b], self.iters[e]
            return ("bool", f"isInteger {ib[1]}")
        if k == "id" and self.at("."):
            self.eat(".")
            m = self.eat(kind="id")
            self.eat("(")
            self.eat(")")
            if m == "str" and self.ostreams.get(x):
                return ("str", x)
            if self.vars.get(x) != "str":
                bad(f"`{x}.{m}()` on something that is not a string")
            if m == "empty":
                return ("bool", f"{x}.isEmpty")
            if m == "back":
                if x not in self.nonempty:
                    bad(f"`{x}.back()` not guarded by `!{x}.empty() &&`")
                return ("char", f"({x}.getLastD 0)")
            bad(f"member call `{x}.{m}()` not understood")
        if k == "id" and x in self.vars and x not in self.ostreams:
            return (self.vars[x], x)
        bad(f"unexpected token `{x}`")


# ---------------------------------------------------------------------- emission

def assigned(stmts):
    out = []
    for st in stmts:
        if st[0] in ("assign", "decl"):
            out.append(st[1])
        elif st[0] == "if":
            out.extend(assigned([st[2]]))
        elif st[0] == "for":
            out.extend(assigned(st[3]))
    return out


class Emitter:
    def __init__(self):
        self.defs = []          # generated helper definitions (loop state, loop body)
        self.declared = {}      # name -> type, in declaration order
        self.iid_set = False

    def chain(self, stmts, result, in_loop, ind="  "):
        """lines of a let chain ending in `result` (the value when control falls off the end)"""
        lines = []
        for n, st in enumerate(stmts):
            kind = st[0]
            if kind == "note":
                lines.append(f"{ind}-- {st[1]}")
            elif kind == "decl":
                self.declared[st[1]] = st[2]
                lines.append(f"{ind}let {st[1]} : {LEAN_TYPE[st[2]]} := {st[3]}")
            elif kind == "assign":
                if st[1] == "iid":
                    self.iid_set = True
                if st[1] not in self.declared:
                    self.declared[st[1]] = st[2]
                lines.append(f"{ind}let {st[1]} : {LEAN_TYPE[st[2]]} := {st[3]}" + (f"   -- {st[4]}" if st[4] else ""))
            elif kind == "if":
                inner = st[2]
                if inner[0] == "continue":
                    if not in_loop:
                        bad("`continue` outside the loop")
                    lines.append(f"{ind}if {st[1]} then {result} else   -- continue")
                elif inner[0] == "return":
                    if in_loop:
                        bad("`return` inside the loop")
                    if not self.iid_set:
                        bad("`return` before iid is assigned")
                    lines.append(f"{ind}if {st[1]} then {result} else   -- return")
                elif inner[0] == "assign":
                    if inner[1] not in self.declared:
                        bad(f"conditional first assignment of `{inner[1]}`")
                    lines.append(f"{ind}let {inner[1]} : {LEAN_TYPE[inner[2]]} := if {st[1]} then {inner[3]} else {inner[1]}")
                else:
                    bad("an `if` guarding something else than continue / return / one assignment")
            elif kind in ("continue", "return"):
                bad(f"unconditional `{kind}`")
            elif kind == "for":
                if in_loop:
                    bad("nested loop")
                lines.extend(self.loop(st, ind))
            else:
                bad(f"internal: statement kind {kind}")
        lines.append(f"{ind}{result}")
        return lines

    def loop(self, st, ind):
        _, c, seq, body = st
        if self.defs:
            bad("a second loop")
        names = []
        for v in assigned(body):
            if v not in names:
                names.append(v)
        for v in names:
            if v not in self.declared:
                bad(f"the loop assigns `{v}` which has no value before the loop")
        # every variable that has a value before the loop is carried (the body may read what it does not assign)
        state = list(self.declared)                            # declaration order
        fields = "\n".join(f"  {v} : {LEAN_TYPE[self.declared[v]]}" for v in state)
        tup = "⟨" + ", ".join(state) + "⟩"
        self.defs.append(f"/-- the variables alive in the body of `for (char {c} : {seq})` -/\n"
                         f"structure LoopState where\n{fields}\n")
        inner = [f"  let {v} := st.{v}" for v in state]
        inner += self.chain(body, tup, True)
        self.defs.append(f"/-- one pass through the body of `for (char {c} : {seq})`, statement by statement -/\n"
                         f"def loopBody (st : LoopState) ({c} : UInt8) : LoopState :=\n" + "\n".join(inner) + "\n")
        out = [f"{ind}let st := {seq}.foldl loopBody {tup}   -- for (char {c} : {seq})"]
        out += [f"{ind}let {v} := st.{v}" for v in state]
        return out


def function_body(src):
    m = re.search(r"void\s+PointID::init\s*\(\s*const\s+std::string\s*&\s*s\s*\)\s*\{", src)
    if not m:
        raise Unparsable("pointid.cpp: void PointID::init(const std::string& s) not found")
    i, d = m.end() - 1, 0
    for j in range(i, len(src)):
        d += src[j] == "{"
        d -= src[j] == "}"
        if d == 0:
            return src[i:j + 1], src[:m.start()] + src[j + 1:]
    raise Unparsable("pointid.cpp: unbalanced braces")


def generate(repo):
    try:
        src = strip_cxx_comments((Path(repo) / "lib/gnu_gama/local/pointid.cpp").read_text())
        hdr = strip_cxx_comments((Path(repo) / "lib/gnu_gama/local/pointid.h").read_text())
    except OSError as ex:
        raise Unparsable(str(ex))
    body, rest = function_body(src)
    # `init` runs on a PointID under construction only: sid is the empty string on entry
    if re.search(r"\binit\s*\(", rest):
        raise Unparsable("pointid.cpp: init is called outside the constructors")
    calls = re.findall(r"\binit\s*\(", hdr)
    ctors = re.findall(r"PointID\s*\([^()]*\)\s*\{\s*init\s*\(\s*(?:std::string\s*\([^()]*\)|s)\s*\)\s*;\s*\}", hdr)
    if len(calls) != len(ctors) + 1 or not re.search(r"void\s+init\s*\(\s*const\s+std::string\s*&\s*\w*\s*\)\s*;", hdr):
        raise Unparsable("pointid.h: init is called from something that is not a constructor `PointID(…) { init(…); }`")
    if not re.search(r"using\s+PointInt\s*=\s*long\s*;", hdr) or not re.search(r"PointInt\s+iid\s*;", hdr) \
            or not re.search(r"std::string\s+sid\s*;", hdr):
        raise Unparsable("pointid.h: members `using PointInt = long; PointInt iid; std::string sid;` not found")
    p = Parser(tokenize(body))
    stmts = p.block()
    if p.peek()[1] is not None:
        bad("text after the function body")
    em = Emitter()
    em.declared["sid"] = "str"
    lines = em.chain(stmts, "⟨iid.toNat, sid⟩", False)
    if not em.iid_set:
        bad("iid is never assigned")
    o = ["""/-
  GENERATED by tools/gen/c07_pointid_init.py from lib/gnu_gama/local/pointid.cpp
  (`void PointID::init(const std::string& s)`) on every run of the C07 check.  Do not edit.
  One line per C++ statement, in source order, same variable names; re-binding a name is assignment.
  `isSpace`, `isInteger`, `parseLong`, `renderNat` are the library functions of Model/PointIdBase.lean
  (std::isspace, GNU_gama::IsInteger, `istringstream >> long`, `ostringstream << long` for a value ≥ 0).
  `iid` is a `long` here; the model's `PointID.iid` is a natural number (`init` stores no negative value),
  so the result is `⟨iid.toNat, sid⟩`.  `X.getLastD 0` is `X.back()`, always under `!X.empty() &&`.
  The `-1` of `PointInt tmp = -1;` is what `tmp` keeps when the extraction fails, which cannot happen
  after `IsInteger` accepted the string: the extraction overwrites it.
-/
import Gama.Model.PointIdBase
set_option linter.unusedVariables false
namespace Gama.Gen.PointIdInit
open Gama.PointId
"""]
    o.extend(em.defs)
    o.append("/-- `PointID::init`; `sid` is the empty string on entry (init is called from the constructors only) -/\n"
             "def init (s : Bytes) : PointID :=\n  let sid : Bytes := []\n" + "\n".join(lines) + "\n")
    o.append("end Gama.Gen.PointIdInit\n")
    return "\n".join(o)


def run(repo, lean_dir):
    txt = generate(repo)
    p = Path(lean_dir) / "Gama" / "Gen" / "PointIdInit.lean"
    if p.exists() and p.read_text() == txt:
        return False
    p.parent.mkdir(parents=True, exist_ok=True)
    p.write_text(txt)
    return True


if __name__ == "__main__":
    import sys
    ch = run(sys.argv[1] if len(sys.argv) > 1 else "/repo", sys.argv[2] if len(sys.argv) > 2 else "/verif/lean")
    print("PointIdInit.lean", "changed" if ch else "unchanged")
