"""
C06 network generators and the end-to-end oracle.

Networks are built *constructively* from true coordinates: starting from the fixed
points every further point is attached by a documented approximate-coordinate
strategy (polar, forward intersection, distance intersection, resection, traverse,
levelling / vector / zenith+distance heights).  All observations are exact functions of
the true coordinates (double arithmetic, printed with 10 decimals).  The point
dict keeps "how" (the attaching strategy) so that failures can be reported per strategy.

Everything is derived from the random.Random passed in.
"""
import copy
import math
import re

from lib import gen_net as G

GON = G.GON
ANGULAR = {"direction", "angle", "zenith-angle", "azimuth"}
ALGS = ["gso", "svd", "cholesky", "envelope"]


# ----------------------------------------------------------------- observation functions
def f_direction(P, s, t, orient):
    return (G.bearing(P[s], P[t]) * GON - orient) % 400.0


def f_angle(P, s, bs, fs):
    return ((G.bearing(P[s], P[fs]) - G.bearing(P[s], P[bs])) * GON) % 400.0


def f_zangle(P, s, t, idh=0.0, tdh=0.0):
    dz = P[t]["z"] - P[s]["z"] + tdh - idh
    return math.acos(dz / G.dist3(P[s], P[t], tdh - idh)) * GON


def special_orient(rng):
    r = rng.random()
    if r < 0.55:
        return rng.uniform(0, 400)
    eps = rng.choice([0.0, 1e-9, 1e-7, 1e-5, 1e-3])
    base = rng.choice([0.0, 200.0, 200.0, 400.0, 100.0, 300.0])
    v = base + rng.choice([-1, 1]) * eps
    return min(max(v, 0.0), 399.9999999999)


class Builder:
    def __init__(self, rng, dim=2, scale=1000.0):
        self.rng, self.dim, self.scale = rng, dim, scale
        self.P = {}          # id -> point dict
        self.order = []      # ids in construction order
        self.stations = {}   # id -> obs cluster (one circle per station)
        self.extra = []      # other clusters
        self.heights = False
        self.big_dh = False  # instrument / target heights that differ by metres (signal targets, masts)

    # -- points
    def new_xy(self, far_from=20.0):
        for _ in range(200):
            x, y = self.rng.uniform(0, self.scale), self.rng.uniform(0, self.scale)
            if all(math.hypot(x - p["x"], y - p["y"]) > far_from for p in self.P.values() if "x" in p):
                return x, y
        return x, y

    def add_point(self, status, how, xy=None, prefix="P", step=None):
        pid = f"{prefix}{len(self.P) + 1}"
        x, y = xy if xy else self.new_xy()
        # "how" = family of the construction, "step" = the exact construction (strategy + branch + configuration)
        p = {"x": x, "y": y, "status": status, "approx": True, "how": how, "step": step or how}
        if self.dim == 3:
            p["z"] = self.rng.uniform(0, self.scale / 10)
        self.P[pid] = p
        self.order.append(pid)
        return pid

    def known(self):
        return list(self.order)

    # -- observations
    def station(self, s):
        if s not in self.stations:
            self.stations[s] = {"kind": "obs", "from": s, "orient": special_orient(self.rng), "items": [],
                                "idh": (self.rng.uniform(1.2, 1.8) if self.heights else 0.0)}
        return self.stations[s]

    def has(self, s, t, kind):
        return s in self.stations and any(i["t"] == kind and i.get("to") == t for i in self.stations[s]["items"])

    def direction(self, s, t):
        if self.has(s, t, "direction"):
            return
        st = self.station(s)
        st["items"].append({"t": "direction", "to": t, "val": f_direction(self.P, s, t, st["orient"]), "stdev": 10.0})

    def distance(self, s, t):
        if self.has(s, t, "distance"):
            return
        self.station(s)["items"].append({"t": "distance", "to": t, "val": G.dist2(self.P[s], self.P[t]), "stdev": 5.0})

    def angle(self, s, bs, fs):
        self.station(s)["items"].append({"t": "angle", "bs": bs, "fs": fs, "val": f_angle(self.P, s, bs, fs), "stdev": 10.0})

    def azimuth(self, s, t):
        self.station(s)["items"].append({"t": "azimuth", "to": t, "val": (G.bearing(self.P[s], self.P[t]) * GON) % 400.0,
                                         "stdev": 10.0})

    def setstep(self, p, step):
        self.P[p]["step"] = step + (":dh" if self.heights else "") + (":bigdh" if self.heights and self.big_dh else "")

    def slope(self, s, t, zangle=True, sdist=True):
        st = self.station(s)
        idh = st["idh"]
        tdh = self.rng.uniform(1.0, 2.0) if self.heights else 0.0
        if self.heights and self.big_dh:
            tdh = self.rng.choice([0.0, self.rng.uniform(3.5, 6.5)])
        if sdist and not self.has(s, t, "s-distance"):
            it = {"t": "s-distance", "to": t, "val": G.dist3(self.P[s], self.P[t], tdh - idh), "stdev": 5.0}
            if self.heights:
                it["from_dh"], it["to_dh"] = idh, tdh
            st["items"].append(it)
        if zangle and not self.has(s, t, "z-angle"):
            it = {"t": "z-angle", "to": t, "val": f_zangle(self.P, s, t, idh, tdh), "stdev": 10.0}
            if self.heights:
                it["from_dh"], it["to_dh"] = idh, tdh
            st["items"].append(it)

    def dh(self, a, b):
        for c in self.extra:
            if c["kind"] == "hdiffs":
                break
        else:
            c = {"kind": "hdiffs", "items": []}
            self.extra.append(c)
        c["items"].append({"from": a, "to": b, "val": self.P[b]["z"] - self.P[a]["z"], "stdev": 1.0})

    def vector(self, a, b):
        for c in self.extra:
            if c["kind"] == "vectors":
                break
        else:
            c = {"kind": "vectors", "items": [], "cov": None}
            self.extra.append(c)
        c["items"].append({"from": a, "to": b, "dx": self.P[b]["x"] - self.P[a]["x"],
                           "dy": self.P[b]["y"] - self.P[a]["y"], "dz": self.P[b]["z"] - self.P[a]["z"]})

    def orient_station(self, s, exclude=(), k=None):
        """make the circle at s orientable: directions to k already known points"""
        others = [q for q in self.known() if q != s and q not in exclude]
        k = k or self.rng.choice([1, 2, 2, 3, 4])
        for t in self.rng.sample(others, min(k, len(others))):
            self.direction(s, t)

    def net(self):
        obs = []
        for s in self.stations.values():
            c = {k: v for k, v in s.items() if k != "idh"}
            if c["items"]:
                obs.append(c)
        obs += [c for c in self.extra if c["items"]]
        pts = {pid: dict(p) for pid, p in self.P.items()}
        obs = copy.deepcopy(obs)
        return {"dim": 2 if self.dim == 2 else 3, "points": pts, "obs": obs,
                "params": {"sigma-apr": 10, "conf-pr": 0.95, "tol-abs": 1000, "sigma-act": "apriori"}}


def well_conditioned(P, new, refs, min_gon=25.0):
    """rays from `new` to refs pairwise neither parallel nor anti-parallel within min_gon"""
    b = [G.bearing(P[new], P[r]) * GON for r in refs]
    for i in range(len(b)):
        for j in range(i + 1, len(b)):
            d = abs(b[i] - b[j]) % 200.0
            if min(d, 200.0 - d) < min_gon:
                return False
    return True


def not_collinear(P, ids, rel=0.15):
    """the three centres of a distance intersection must not be (nearly) collinear: otherwise the mirror image of
    the new point in their line fits all three distances as well and the documented strategy rightly refuses"""
    a, b, c = (P[i] for i in ids[:3])
    cross = abs((b["x"] - a["x"]) * (c["y"] - a["y"]) - (b["y"] - a["y"]) * (c["x"] - a["x"]))
    side = max(math.hypot(b["x"] - a["x"], b["y"] - a["y"]), math.hypot(c["x"] - a["x"], c["y"] - a["y"]),
               math.hypot(c["x"] - b["x"], c["y"] - b["y"]))
    return cross / side > rel * side          # height of the triangle over its longest side


def off_danger_circle(P, new, refs, rel=0.15):
    """resection: the new point must stay clear of the circle through any three of the reference points"""
    import itertools
    for a, b, c in itertools.combinations(refs, 3):
        ax, ay, bx, by, cx, cy = P[a]["x"], P[a]["y"], P[b]["x"], P[b]["y"], P[c]["x"], P[c]["y"]
        d = 2 * (ax * (by - cy) + bx * (cy - ay) + cx * (ay - by))
        if abs(d) < 1e-9:
            continue
        ux = ((ax * ax + ay * ay) * (by - cy) + (bx * bx + by * by) * (cy - ay) + (cx * cx + cy * cy) * (ay - by)) / d
        uy = ((ax * ax + ay * ay) * (cx - bx) + (bx * bx + by * by) * (ax - cx) + (cx * cx + cy * cy) * (bx - ax)) / d
        R = math.hypot(ax - ux, ay - uy)
        if abs(math.hypot(P[new]["x"] - ux, P[new]["y"] - uy) - R) < rel * R:
            return False
    return True


def attach(B, how):
    """attach one new point by strategy `how`; returns its id or None when geometry was unsuitable"""
    rng = B.rng
    known = B.known()
    status = "adj"
    if how == "polar":
        s = rng.choice(known)
        p = B.add_point(status, how)
        B.orient_station(s, exclude=(p,))
        B.direction(s, p)
        if B.dim == 3:
            B.slope(s, p)
            hdist = rng.random() < 0.5
            if hdist:
                B.distance(s, p)
            B.setstep(p, "polar:3d:zenith+slope" + ("+distance" if hdist else "") + ":target-from-station")
        else:
            B.distance(s, p)
            B.setstep(p, "polar:2d")
        return p
    if how == "intersect":       # forward intersection by directions from 2-3 known stations
        for _ in range(30):
            xy = B.new_xy()
            B.P["_"] = {"x": xy[0], "y": xy[1]}
            ss = rng.sample(known, min(len(known), rng.choice([2, 3, 3])))
            ok = len(ss) >= 2 and well_conditioned(B.P, "_", ss)
            del B.P["_"]
            if ok:
                break
        else:
            return None
        p = B.add_point(status, how, xy)
        for s in ss:
            B.orient_station(s, exclude=(p,))
            B.direction(s, p)
        if B.dim == 3:
            B.slope(ss[0], p, sdist=False)
        B.setstep(p, f"intersect:{len(ss)}-directions" + (":z-from-zenith+coordinates:target-from-station" if B.dim == 3 else ""))
        return p
    if how == "distint":         # three distances
        if len(known) < 3:
            return None
        for _ in range(30):
            xy = B.new_xy()
            B.P["_"] = {"x": xy[0], "y": xy[1]}
            ss = rng.sample(known, 3)
            ok = well_conditioned(B.P, "_", ss) and not_collinear(B.P, ss)
            del B.P["_"]
            if ok:
                break
        else:
            return None
        p = B.add_point(status, how, xy)
        for s in ss:
            if rng.random() < 0.5:
                B.distance(s, p)
            else:
                B.distance(p, s)
        if B.dim == 3:
            B.slope(ss[0], p, sdist=False)
        B.setstep(p, "distint:3-distances" + (":z-from-zenith+coordinates:target-from-station" if B.dim == 3 else ""))
        return p
    if how == "resect":          # directions from the new point to >= 4 known points
        if len(known) < 4:
            return None
        for _ in range(30):
            xy = B.new_xy()
            B.P["_"] = {"x": xy[0], "y": xy[1]}
            ss = rng.sample(known, min(len(known), rng.choice([4, 4, 5])))
            ok = well_conditioned(B.P, "_", ss, 20.0) and off_danger_circle(B.P, "_", ss)
            del B.P["_"]
            if ok:
                break
        else:
            return None
        p = B.add_point(status, how, xy)
        use_angles = rng.random() < 0.3
        if use_angles:
            for a, b in zip(ss, ss[1:]):
                B.angle(p, a, b)
        else:
            for s in ss:
                B.direction(p, s)
        if B.dim == 3:
            B.slope(p, ss[0], sdist=False)
        B.setstep(p, f"resect:{len(ss)}-{'angles' if use_angles else 'directions'}"
                  + (":z-from-zenith+coordinates:station-from-target" if B.dim == 3 else ""))
        return p
    if how == "traverse":        # A(orientable) -> T1 .. Tk -> C(known)
        if len(known) < 3:
            return None
        a, c = rng.sample(known, 2)
        k = rng.choice([1, 2, 3])
        pa, pc = B.P[a], B.P[c]
        B.orient_station(a, exclude=(c,))
        prev, ids = a, []
        for i in range(1, k + 1):
            t = i / (k + 1)
            off = rng.uniform(-0.15, 0.15) * math.hypot(pc["x"] - pa["x"], pc["y"] - pa["y"])
            nx, ny = -(pc["y"] - pa["y"]), pc["x"] - pa["x"]
            nn = math.hypot(nx, ny) or 1.0
            xy = (pa["x"] + t * (pc["x"] - pa["x"]) + off * nx / nn, pa["y"] + t * (pc["y"] - pa["y"]) + off * ny / nn)
            p = B.add_point(status, how, xy)
            ids.append(p)
            B.direction(prev, p)
            B.distance(prev, p)
            B.direction(p, prev)
            if B.dim == 3:
                B.slope(prev, p, sdist=False)
            B.setstep(p, f"traverse:{k}-points:point-{i}" + (":z-from-zenith+coordinates:target-from-station" if B.dim == 3 else ""))
            prev = p
        B.direction(prev, c)
        B.distance(prev, c)
        B.direction(c, prev)
        B.orient_station(c, exclude=ids)
        return ids[-1]
    if how == "azimuth":
        # AcordAzimuth orders the pair by PointID: the unknown end point gets an id that sorts before ("A…") or
        # after ("P…" / "Q…") the known one, and the azimuth is observed from either end
        s = rng.choice(known)
        p = B.add_point(status, how, prefix=rng.choice(["A", "Q"]))
        smaller = p.encode() < s.encode()
        fwd = rng.random() < 0.5
        B.azimuth(s, p) if fwd else B.azimuth(p, s)
        B.distance(s, p) if rng.random() < 0.5 else B.distance(p, s)
        if B.dim == 3:
            B.slope(s, p, sdist=False)
        B.setstep(p, f"azimuth+distance:unknown-{'smaller' if smaller else 'larger'}-id:observed-from-{'known' if fwd else 'unknown'}"
                  + (":z-from-zenith+coordinates:target-from-station" if B.dim == 3 else ""))
        return p
    if how == "vector":
        s = rng.choice(known)
        p = B.add_point(status, how)
        fwd = rng.random() < 0.5
        B.vector(s, p) if fwd else B.vector(p, s)
        B.setstep(p, "vector:" + ("from-known" if fwd else "to-known"))
        return p
    if how == "zstation":
        # a new station whose xy comes from a polar sight taken at a known station and whose height comes ONLY from
        # its own zenith angle + distance sights to targets with known heights (AcordZderived, station from targets)
        if B.dim != 3:
            return None
        s = rng.choice(known)
        p = B.add_point(status, how)
        B.orient_station(s, exclude=(p,))
        B.direction(s, p)
        B.distance(s, p)
        tg = rng.sample(known, min(len(known), rng.choice([1, 2, 2])))
        kinds = []
        for t in tg:
            k = rng.choice(["zenith+slope", "zenith+distance", "zenith+slope+distance"])
            kinds.append(k)
            B.slope(p, t, sdist="slope" in k)
            if "distance" in k:
                B.distance(p, t)
        B.setstep(p, "polar-xy + z:station-from-targets:" + "|".join(sorted(set(kinds))))
        return p
    raise ValueError(how)


FAMILIES_2D = ["polar", "intersect", "distint", "resect", "traverse", "mix", "azimuth"]
FAMILIES_3D = ["polar", "intersect", "traverse", "vector", "mix", "hdiff", "zstation", "azimuth"]


def constructive(rng, dim=2, family="mix", nnew=None, heights=False):
    B = Builder(rng, dim)
    B.heights = heights
    B.big_dh = heights and rng.random() < 0.5
    nfix = rng.choice([2, 3, 4]) if family not in ("resect", "distint") else rng.choice([4, 5])
    for _ in range(nfix):
        B.add_point("fix", "fix")
    nnew = nnew or rng.choice([1, 2, 3, 4])
    tries = 0
    made = 0
    while made < nnew and tries < 20:
        tries += 1
        how = family
        if family == "mix":
            how = rng.choice(["polar", "polar", "intersect", "distint", "resect", "traverse"] if dim == 2
                             else ["polar", "polar", "intersect", "traverse", "vector", "zstation", "azimuth"])
        if family == "hdiff":
            how = "polar"
        if attach(B, how):
            made += 1
    if made == 0:
        attach(B, "polar")
    if dim == 3 and family == "hdiff":
        ids = B.known()
        for a, b in zip(ids, ids[1:]):
            B.dh(a, b)
    if dim == 3 and rng.random() < 0.3 and family != "hdiff":
        ids = rng.sample(B.known(), min(3, len(B.known())))
        for a, b in zip(ids, ids[1:]):
            B.dh(a, b)
    return B


def trilateration(rng, scale=None):
    """a PURE trilateration network (round 4, stopping test): 3..5 fixed points, 1..3 new points, every new point tied
    by distances only (3..5 of them, well conditioned), plus distances between the new points.  With approximate
    coordinates off by decimetres EVERY positional misclosure of the stopping test is <= 0 (the distance recomputed
    from the corrected coordinates is a convex function of them, the linearised one its tangent): the iteration goes
    on only because TestLinearization takes |misclosure|."""
    B = Builder(rng, 2, scale or rng.choice([200.0, 500.0, 1000.0]))
    for _ in range(rng.choice([3, 4, 5])):
        B.add_point("fix", "fix")
    for _ in range(20):
        if not_collinear(B.P, B.known()[:3], 0.3):
            break
        B.P, B.order = {}, []
        for _ in range(rng.choice([3, 4, 5])):
            B.add_point("fix", "fix")
    made = 0
    want = rng.choice([1, 2, 2, 3])
    for _ in range(40):
        if made >= want:
            break
        known = B.known()
        xy = B.new_xy(far_from=0.1 * B.scale)
        B.P["_"] = {"x": xy[0], "y": xy[1]}
        ss = rng.sample(known, min(len(known), rng.choice([3, 4, 5])))
        ok = well_conditioned(B.P, "_", ss[:3], 30.0) and not_collinear(B.P, ss, 0.3)
        del B.P["_"]
        if not ok:
            continue
        p = B.add_point("adj", "trilat", xy)
        for s_ in ss:
            if rng.random() < 0.5:
                B.distance(s_, p)
            else:
                B.distance(p, s_)
        B.setstep(p, f"trilat:{len(ss)}-distances")
        made += 1
    return B if made else None


def variant_trilat_perturbed(net, rng):
    """approximate coordinates of every unknown point off by 0.1 .. 0.5 m in each coordinate"""
    n = copy.deepcopy(net)
    n["params"]["tol-abs"] = 30000
    for p in n["points"].values():
        if p["status"] == "fix":
            continue
        for c in ("x", "y"):
            p[c] += rng.choice([-1, 1]) * rng.uniform(0.1, 0.5)
    return n


def add_redundant(B, k):
    """k further consistent observations between existing points"""
    rng = B.rng
    ids = B.known()
    for _ in range(k):
        s, t = rng.sample(ids, 2)
        r = rng.random()
        if r < 0.4:
            B.distance(s, t)
        elif r < 0.8:
            if s in B.stations and any(i["t"] == "direction" for i in B.stations[s]["items"]):
                B.direction(s, t)
            else:
                B.distance(s, t)
        elif B.dim == 3:
            B.slope(s, t)
        else:
            B.distance(t, s)


def levelling(rng):
    n = G.levelling_network(rng, npts=rng.randint(3, 8), nfixed=rng.choice([1, 1, 2]), extra=rng.randint(0, 4))
    for p in n["points"].values():
        p["how"] = "fix" if p["status"] == "fix" else "hdiff"
    n["params"]["sigma-act"] = "apriori"
    return n


AXES = ["ne", "sw", "es", "wn", "en", "nw", "se", "ws"]
ANGLES = ["left-handed", "right-handed"]


def mirror(net, axes, angles):
    """the same network described in another coordinate system / angle sense (base description: x north, y east,
    left-handed angles = gama's defaults); as tools/gen/c07_meta.py::t_mirror, without covariance transport
    (the generated vector clusters carry a unit matrix, invariant under a signed permutation)"""
    d = {"n": (1, "x"), "s": (-1, "x"), "e": (1, "y"), "w": (-1, "y")}
    M = [d[axes[0]], d[axes[1]]]
    n = copy.deepcopy(net)

    def mp(x, y):
        src = {"x": x, "y": y}
        return M[0][0] * src[M[0][1]], M[1][0] * src[M[1][1]]

    for p in n["points"].values():
        if "x" in p:
            p["x"], p["y"] = mp(p["x"], p["y"])
    rh = angles == "right-handed"
    for o in n["obs"]:
        if o["kind"] == "obs":
            for it in o["items"]:
                if rh and it["t"] in ("direction", "angle", "azimuth"):
                    it["val"] = (400.0 - it["val"]) % 400.0
        elif o["kind"] == "vectors":
            for it in o["items"]:
                it["dx"], it["dy"] = mp(it["dx"], it["dy"])
    return n


# ----------------------------------------------------------------- variants
def variant_supplied(net):
    return copy.deepcopy(net)


def variant_perturbed(net, rng, mag):
    """approximate coordinates of the unknown points moved by up to `mag` metres; tol-abs (the documented
    gross-error gate on absolute terms, mm) is raised with the perturbation so that the gate is not the
    thing being tested"""
    n = copy.deepcopy(net)
    n["params"]["tol-abs"] = max(1000, int(30000 * mag))
    for p in n["points"].values():
        if p["status"] == "fix":
            continue
        for c in ("x", "y", "z"):
            if c in p:
                p[c] += rng.uniform(-1, 1) * mag
    return n


def variant_omitted(net, rng=None, share=1.0):
    n = copy.deepcopy(net)
    for p in n["points"].values():
        if p["status"] != "fix" and (rng is None or rng.random() < share):
            p["approx"] = False
    return n


def count_obs(net):
    k = 0
    for o in net["obs"]:
        if o["kind"] == "vectors":
            k += 3 * len(o["items"])
        elif o["kind"] == "coords":
            k += sum(1 for it in o["items"] for c in ("x", "y", "z") if c in it)
        else:
            k += len(o["items"])
    return k


# ----------------------------------------------------------------- oracle
def run_gama(gama_dir, gkf_text, alg, workdir, tag, timeout=60, extra=()):
    from lib.core import sh
    f = workdir / f"{tag}.gkf"
    f.write_text(gkf_text)
    x = workdir / f"{tag}.xml"
    t = workdir / f"{tag}.txt"
    for q in (x, t):
        if q.exists():
            q.unlink()
    rc, out, err = sh([str(gama_dir / "gama-local"), str(f), "--algorithm", alg, "--xml", str(x), "--text", str(t)]
                      + list(extra), timeout=timeout)
    xml = x.read_text() if x.exists() else ""
    txt = t.read_text(errors="replace") if t.exists() else ""
    return rc, xml, txt, out + err


def check_result(true_net, rc, xml, txt, log, tol_xyz=1e-6, tol_ang=2e-7, tol_lin=1e-6):
    """the property on one run; returns a list of violation strings (empty = holds)"""
    bad = []
    if rc in (86, 87) or "Sanitizer" in log or "runtime error" in log:
        return [f"sanitizer rc={rc}"]
    if rc != 0 or "<adjusted>" not in xml:
        m = "no adjustment"
        if "No unknowns" in txt + log + xml:
            m += ": no unknowns"
        elif "approximate coordinates" in (txt + log + xml).lower():
            m += ": approximate coordinates"
        return [f"{m} rc={rc}"]
    res = G.parse_result_xml(xml)
    res["obs"] = parse_obs(xml)
    for pid, p in true_net["points"].items():
        if p["status"] == "fix":
            continue
        a = res["adjusted"].get(pid)
        if a is None:
            bad.append(f"point {pid} removed")
            continue
        for c in ("x", "y", "z"):
            if c in p:
                if c not in a:
                    bad.append(f"coordinate {c} of {pid} removed")
                elif abs(a[c] - p[c]) > tol_xyz:
                    bad.append(f"{pid}.{c} off by {a[c] - p[c]:.3e}")
    n_in = count_obs(true_net)
    if len(res["obs"]) != n_in:
        bad.append(f"observations removed: {n_in - len(res['obs'])} of {n_in}")
    worst = 0.0
    for o in res["obs"]:
        if "obs" not in o or "adj" not in o:
            continue
        d = o["adj"] - o["obs"]
        if o["t"] in ANGULAR:
            d = (d + 200.0) % 400.0 - 200.0
            if abs(d) > tol_ang:
                bad.append(f"residual {o['t']} {o.get('from')}->{o.get('to')} {d:.3e} gon")
        elif abs(d) > tol_lin:
            bad.append(f"residual {o['t']} {o.get('from')}->{o.get('to')} {d:.3e} m")
        worst = max(worst, abs(d))
    return bad


def parse_obs(xml):
    """every element of <observations> that carries <obs> and <adj> (all observation kinds)"""
    out = []
    m = re.search(r"<observations>(.*?)</observations>", xml, re.S)
    if not m:
        return out
    for om in re.finditer(r"<([a-z-]+)>\s*(<(?:from|id)>.*?)</\1>", m.group(1), re.S):
        blk = om.group(2)
        d = {"t": om.group(1)}
        for k in ("from", "to", "left", "right", "id"):
            mm = re.search(rf"<{k}>(.*?)</{k}>", blk, re.S)
            if mm:
                d[k] = mm.group(1).strip()
        for k in ("obs", "adj"):
            mm = re.search(rf"<{k}>\s*([^<\s]+)\s*</{k}>", blk)
            if mm:
                d[k] = float(mm.group(1))
        out.append(d)
    return out


def outlying_terms(txt):
    """(standpoint, target, kind, abs term) rows of the 'Outlying absolute terms' table"""
    rows = []
    on = False
    for l in txt.splitlines():
        if l.startswith("Outlying absolute terms"):
            on = True
            continue
        if on and l.startswith("Observations with outlying"):
            break
        if on:
            t = l.split()
            if len(t) >= 6 and t[0].isdigit():
                try:
                    rows.append((t[1], t[2], t[3], float(t[-1])))
                except ValueError:
                    pass
    return rows
