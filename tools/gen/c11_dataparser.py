#!/usr/bin/env python3
"""
C11 translator: lib/gnu_gama/xml/dataparser.h, dataparser.cpp, dataparser_g3.cpp, dataparser_adj.cpp,
dataparser_g3adj.cpp   ->   lean/Gama/Gen/DataParserAutomaton.lean

Regenerated on every run from the CURRENT working tree:

  * enum parser_state / data_tag                              -> `State`, `Tag`
  * the constructor: default fill of next/after/stag/data/etag (bounds checked against the array
    dimensions), then every `init(...)` call of DataParser::DataParser, init_g3, init_g3adj, init_adj
    evaluated in source order with the semantics of DataParser::init (whose body is verified textually)
                                                              -> `row` (sparse next/stag), `after`, `dataH`, `etag`
  * DataParser::tag()                                         -> `tagTable`
  * startElement / characterDataHandler / endElement (inline in the header): verified textually
  * every member function installed in a table, the generic handlers start_tag / end_tag / parser_error and
    every member function they call that touches `state` / `error`: a structured SKELETON (`Prog`) of the
    control-relevant statements in source order                -> `startProg`, `endProg`, `dataProg`
    Statements that do not mention state, error, next, after, stag, etag (nor call a member function that
    does) are data-only and dropped; `if` on data-only conditions becomes `ifData`, loops / try-catch whose
    body only ever leaves by `return error(..)` become `ifData body skip`.

Anything the mini-parser does not recognise raises TieBroken (never guessed).  Python 3 standard library only.
"""
import importlib.util
import re
import sys
from pathlib import Path

try:
    from lib.core import TieBroken
except Exception:  # stand-alone use
    class TieBroken(Exception):
        def __init__(self, name, detail=""):
            super().__init__(name + ": " + detail)
            self.name, self.detail = name, detail

NAME = "c11_dataparser"

_spec = importlib.util.spec_from_file_location("c11_gkf_automaton_for_dp", str(Path(__file__).resolve().parent / "c11_gkf_automaton.py"))
_g = importlib.util.module_from_spec(_spec)
_spec.loader.exec_module(_g)


def fail(msg):
    raise TieBroken(NAME, msg)


def strip_comments(src):
    try:
        return _g.strip_comments(src)
    except Exception as e:           # the helper raises its own TieBroken class
        fail(str(e))


def match_close(s, i, op, cl):
    """s[i] == op -> index of the matching cl (strings / char literals skipped)"""
    assert s[i] == op
    d, n = 0, len(s)
    while i < n:
        c = s[i]
        if c == '"' or c == "'":
            q = c
            i += 1
            while i < n and s[i] != q:
                i += 2 if s[i] == "\\" else 1
        elif c == op:
            d += 1
        elif c == cl:
            d -= 1
            if d == 0:
                return i
        i += 1
    fail(f"unbalanced {op}{cl}")


def norm(s):
    """whitespace-free text outside string literals (for textual verification)"""
    out, i, n = [], 0, len(s)
    while i < n:
        c = s[i]
        if c == '"':
            j = i + 1
            while j < n and s[j] != '"':
                j += 2 if s[j] == "\\" else 1
            out.append(s[i:j + 1])
            i = j + 1
        elif c.isspace():
            # keep one blank between two identifier characters
            if out and i + 1 < n and (out[-1][-1].isalnum() or out[-1][-1] == "_"):
                k = i
                while k < n and s[k].isspace():
                    k += 1
                if k < n and (s[k].isalnum() or s[k] == "_"):
                    out.append(" ")
                i = k
            else:
                i += 1
        else:
            out.append(c)
            i += 1
    return "".join(out)


def line_of(src, pos):
    return src.count("\n", 0, pos) + 1


# ------------------------------------------------------------------ enums, header

def parse_enum(hdr, name):
    m = re.search(r"\benum\s+" + name + r"\s*\{([^}]*)\}", hdr)
    if not m:
        fail(f"enum {name} not found")
    items = [x.strip() for x in m.group(1).split(",") if x.strip()]
    for it in items:
        if not re.fullmatch(r"[A-Za-z_]\w*", it):
            fail(f"enum {name}: unexpected enumerator '{it}' (explicit values are not modelled)")
    if len(set(items)) != len(items):
        fail(f"enum {name}: duplicate enumerator")
    return items


def check_header(hdr):
    n = norm(hdr)
    for want, what in [
        ("int startElement(const char*name,const char**atts){return(this->*stag[state][tag(name)])(name,atts);}", "startElement"),
        ("int characterDataHandler(const char*s,int len){return(this->*data[state])(s,len);}", "characterDataHandler"),
        ("int endElement(const char*name){return(this->*etag[state])(name);}", "endElement"),
        ("Stag stag[s_stop+1][t_unused+1];", "dimension of stag"),
        ("Data data[s_stop+1];", "dimension of data"),
        ("Etag etag[s_stop+1];", "dimension of etag"),
        ("int next[s_stop+1][t_unused+1];", "dimension of next"),
        ("int after[s_stop+1];", "dimension of after"),
        ("void init(int state,int tag,int next_state,int end_state,int after_state,Stag,Data,Etag,int end_state2=0);", "declaration of init"),
    ]:
        if want not in n:
            fail(f"dataparser.h: {what} does not have the expected text `{want}`")


def check_core_error(repo):
    try:
        src = strip_comments((Path(repo) / "lib/gnu_gama/xml/baseparser.cpp").read_text())
        hdr = strip_comments((Path(repo) / "lib/gnu_gama/xml/baseparser.h").read_text())
    except OSError as e:
        fail(f"cannot read baseparser: {e}")
    m = re.search(r"int\s+CoreParser::error\s*\(\s*const\s+char\s*\*\s*text\s*\)\s*\{", src)
    if not m:
        fail("CoreParser::error(const char*) not found")
    body = norm(src[m.end():match_close(src, m.end() - 1, "{", "}")])
    want = "if(errCode)return 1;errString=std::string(text);errCode=-1;errLineNumber=XML_GetCurrentLineNumber(parser);state=0;return 1;"
    if body != want:
        fail("CoreParser::error no longer has the modelled body (first error wins, records the line, state = 0, returns 1): " + body[:160])
    if "int error(const std::string&s){return error(s.c_str());}" not in norm(hdr):
        fail("CoreParser::error(const std::string&) is not the modelled forwarder")
    if "if(state==0){errCode=-1;throw ParserException(errString,errLineNumber,errCode);}" not in norm(hdr):
        fail("BaseParser::xml_parse: `if (state == 0) throw ParserException(...)` not found")


# ------------------------------------------------------------------ function definitions

class Fn:
    def __init__(self, name, kind, params, body, file, line):
        self.name, self.kind, self.params, self.body, self.file, self.line = name, kind, params, body, file, line


def split_top(s, sep=","):
    out, depth, cur, i, n = [], 0, [], 0, len(s)
    while i < n:
        c = s[i]
        if c == '"' or c == "'":
            j = i + 1
            while j < n and s[j] != c:
                j += 2 if s[j] == "\\" else 1
            cur.append(s[i:j + 1])
            i = j + 1
            continue
        if c in "([{":
            depth += 1
        elif c in ")]}":
            depth -= 1
        if c == sep and depth == 0:
            out.append("".join(cur))
            cur = []
        else:
            cur.append(c)
        i += 1
    out.append("".join(cur))
    return out


def collect_functions(files):
    """all `... DataParser::name(params) [: inits] { body }` definitions"""
    fns = []
    for fname, src in files:
        for m in re.finditer(r"\bDataParser::(~?\w+)\s*\(", src):
            name = m.group(1)
            p0 = m.end() - 1
            p1 = match_close(src, p0, "(", ")")
            j = p1 + 1
            while j < len(src) and src[j].isspace():
                j += 1
            if j < len(src) and src[j] == ":" and name == "DataParser":      # constructor initialiser list
                j = src.find("{", j)
            if j >= len(src) or src[j] != "{":
                continue            # a use such as &DataParser::x or a qualified type name, not a definition
            e = match_close(src, j, "{", "}")
            params = [p.strip() for p in split_top(src[p0 + 1:p1]) if p.strip()]
            pn = [norm(p) for p in params]
            kind = "helper"
            names = []
            for p in pn:
                mm = re.search(r"(\w+)$", p)
                names.append(mm.group(1) if mm and not re.fullmatch(r"char|int|double", mm.group(1)) else None)
            if len(pn) == 2 and pn[0].startswith("const char*") and pn[1].startswith("const char**"):
                kind = "start"
            elif len(pn) == 2 and pn[0].startswith("const char*") and pn[1].startswith("int"):
                kind = "data"
            elif len(pn) == 1 and pn[0].startswith("const char*") and not pn[0].startswith("const char**"):
                kind = "end"
            fns.append(Fn(name, kind, names, src[j + 1:e], fname, line_of(src, m.start())))
    return fns


# ------------------------------------------------------------------ statement parser

KEYWORDS = ("if", "else", "for", "while", "try", "catch", "return", "do", "switch", "goto", "throw", "break", "continue")


def skip_ws(s, i):
    while i < len(s) and s[i].isspace():
        i += 1
    return i


def kw_at(s, i, kw):
    return s.startswith(kw, i) and not (i + len(kw) < len(s) and (s[i + len(kw)].isalnum() or s[i + len(kw)] == "_")) \
        and not (i > 0 and (s[i - 1].isalnum() or s[i - 1] == "_"))


def parse_stmt(s, i, where):
    """-> (stmt, j).  stmt: ('block',[..]) ('if',cond,then,else) ('loop',header,body) ('try',block,[handlers]) ('return',expr) ('simple',text)"""
    i = skip_ws(s, i)
    if i >= len(s):
        fail(f"{where}: statement expected")
    if s[i] == "{":
        e = match_close(s, i, "{", "}")
        return ("block", parse_seq(s[i + 1:e], where)), e + 1
    if s[i] == ";":
        return ("simple", ""), i + 1
    if kw_at(s, i, "if"):
        p0 = skip_ws(s, i + 2)
        if s[p0] != "(":
            fail(f"{where}: `if` without a condition")
        p1 = match_close(s, p0, "(", ")")
        then, j = parse_stmt(s, p1 + 1, where)
        k = skip_ws(s, j)
        els = None
        if kw_at(s, k, "else"):
            els, j = parse_stmt(s, k + 4, where)
        return ("if", s[p0 + 1:p1], then, els), j
    for kw in ("for", "while"):
        if kw_at(s, i, kw):
            p0 = skip_ws(s, i + len(kw))
            if s[p0] != "(":
                fail(f"{where}: `{kw}` without a header")
            p1 = match_close(s, p0, "(", ")")
            body, j = parse_stmt(s, p1 + 1, where)
            return ("loop", s[p0 + 1:p1], body), j
    if kw_at(s, i, "try"):
        b0 = skip_ws(s, i + 3)
        if s[b0] != "{":
            fail(f"{where}: `try` without a block")
        b1 = match_close(s, b0, "{", "}")
        blk = ("block", parse_seq(s[b0 + 1:b1], where))
        j = b1 + 1
        handlers = []
        while True:
            k = skip_ws(s, j)
            if not kw_at(s, k, "catch"):
                break
            p0 = skip_ws(s, k + 5)
            p1 = match_close(s, p0, "(", ")")
            c0 = skip_ws(s, p1 + 1)
            if s[c0] != "{":
                fail(f"{where}: `catch` without a block")
            c1 = match_close(s, c0, "{", "}")
            handlers.append(("block", parse_seq(s[c0 + 1:c1], where)))
            j = c1 + 1
        if not handlers:
            fail(f"{where}: `try` without `catch`")
        return ("try", blk, handlers), j
    if kw_at(s, i, "return"):
        e = find_semicolon(s, i, where)
        return ("return", s[i + 6:e].strip()), e + 1
    for kw in ("do", "switch", "goto", "throw", "break", "continue", "else", "catch"):
        if kw_at(s, i, kw):
            fail(f"{where}: `{kw}` statements are not modelled")
    e = find_semicolon(s, i, where)
    return ("simple", s[i:e].strip()), e + 1


def find_semicolon(s, i, where):
    depth, n = 0, len(s)
    while i < n:
        c = s[i]
        if c == '"' or c == "'":
            j = i + 1
            while j < n and s[j] != c:
                j += 2 if s[j] == "\\" else 1
            i = j + 1
            continue
        if c in "([{":
            depth += 1
        elif c in ")]}":
            depth -= 1
        elif c == ";" and depth == 0:
            return i
        i += 1
    fail(f"{where}: statement without `;`")


def parse_seq(s, where):
    out, i = [], 0
    while skip_ws(s, i) < len(s):
        st, i = parse_stmt(s, i, where)
        out.append(st)
    return out


# ------------------------------------------------------------------ skeletons

SKIP = ("skip",)
RET = ("ret",)


def seq(*ps):
    ps = [p for p in ps if p != SKIP]
    if not ps:
        return SKIP
    r = ps[-1]
    for p in reversed(ps[:-1]):
        r = ("seq", p, r)
    return r


def flat(p):
    if p[0] == "seq":
        return flat(p[1]) + flat(p[2])
    return [p]


def ret_or_noop(p):
    """every path through p either executes no control op at all or ends in `ret` (a return of the function)"""
    # returns set of path classes: 'noop' (falls through without any op), 'ret', 'bad'
    def go(p):
        k = p[0]
        if k == "skip":
            return {"noop"}
        if k == "ret":
            return {"ret"}
        if k in ("setNext", "setAfter", "err", "noAttrs", "scope"):
            return {"op"}          # falls through after an op
        if k == "seq":
            a = go(p[1])
            out = set()
            for x in a:
                if x == "ret" or x == "bad":
                    out.add(x)
                else:
                    for y in go(p[2]):
                        if x == "noop":
                            out.add(y)
                        else:        # x == op
                            out.add("ret" if y == "ret" else "bad" if y == "bad" else "op")
            return out
        if k in ("ifData", "ifNoAttrs", "ifHasAttrs", "ifStateErr", "ifBlank"):
            extra = {"op"} if k == "ifNoAttrs" else set()
            a, b = go(p[1]), go(p[2])
            if k == "ifNoAttrs":
                a = {("ret" if x == "ret" else "bad" if x == "bad" else "op") for x in a}
            return a | b
        fail("internal: unknown Prog node " + k)
    r = go(p)
    return "bad" not in r and "op" not in r


def erase(p):
    """rich skeleton (CProg) -> plain skeleton (Prog): conditions forgotten, text-buffer operations dropped (same rule as Lean `CProg.erase`)"""
    k = p[0]
    if k in ("addText", "clearText"):
        return SKIP
    if k == "seq":
        a, b = erase(p[1]), erase(p[2])
        return b if a == SKIP else a if b == SKIP else ("seq", a, b)
    if k == "ifData" and len(p) == 4:
        return ("ifData", erase(p[2]), erase(p[3]))
    if k in ("ifData", "ifNoAttrs", "ifHasAttrs", "ifStateErr", "ifBlank"):
        return (k, erase(p[1]), erase(p[2]))
    if k == "scope":
        return ("scope", erase(p[1]))
    return p


class Skeletons:
    CONTROL_WORDS = ("state", "error", "next", "after", "stag", "etag")

    def __init__(self, fns, states):
        self.states = states
        self.by = {}
        for f in fns:
            key = (f.name, f.kind)
            if key in self.by:
                fail(f"two definitions of DataParser::{f.name} with the same kind of parameter list")
            self.by[key] = f
        self.names = {f.name for f in fns}
        # control-relevant member functions (fixpoint); error() is CoreParser's, tag() is translated separately
        self.control = {"error", "tag"}
        word = re.compile(r"\b(" + "|".join(self.CONTROL_WORDS) + r")\b")
        changed = True
        while changed:
            changed = False
            for f in fns:
                if f.name in self.control:
                    continue
                if word.search(f.body) or any(re.search(r"(?<![:.>\w])" + re.escape(c) + r"\s*\(", f.body) for c in self.control):
                    self.control.add(f.name)
                    changed = True
        self.cache = {}
        self.stack = []
        self.rich = False          # rich = the CProg translation (conditions described, text-buffer operations kept)
        self.hdr = ""              # dataparser.h (member declarations), set by analyse()
        self.g3struct = ""         # body of struct DataParser_g3
        self.streams = {}          # per function being translated (rich mode): stream variable -> [source, used?]
        self.lit_decl = {}         # deg2gon / IsFloat / IsInteger declared as modelled (set by analyse())

    def is_data_only(self, text):
        if re.search(r"\b(" + "|".join(self.CONTROL_WORDS) + r")\b", text):
            return False
        for c in self.control:
            if re.search(r"(?<![:.>\w])" + re.escape(c) + r"\s*\(", text):
                return False
        if re.search(r"\b(throw|goto)\b", text):
            return False
        return True

    def prog(self, name, kind):
        key = (name, kind, self.rich)
        if key in self.cache:
            return self.cache[key]
        if key in self.stack:
            fail(f"recursive call of DataParser::{name}")
        f = self.by.get((name, kind))
        if f is None:
            fail(f"definition of DataParser::{name} ({kind} handler) not found")
        self.stack.append(key)
        saved = self.streams
        self.streams = {}
        p = self.special(f)
        if p is None:
            stmts = parse_seq(f.body, f"DataParser::{name} ({f.file}:{f.line})")
            p = seq(*[self.tr(s, f) for s in stmts])
        self.streams = saved
        self.stack.pop()
        self.cache[key] = p
        return p

    def err_kind(self, f):
        return {"tag": "unknown_tag", "parser_error": "context", "end_tag": "end_tag", "no_attributes": "attributes",
                "white_spaces": "text"}.get(f.name, "data")

    def special(self, f):
        """functions verified textually instead of being parsed"""
        if f.name == "white_spaces" and f.kind == "data":
            if norm(f.body) != 'while(len--){if(!isspace(s[len]))return error("### illegal text");}return 0;':
                fail("DataParser::white_spaces no longer has the modelled body: " + norm(f.body)[:160])
            return ("ifBlank", SKIP, seq(("err", "text"), RET))
        if f.name == "add_text" and f.kind == "data" and self.rich:
            if not re.fullmatch(r"\s*text_buffer\s*\+=\s*' '\s*;\s*text_buffer\s*\+=\s*string\s*\(\s*s\s*,\s*std::string::size_type\s*\(\s*len\s*\)\s*\)\s*;\s*return\s+0\s*;\s*", f.body):
                fail("DataParser::add_text no longer has the modelled body (a blank, then the piece, appended to text_buffer): " + norm(f.body)[:160])
            return seq(("addText",), RET)
        return None

    # ---- rich mode: what a data-only condition / statement is

    STREAM_DECL = re.compile(r"^(?:std::)?i?stringstream\s+(\w+)\s*\((.*)\)$", re.S)
    KINDS = {"double": "double", "string": "word", "std::string": "word", "int": "int", "std::size_t": "size", "size_t": "size"}

    def note_streams(self, text, f):
        """bookkeeping of the (i)stringstream variables of the function: declaration -> source, any later mention -> used"""
        m = self.STREAM_DECL.match(text.strip())
        if m:
            var, arg = m.group(1), norm(m.group(2))
            if arg in ("text_buffer", "text_buffer.c_str()"):
                src = "buffer"
            elif f.kind == "data" and arg in (f"string({f.params[0]},size_t({f.params[1]}))", f"string({f.params[0]},std::size_t({f.params[1]}))"):
                src = "piece"
            else:
                src = None           # a stream over something else (a word extracted before): its conditions stay `other`
            self.streams[var] = [src, False]
            return
        for var in self.streams:
            if re.search(r"\b" + re.escape(var) + r"\b", text):
                self.streams[var][1] = True

    def var_kind(self, v, f):
        w = self.where(f)
        def decl_in(text, name):
            for m in re.finditer(r"(?<![\w:])((?:std::)?(?:double|string|int|size_t))\s+([^;(){}]*?);", text):
                names = [re.sub(r"=.*", "", x).strip() for x in split_top(m.group(2))]
                if name in names:
                    return self.KINDS[m.group(1)]
            return None
        m = re.fullmatch(r"g3->(\w+)", v)
        if m:
            k = decl_in(self.g3struct, m.group(1))
        elif re.fullmatch(r"\w+\.\w+", v):
            a, b = v.split(".")
            mm = re.search(r"struct\s*\{([^}]*)\}\s*" + re.escape(a) + r"\s*;", self.hdr)
            k = decl_in(mm.group(1), b) if mm else None
        elif re.fullmatch(r"\w+", v):
            k = decl_in(f.body, v) or decl_in(self.hdr, v)
        else:
            k = None
        if k is None:
            fail(f"{w}: type of the extracted variable `{v}` not found (double / string / int / size_t declarations are recognised)")
        return k

    def chain(self, text, f):
        """`istr >> a >> b` (normalised) -> (stream variable, [kinds]) or None"""
        parts = text.split(">>")
        if not re.fullmatch(r"\w+", parts[0]) or parts[0] not in self.streams:
            return None
        if not all(re.fullmatch(r"[\w.]+|g3->\w+", x) for x in parts[1:]):
            return None
        return parts[0], [self.var_kind(x, f) for x in parts[1:]]

    def cond(self, cond, f):
        """description of a data-only condition: ('pure', src, kinds, guard, neg) | ('fails', src, kinds) | ('other',)"""
        w = self.where(f)
        n = norm(cond)
        desc = ("other",)
        guard, neg, body = "none", False, None
        m = re.fullmatch(r"(!?)pure_data\(([^()]*)\)", n)
        if m:
            neg, body = m.group(1) == "!", m.group(2)
        else:
            m = re.fullmatch(r"g3->model!=nullptr&&pure_data\(([^()]*)\)", n)
            if m:
                guard, body = "modelNonNull", m.group(1)
            else:
                m = re.fullmatch(r"pure_data\(([^()]*)\)&&(.+)", n)
                if m and "pure_data" not in m.group(2) and "||" not in m.group(2):
                    guard, body = "data", m.group(1)
        if body is not None:
            c = self.chain(body, f)
            if c is None:
                fail(f"{w}: unrecognised argument of pure_data: {body[:80]}")
            var, kinds = c
            src, used = self.streams[var]
            if src is not None and not used and kinds:
                desc = ("pure", src, tuple(kinds), guard, neg)
            # else: the stream has been read before (g3_obs_cov) / is not over the element text: stays an oracle bit
        elif "pure_data" in n:
            fail(f"{w}: unrecognised condition with pure_data: {n[:100]}")
        elif self.lit_cond(n, f) is not None:
            desc = self.lit_cond(n, f)
        else:
            m = re.fullmatch(r"!\(([^()]*>>[^()]*)\)", n)
            if m:
                c = self.chain(m.group(1), f)
                if c is None:
                    fail(f"{w}: unrecognised extraction chain: {n[:100]}")
                var, kinds = c
                src, used = self.streams[var]
                if src is not None and not used:
                    desc = ("fails", src, tuple(kinds))
            elif ">>" in n and any(re.search(r"\b" + re.escape(v) + r"\s*>>", n) for v in self.streams):
                # an extraction in a condition of another shape: only the bare `istr >> f` (element loop of g3_obs_cov) is known
                if not re.fullmatch(r"\w+>>\w+", n):
                    fail(f"{w}: unrecognised condition with a stream extraction: {n[:100]}")
                desc = ("other",)
        self.note_streams(cond, f)
        return desc

    def lit_cond(self, n, f):
        """`[!]deg2gon(text_buffer, x)` (gon2deg.h: the string is taken BY VALUE) and `[!]IsFloat(b, e)` / `[!]IsInteger(b, e)`
        (intfloat.h, iterator versions, which trim themselves) with `b`, `e` = begin / end of text_buffer, moved only by
        TrimWhiteSpaces(b, e) before the test -> ('lit', kind, neg); the recognisers are Lit.deg2gonAccepts / Lit.isFloat /
        Lit.isInteger of Model/Literals.lean (tied to gon2deg.cpp / intfloat.h by the literal stream of C11)"""
        m = re.fullmatch(r"(!?)deg2gon\(text_buffer,[\w.]+\)", n)
        if m:
            if not self.lit_decl.get("deg2gon"):
                return None
            return ("lit", "deg2gon", m.group(1) == "!")
        m = re.fullmatch(r"(!?)(IsFloat|IsInteger)\((\w+),(\w+)\)", n)
        if m and self.lit_decl.get(m.group(2)):
            b, e = m.group(3), m.group(4)
            body = norm(f.body)
            pos = body.find("if(" + n + ")")
            if pos < 0:
                return None
            pre = body[:pos]
            # everything before the test that mentions b or e: the two declarations, TrimWhiteSpaces(b,e), a copy std::string(b,e)
            pre2 = pre
            for ok in (f"std::string::const_iterator {b}=text_buffer.begin();", f"std::string::const_iterator {e}=text_buffer.end();",
                       f"TrimWhiteSpaces({b},{e});", f"std::string({b},{e})"):
                if ok.startswith("std::string::const_iterator") and pre2.count(ok) != 1:
                    return None
                pre2 = pre2.replace(ok, "")
            if re.search(r"(?<![\w.>])(" + re.escape(b) + "|" + re.escape(e) + r")(?!\w)", pre2) or "text_buffer" in pre2:
                return None
            return ("lit", "isFloat" if m.group(2) == "IsFloat" else "isInteger", m.group(1) == "!")
        return None

    TEXT_READS = ("c_str", "size", "begin", "end", "empty", "length")

    def text_op(self, t, f):
        """rich mode: a data-only statement -> clearText | SKIP (anything else that may change text_buffer is refused)"""
        self.note_streams(t, f)
        n = norm(t)
        if n in ("text_buffer.clear()", "text_buffer.erase()"):
            return ("clearText",)
        # a data-only member function that works on text_buffer (g3a_text_string / _float / _integer): its body is translated in place
        # (straight-line: no `return` inside, no control effect); any other mention of such a function is refused
        for nm in sorted(self.names - self.control):
            if not re.search(r"(?<![:.>\w])" + re.escape(nm) + r"\s*\(", t):
                continue
            cands = [k for k in self.by if k[0] == nm]
            if not any("text_buffer" in self.by[k].body for k in cands):
                continue
            if not re.fullmatch(re.escape(nm) + r"\s*\((.*)\)", t.strip(), re.S) or len(cands) != 1 or cands[0][1] == "start":
                fail(f"{self.where(f)}: call of {nm}() (which works on text_buffer) in a position that is not modelled: {t[:80]}")
            p = self.prog(*cands[0])
            if erase(p) != SKIP or uses(p, ("ret",)):
                fail(f"{self.where(f)}: {nm}() works on text_buffer and has a control effect / a return: not modelled")
            return p
        for m in re.finditer(r"\btext_buffer\b\s*(\+=|=(?!=)|\.\s*(\w+))", t):
            if m.group(2) in self.TEXT_READS:
                continue
            fail(f"{self.where(f)}: statement may change text_buffer in a way that is not modelled: {t[:80]}")
        return SKIP

    # the callee of `helper(...)` found in a statement
    def helper_call(self, text, f):
        found = []
        for c in self.control:
            for m in re.finditer(r"(?<![:.>\w])" + re.escape(c) + r"\s*\(", text):
                p1 = match_close(text, m.end() - 1, "(", ")")
                found.append((c, m.start(), p1 + 1, text[m.end():p1]))
        return found

    def where(self, f):
        return f"DataParser::{f.name} ({f.file}:{f.line})"

    def call(self, callee, args, f):
        """Prog of a call expression `callee(args)` whose value is not used for control"""
        w = self.where(f)
        a = norm(args)
        if callee == "error":
            if not self.is_data_only(args):
                fail(f"{w}: argument of error() is not data-only: {args[:80]}")
            return ("err", self.err_kind(f))
        if callee == "no_attributes":
            if f.kind != "start" or a != f"{f.params[0]},{f.params[1]}":
                fail(f"{w}: no_attributes({args}) is not called with the handler's own arguments")
            return ("noAttrs",)
        if callee == "end_tag":
            if not re.fullmatch(r"\w+", a):
                fail(f"{w}: unexpected argument of end_tag: {args}")
            return ("scope", self.prog("end_tag", "end"))
        if callee == "start_tag":
            if f.kind != "start" or a != f"{f.params[0]},{f.params[1]}":
                fail(f"{w}: start_tag({args}) is not called with the handler's own arguments")
            return ("scope", self.prog("start_tag", "start"))
        if callee in ("tag", "init", "parser_error", "white_spaces", "add_text"):
            fail(f"{w}: call of {callee}() in a position that is not modelled")
        if not self.is_data_only(args):
            fail(f"{w}: arguments of {callee}() are not data-only: {args[:80]}")
        cands = [k for k in self.by if k[0] == callee]
        if len(cands) != 1:
            fail(f"{w}: call of overloaded or unknown member {callee}()")
        if cands[0][1] == "start":
            fail(f"{w}: call of the start handler {callee}() from a handler is not modelled")
        return ("scope", self.prog(*cands[0]))

    def tr(self, st, f):
        w = self.where(f)
        k = st[0]
        if k == "block":
            return seq(*[self.tr(x, f) for x in st[1]])
        if k == "simple":
            t = st[1]
            if t == "" or self.is_data_only(t):
                return self.text_op(t, f) if (self.rich and t != "") else SKIP
            n = norm(t)
            if f.kind == "start" and n == f"state=next[state][tag({f.params[0]})]":
                return ("setNext",)
            if n == "state=after[state]":
                return ("setAfter",)
            if f.kind == "start" and re.fullmatch(r"const char\*\*attributes=" + re.escape(f.params[1] or "?"), n):
                return SKIP
            calls = self.helper_call(t, f)
            if len(calls) == 1:
                c, a, b, args = calls[0]
                rest = t[:a] + " 0 " + t[b:]
                if self.is_data_only(rest):
                    if c in ("error", "no_attributes", "end_tag", "start_tag") and rest.strip() != "0":
                        fail(f"{w}: value of {c}() used in an expression: {t[:80]}")
                    return self.call(c, args, f)
            fail(f"{w}: unrecognised control-relevant statement: {t[:100]}")
        if k == "return":
            e = st[1]
            n = norm(e)
            if e == "" or n == "state" or self.is_data_only(e):
                return RET
            if f.kind == "start" and n == f"(state=next[state][tag({f.params[0]})])":
                return seq(("setNext",), RET)
            if n == "(state=after[state])":
                return seq(("setAfter",), RET)
            calls = self.helper_call(e, f)
            if len(calls) == 1 and calls[0][1] == 0 and calls[0][2] == len(e):
                return seq(self.call(calls[0][0], calls[0][3], f), RET)
            fail(f"{w}: unrecognised return expression: {e[:100]}")
        if k == "if":
            cond = st[1]
            desc = self.cond(cond, f) if (self.rich and self.is_data_only(cond)) else None
            then, els = self.tr(st[2], f), (self.tr(st[3], f) if st[3] is not None else SKIP)
            n = norm(cond)
            if f.kind == "start" and n == f"no_attributes({f.params[0]},{f.params[1]})":
                return ("ifNoAttrs", then, els)
            if n == "state==s_error":
                return ("ifStateErr", then, els)
            if f.kind == "start" and n in (f"*{f.params[1]}",):
                return ("ifHasAttrs", then, els)
            if self.is_data_only(cond):
                if self.rich:
                    if erase(then) == SKIP and erase(els) == SKIP:
                        if then == els:
                            return then          # the same text-buffer operations on both branches (g3a_x_flt)
                        if then != SKIP or els != SKIP:
                            fail(f"{w}: text_buffer is changed under a condition that has no control effect: {cond[:80]}")
                        return SKIP
                    return ("ifData", desc, then, els)
                if then == SKIP and els == SKIP:
                    return SKIP
                return ("ifData", then, els)
            fail(f"{w}: unrecognised control-relevant condition: {cond[:100]}")
        if k == "loop":
            hdr, body = st[1], self.tr(st[2], f)
            n = norm(hdr)
            attr_loop = f.kind == "start" and n == "*attributes" and re.search(
                r"const\s+char\s*\*\*\s*attributes\s*=\s*" + re.escape(f.params[1] or "?") + r"\s*;", f.body)
            if not attr_loop and not self.is_data_only(hdr):
                fail(f"{w}: loop header is not data-only: {hdr[:80]}")
            if self.rich:
                self.note_streams(hdr, f)
                if erase(body) == SKIP:
                    if body != SKIP:
                        fail(f"{w}: text_buffer is changed inside a loop")
                    return SKIP
                if uses(body, ("clearText", "addText")):
                    fail(f"{w}: text_buffer is changed inside a loop")
                if not ret_or_noop(erase(body)):
                    fail(f"{w}: a loop body with a control effect other than `... return` is not modelled")
                # the condition of a loop body that is one `if` is the loop's condition: repeated, hence an oracle bit
                b = ("ifData", ("other",), body[2], SKIP) if body[0] == "ifData" and body[3] == SKIP else ("ifData", ("other",), body, SKIP)
                return ("ifHasAttrs", b, SKIP) if attr_loop else b
            if body == SKIP:
                return SKIP
            if not ret_or_noop(body):
                fail(f"{w}: a loop body with a control effect other than `... return` is not modelled")
            b = body if body[0] == "ifData" and body[2] == SKIP else ("ifData", body, SKIP)
            return ("ifHasAttrs", b, SKIP) if attr_loop else b
        if k == "try":
            blk = self.tr(st[1], f)
            if blk != SKIP:
                fail(f"{w}: control-relevant statement inside a try block is not modelled")
            hs = [self.tr(h, f) for h in st[2]]
            r = SKIP
            for h in reversed(hs):
                if self.rich:
                    if erase(h) != SKIP:
                        r = ("ifData", ("other",), h, r)
                    elif h != SKIP:
                        fail(f"{w}: text_buffer is changed inside a catch block")
                elif h != SKIP:
                    r = ("ifData", h, r)
            return r
        fail(f"{w}: internal: unknown statement kind {k}")


# ------------------------------------------------------------------ tables

def check_init_body(fn):
    want = ("if(z==0)z=n;if(a==0)a=s;next[s][t]=n;after[z]=a;if(s_)stag[s][t]=s_;else stag[s][t]=&DataParser::start_tag;"
            "if(d_)data[n]=d_;if(e_)etag[z]=e_;if(z2){after[z2]=a;etag[z2]=e_;}")
    if norm(fn.body) != want:
        fail("DataParser::init no longer has the modelled body: " + norm(fn.body)[:240])
    if fn.params != ["s", "t", "n", "z", "a", "s_", "d_", "e_", "z2"]:
        fail("DataParser::init: unexpected parameter names " + str(fn.params))


class Tables:
    def __init__(self, states, tags):
        self.states, self.tags = states, tags
        self.sidx = {s: i for i, s in enumerate(states)}
        self.tidx = {t: i for i, t in enumerate(tags)}
        self.next = {}      # (s, t) -> n   (sparse; default s_error)
        self.stag = {}      # (s, t) -> handler name
        self.after = {}
        self.data = {}
        self.etag = {}
        self.inits = []     # (file, line, s, t, n, z, a)
        self.overwritten = []

    def state_arg(self, a, where):
        a = a.strip()
        if a == "0":
            return 0
        if a in self.sidx:
            return self.sidx[a]
        fail(f"{where}: `{a}` is not an enumerator of parser_state (or 0)")

    def handler_arg(self, a, where):
        a = norm(a)
        if a in ("0", "nullptr", "NULL"):
            return None
        m = re.fullmatch(r"&DataParser::(\w+)", a)
        if not m:
            fail(f"{where}: `{a}` is not a member function pointer (or 0/nullptr)")
        return m.group(1)

    def init(self, args, where):
        if len(args) not in (8, 9):
            fail(f"{where}: init() with {len(args)} arguments")
        s = self.state_arg(args[0], where)
        t = args[1].strip()
        if t not in self.tidx:
            fail(f"{where}: `{t}` is not an enumerator of data_tag")
        t = self.tidx[t]
        n, z, a = (self.state_arg(x, where) for x in args[2:5])
        s_, d_, e_ = (self.handler_arg(x, where) for x in args[5:8])
        z2 = self.state_arg(args[8], where) if len(args) == 9 else 0
        ns = len(self.states)
        for v in (s, n, z, a, z2):
            if not (0 <= v < ns):
                fail(f"{where}: state index out of range")
        # --- DataParser::init
        if z == 0:
            z = n
        if a == 0:
            a = s
        def put(tab, key, val, what):
            if key in tab and tab[key] != val:
                self.overwritten.append(f"{where}: {what} was {tab[key]}, now {val}")
            tab[key] = val
        put(self.next, (s, t), n, f"next[{self.states[s]}][{self.tags[t]}]")
        put(self.after, z, a, f"after[{self.states[z]}]")
        put(self.stag, (s, t), s_ if s_ else "start_tag", f"stag[{self.states[s]}][{self.tags[t]}]")
        if d_:
            put(self.data, n, d_, f"data[{self.states[n]}]")
        if e_:
            put(self.etag, z, e_, f"etag[{self.states[z]}]")
        if z2:
            put(self.after, z2, a, f"after[{self.states[z2]}]")
            put(self.etag, z2, e_, f"etag[{self.states[z2]}]")          # may be a null member pointer
        self.inits.append((where, s, t, n, z, a))


def check_default_fill(body, where):
    n = norm(body)
    want = ("for(int s=s_error;s<=s_stop;s++){for(int t=0;t<=t_unused;t++){next[s][t]=s_error;stag[s][t]=&DataParser::parser_error;}"
            "after[s]=s_error;data[s]=&DataParser::white_spaces;etag[s]=&DataParser::end_tag;}")
    p = n.find(want)
    if p < 0:
        fail(f"{where}: default fill of next/stag/after/data/etag over s_error..s_stop x 0..t_unused not found "
             "(bounds must cover the arrays of dimension [s_stop+1][t_unused+1])")
    q = n.find("init(")
    q2 = min([x for x in (n.find("init_g3("), n.find("init_adj("), n.find("init_g3adj(")) if x >= 0] + [len(n)])
    if (0 <= q < p) or q2 < p:
        fail(f"{where}: an init call precedes the default fill")
    if "state=s_start;" not in n[:p]:
        fail(f"{where}: `state = s_start;` before the default fill not found")


def eval_inits(fns_by, tables, fname_of):
    ctor = fns_by.get(("DataParser", "helper"))
    if ctor is None:
        fail("constructor DataParser::DataParser not found")
    check_default_fill(ctor.body, "DataParser::DataParser")
    # remove the fill loop, then walk the statements in source order
    m = re.search(r"\bfor\s*\(\s*int\s+s\s*=\s*s_error", ctor.body)
    e = match_close(ctor.body, ctor.body.find("{", m.end()), "{", "}")
    body = ctor.body[:m.start()] + ctor.body[e + 1:]

    def walk(body, where, depth):
        for st in parse_seq(body, where):
            if st[0] != "simple":
                fail(f"{where}: unexpected compound statement among the init calls")
            t = st[1]
            n = norm(t)
            m = re.fullmatch(r"init\s*\((.*)\)", t, re.S)
            if m:
                tables.init(split_top(m.group(1)), f"{where}: init({norm(m.group(1))[:60]}...)")
                continue
            m = re.fullmatch(r"(init_\w+)\(\)", n)
            if m:
                if depth > 0:
                    fail(f"{where}: nested {m.group(1)}()")
                f = fns_by.get((m.group(1), "helper"))
                if f is None:
                    fail(f"definition of DataParser::{m.group(1)} not found")
                walk(f.body, f"DataParser::{m.group(1)}", depth + 1)
                continue
            if n == "state=s_start" or n == "":
                continue
            if re.search(r"\b(next|after|stag|etag|init|state)\b|\bdata\s*\[", t):
                fail(f"{where}: unrecognised statement touching the tables: {t[:80]}")
            # data-only initialisation (adj = 0; g3 = new DataParser_g3; optional(g3->from_dh); ...)
    walk(body, "DataParser::DataParser", 0)


def parse_tag_function(fn, tags):
    body = fn.body
    m = re.search(r"\bswitch\s*\(\s*\*\s*c\s*\)\s*\{", body)
    if not m or fn.params != ["c"]:
        fail("tag(): `switch (*c)` not found")
    e = match_close(body, m.end() - 1, "{", "}")
    rest = norm(body[:m.start()] + body[e + 1:])
    if rest != 'error(string("### unknown tag <")+string(c)+">");return t_unknown;':
        fail("tag(): expected `error(\"### unknown tag <\"...); return t_unknown;` after the switch, got: " + rest[:120])
    try:
        groups = _g.split_switch(body[m.end():e], "DataParser::tag()")
    except Exception as ex:
        fail(str(ex))
    table = []
    for labels, text in groups:
        chars = []
        is_default = False
        for l in labels:
            mm = re.fullmatch(r"'(.)'", l)
            if l == "default":
                is_default = True
            elif not mm:
                fail(f"tag(): unrecognised case label {l}")
            else:
                chars.append(mm.group(1))
        stmts = [s.strip() for s in text.split(";") if s.strip()]
        if not stmts or stmts[-1] != "break":
            fail(f"tag(): case {labels} does not end with break")
        if is_default and (len(stmts) != 1 or chars):
            fail("tag(): default case is not a plain break")
        for s in stmts[:-1]:
            mm = re.fullmatch(r'if\s*\(\s*!\s*strcmp\s*\(\s*c\s*,\s*"([^"\\]*)"\s*\)\s*\)\s*return\s+(t_\w+)', s)
            if not mm:
                fail(f"tag(): unrecognised statement: {s[:80]}")
            name, tg = mm.group(1), mm.group(2)
            if tg not in tags:
                fail(f"tag(): unknown tag {tg}")
            if not name or name[0] not in chars:
                fail(f"tag(): strcmp with \"{name}\" is unreachable under case {labels}")
            if any(n == name for n, _ in table):
                continue        # an earlier identical strcmp wins
            table.append((name, tg))
    return table


# ------------------------------------------------------------------ analysis entry point (also used by the plugin)

FILES = ["dataparser.cpp", "dataparser_g3.cpp", "dataparser_g3adj.cpp", "dataparser_adj.cpp"]
MESSAGES = {   # the harness classifies errString by these texts
    "tag": '"### unknown tag <"', "parser_error": '"> cannot be used in this context"', "end_tag": '"### unexpected end tag </"',
    "no_attributes": '"> cannot have any attributes"', "white_spaces": '"### illegal text"'}


def analyse(repo):
    d = Path(repo) / "lib" / "gnu_gama" / "xml"
    try:
        hdr = strip_comments((d / "dataparser.h").read_text())
        files = [(f, strip_comments((d / f).read_text())) for f in FILES]
    except OSError as e:
        fail(f"cannot read sources: {e}")
    check_header(hdr)
    check_core_error(repo)
    states = parse_enum(hdr, "parser_state")
    tags = parse_enum(hdr, "data_tag")
    if states[0] != "s_error":
        fail("s_error is not the first enumerator (CoreParser requires state_error == 0)")
    if states[-1] != "s_stop":
        fail("s_stop is not the last enumerator (the arrays have dimension s_stop+1)")
    if tags[-1] != "t_unused":
        fail("t_unused is not the last enumerator (the arrays have dimension t_unused+1)")
    if "t_unknown" not in tags or "s_start" not in states:
        fail("t_unknown / s_start missing")
    fns = collect_functions(files)
    by = {}
    for f in fns:
        if (f.name, f.kind) in by:
            fail(f"two definitions of DataParser::{f.name} ({f.kind})")
        by[(f.name, f.kind)] = f
    if ("init", "helper") not in by:
        fail("DataParser::init not found")
    check_init_body(by[("init", "helper")])
    for fn, text in MESSAGES.items():
        cands = [f for f in fns if f.name == fn]
        if len(cands) != 1:
            fail(f"DataParser::{fn} not found or overloaded")
        if re.search(r"\berror\s*\(", cands[0].body) and text not in cands[0].body:
            fail(f"DataParser::{fn}: the message text {text} (used by the harness to classify errors) not found")
    na = by.get(("no_attributes", "start"))
    if na is None or norm(na.body) != 'if(*atts){return error(string("### tag <")+string(name)+string("> cannot have any attributes"));}return 0;':
        fail("DataParser::no_attributes no longer has the modelled body")
    tb = Tables(states, tags)
    eval_inits(by, tb, None)
    tagf = [f for f in fns if f.name == "tag"]
    if len(tagf) != 1:
        fail("DataParser::tag not found")
    tagtab = parse_tag_function(tagf[0], tags)

    sk = Skeletons([f for f in fns if f.name not in ("DataParser", "~DataParser", "init", "tag") and not f.name.startswith("init_")
                    and not f.name.startswith("close_")], states)
    start_h = ["parser_error", "start_tag"]
    data_h = ["white_spaces"]
    end_h = ["end_tag"]
    null_etag = False
    for h in tb.stag.values():
        if h not in start_h:
            start_h.append(h)
    for h in tb.data.values():
        if h not in data_h:
            data_h.append(h)
    for h in tb.etag.values():
        if h is None:
            null_etag = True
        elif h not in end_h:
            end_h.append(h)
    progs = {"start": {h: sk.prog(h, "start") for h in start_h},
             "data": {h: sk.prog(h, "data") for h in data_h},
             "end": {h: sk.prog(h, "end") for h in end_h}}
    where = {(k, h): f"{sk.by[(h, k)].file}:{sk.by[(h, k)].line}" for k in progs for h in progs[k]}
    # the same handlers once more with the data-dependent conditions described and the text-buffer operations kept
    sk.rich = True
    sk.hdr = hdr
    lib = Path(repo) / "lib" / "gnu_gama"
    g2d = strip_comments((lib / "gon2deg.h").read_text(errors="replace")) if (lib / "gon2deg.h").exists() else ""
    inf = strip_comments((lib / "intfloat.h").read_text(errors="replace")) if (lib / "intfloat.h").exists() else ""
    sk.lit_decl = {
        "deg2gon": bool(re.search(r"\bbool\s+deg2gon\s*\(\s*std::string\s*,\s*double\s*&\s*\)", g2d)),
        "IsFloat": bool(re.search(r"template\s*<typename Iterator>\s*bool\s+IsFloat\s*\(\s*Iterator\s*&\s*b\s*,\s*Iterator\s+e\s*\)\s*\{\s*using namespace std;\s*TrimWhiteSpaces\(b, e\);", inf)),
        "IsInteger": bool(re.search(r"template\s*<typename Iterator>\s*bool\s+IsInteger\s*\(\s*Iterator\s*&\s*b\s*,\s*Iterator\s+e\s*\)\s*\{\s*using namespace std;\s*TrimWhiteSpaces\(b, e\);", inf)),
    }
    g3src = dict(files)["dataparser_g3.cpp"]
    m = re.search(r"\bstruct\s+DataParser_g3\s*\{", g3src)
    if not m:
        fail("struct DataParser_g3 not found in dataparser_g3.cpp")
    sk.g3struct = g3src[m.end():match_close(g3src, m.end() - 1, "{", "}")]
    cprogs = {"start": {h: sk.prog(h, "start") for h in start_h},
              "data": {h: sk.prog(h, "data") for h in data_h},
              "end": {h: sk.prog(h, "end") for h in end_h}}
    sk.rich = False
    for k in progs:
        for h in progs[k]:
            if erase(cprogs[k][h]) != progs[k][h]:
                fail(f"DataParser::{h} ({k} handler): the skeleton with described conditions does not erase to the plain skeleton")
    for k in ("data", "end"):
        for h, p in progs[k].items():
            if uses(p, ("setNext", "noAttrs", "ifNoAttrs", "ifHasAttrs")):
                fail(f"DataParser::{h} ({k} handler) uses tag(name) / attributes: not modelled")
    for h, p in progs["start"].items():
        if uses(p, ("ifBlank",)):
            fail(f"DataParser::{h} (start handler) tests character data")
    return dict(states=states, tags=tags, tables=tb, tagtab=tagtab, start_h=start_h, data_h=data_h, end_h=end_h,
                progs=progs, cprogs=cprogs, where=where, null_etag=null_etag, overwritten=tb.overwritten)


def uses(p, kinds):
    if p[0] in kinds:
        return True
    return any(isinstance(x, tuple) and uses(x, kinds) for x in p[1:])


# ------------------------------------------------------------------ Lean output

END_TAG_PROG = [None]


def prog_lean(p, top=False):
    k = p[0]
    if not top and END_TAG_PROG[0] is not None and p == END_TAG_PROG[0]:
        return "endTagProg"
    if k in ("skip", "ret", "setNext", "setAfter", "noAttrs"):
        return "." + k
    if k == "err":
        return f"(.err .{p[1]})"
    if k == "scope":
        return f"(.scope {prog_lean(p[1])})"
    if k in ("seq", "ifData", "ifNoAttrs", "ifHasAttrs", "ifStateErr", "ifBlank"):
        return f"(.{k} {prog_lean(p[1])} {prog_lean(p[2])})"
    fail("internal: prog_lean " + k)


ERR_KINDS = ["unknown_tag", "context", "end_tag", "attributes", "text", "data"]


def generate(repo):
    a = analyse(repo)
    states, tags, tb = a["states"], a["tags"], a["tables"]
    S = lambda i: "." + states[i]
    T = lambda i: "." + tags[i]
    H = lambda h: ".null_" if h is None else ".h_" + h
    L = []
    A = L.append
    A("/-")
    A("  GENERATED by tools/gen/c11_dataparser.py from lib/gnu_gama/xml/dataparser.h, dataparser.cpp, dataparser_g3.cpp,")
    A("  dataparser_g3adj.cpp, dataparser_adj.cpp of the current working tree.")
    A("  DO NOT EDIT: regenerated (and the proofs re-checked) on every run.")
    A("-/")
    A("namespace Gama.DP")
    A("")
    A("/-- `enum parser_state` (order of declaration; `s_error == 0`) -/")
    A("inductive State where")
    for s in states:
        A(f"  | {s}")
    A("  deriving DecidableEq, Inhabited")
    A("")
    A("/-- `enum data_tag` -/")
    A("inductive Tag where")
    for t in tags:
        A(f"  | {t}")
    A("  deriving DecidableEq, Inhabited")
    A("")
    A("/-- who called `error()`: `tag()` (unknown element name), `parser_error` (no transition for this tag),")
    A("    `end_tag` (no transition for the end tag), `no_attributes`, `white_spaces` (non-blank text),")
    A("    `data` = any other call (a value check inside a handler) -/")
    A("inductive ErrKind where")
    for k in ERR_KINDS:
        A(f"  | {k}")
    A("  deriving DecidableEq, Repr, Inhabited")
    A("")
    for nm, hs, doc in (("StartH", a["start_h"], "member functions installed in `stag`"),
                        ("DataH", a["data_h"], "member functions installed in `data`"),
                        ("EndH", a["end_h"], "member functions installed in `etag`; `null_` = a null member pointer (`etag[z2] = e_` with `e_ == 0`)")):
        A(f"/-- {doc} -/")
        A(f"inductive {nm} where")
        for h in hs:
            A(f"  | h_{h}")
        if nm == "EndH":
            A("  | null_")
        A("  deriving DecidableEq, Inhabited")
        A("")
    A("def State.idx : State → Nat")
    for i, s in enumerate(states):
        A(f"  | .{s} => {i}")
    A("def State.name : State → String")
    for s in states:
        A(f"  | .{s} => \"{s}\"")
    A("def Tag.name : Tag → String")
    for t in tags:
        A(f"  | .{t} => \"{t}\"")
    A("def ErrKind.name : ErrKind → String")
    for k in ERR_KINDS:
        A(f"  | .{k} => \"{k}\"")
    A(f"def nStates : Nat := {len(states)}")
    A(f"def nTags : Nat := {len(tags)}")
    A("")
    A("/-- skeleton of a member function: the control-relevant statements in source order.")
    A("    `setNext` = `state = next[state][tag(name)]`   `setAfter` = `state = after[state]`   `err k` = `error(...)`")
    A("    `noAttrs` = `no_attributes(name, atts);` (result ignored)   `ifNoAttrs a b` = `if (no_attributes(name, atts)) a else b`")
    A("    `ifHasAttrs a b` = `if (*atts) a else b`   `ifStateErr a b` = `if (state == s_error) a else b`")
    A("    `ifData a b` = `if (<condition on the data>) a else b` (also: a loop / try-catch that may leave by `return error(..)`)")
    A("    `ifBlank a b` = white_spaces: all characters are blanks   `ret` = `return ...;`   `scope p` = call of a member function -/")
    A("inductive Prog where")
    A("  | skip | setNext | setAfter | noAttrs | ret")
    A("  | err (k : ErrKind)")
    A("  | seq (a b : Prog) | ifData (a b : Prog) | ifNoAttrs (a b : Prog) | ifHasAttrs (a b : Prog)")
    A("  | ifStateErr (a b : Prog) | ifBlank (a b : Prog)")
    A("  | scope (a : Prog)")
    A("  deriving DecidableEq, Repr, Inhabited")
    A("")
    A("/-- one non-default entry of row `s` of the tables: `next[s][tag] = next`, `stag[s][tag] = h` -/")
    A("structure Entry where")
    A("  tag : Tag")
    A("  next : State")
    A("  h : StartH")
    A("  deriving DecidableEq")
    A("")
    rows = {}
    for (s, t), n in tb.next.items():
        rows.setdefault(s, []).append((t, n, tb.stag[(s, t)]))
    A("/-- the entries of `next[s][·]` / `stag[s][·]` written by `init(...)` (last write wins); every other entry has the")
    A("    default `next = s_error`, `stag = &DataParser::parser_error` -/")
    A("def row : State → List Entry")
    for s in sorted(rows):
        ents = ", ".join(f"⟨{T(t)}, {S(n)}, {H(h)}⟩" for t, n, h in sorted(rows[s]))
        A(f"  | {S(s)} => [{ents}]")
    if len(rows) < len(states):
        A("  | _ => []")
    A("")
    A("def lookup (s : State) (t : Tag) : Option Entry := (row s).find? (fun e => e.tag == t)")
    A("/-- `next[s][t]` -/")
    A("def next (s : State) (t : Tag) : State := match lookup s t with | some e => e.next | none => .s_error")
    A("/-- `stag[s][t]` -/")
    A("def stag (s : State) (t : Tag) : StartH := match lookup s t with | some e => e.h | none => .h_parser_error")
    A("")
    A("/-- `after[s]` (default `s_error`) -/")
    A("def after : State → State")
    for s in sorted(tb.after):
        A(f"  | {S(s)} => {S(tb.after[s])}")
    if len(tb.after) < len(states):
        A("  | _ => .s_error")
    A("")
    A("/-- `data[s]` (default `&DataParser::white_spaces`) -/")
    A("def dataH : State → DataH")
    for s in sorted(tb.data):
        A(f"  | {S(s)} => {H(tb.data[s])}")
    if len(tb.data) < len(states):
        A("  | _ => .h_white_spaces")
    A("")
    A("/-- `etag[s]` (default `&DataParser::end_tag`) -/")
    A("def etag : State → EndH")
    for s in sorted(tb.etag):
        A(f"  | {S(s)} => {H(tb.etag[s])}")
    if len(tb.etag) < len(states):
        A("  | _ => .h_end_tag")
    A("")
    A("/-- DataParser::tag(): element name ↦ tag (every other name: `error(\"### unknown tag\")`, `t_unknown`) -/")
    A("def tagTable : List (String × Tag) := [")
    A(",\n".join(f"  (\"{n}\", .{t})" for n, t in a["tagtab"]))
    A("]")
    A("")
    END_TAG_PROG[0] = a["progs"]["end"]["end_tag"]
    A("/-- DataParser::end_tag (" + a["where"][("end", "end_tag")] + ") -/")
    A("def endTagProg : Prog := " + prog_lean(END_TAG_PROG[0], top=True))
    A("")
    if a["overwritten"]:
        A("/- init() calls that overwrite a different handler / target written by an earlier init() (last write wins):")
        for o in a["overwritten"]:
            A("     " + o)
        A("-/")
        A("")
    for nm, kind, hs in (("startProg", "start", a["start_h"]), ("dataProg", "data", a["data_h"]), ("endProg", "end", a["end_h"])):
        A(f"def {nm} : {'StartH' if kind == 'start' else 'DataH' if kind == 'data' else 'EndH'} → Prog")
        for h in hs:
            A(f"  | .h_{h} => {prog_lean(a['progs'][kind][h])}   -- {a['where'][(kind, h)]}")
        if kind == "end":
            A("  | .null_ => .skip   -- call through a null member pointer (excluded by the theorem `etag s ≠ .null_`)")
        A("")
    A("def StartH.all : List StartH := [" + ", ".join(f".h_{h}" for h in a["start_h"]) + "]")
    A("def DataH.all : List DataH := [" + ", ".join(f".h_{h}" for h in a["data_h"]) + "]")
    A("def EndH.all : List EndH := [" + ", ".join(f".h_{h}" for h in a["end_h"]) + ", .null_]")
    A("def StartH.name : StartH → String")
    for h in a["start_h"]:
        A(f"  | .h_{h} => \"{h}\"")
    A("def EndH.name : EndH → String")
    for h in a["end_h"]:
        A(f"  | .h_{h} => \"{h}\"")
    A("  | .null_ => \"null\"")
    A("")
    A("end Gama.DP")
    return "\n".join(L) + "\n"


def cond_lean(c):
    if c[0] == "other":
        return ".other"
    if c[0] == "lit":
        return f"(.lit .{c[1]} {'true' if c[2] else 'false'})"
    ks = "[" + ", ".join("." + k for k in c[2]) + "]"
    if c[0] == "fails":
        return f"(.fails .{c[1]} {ks})"
    return f"(.pure .{c[1]} {ks} .{c[3]} {'true' if c[4] else 'false'})"


def cprog_lean(p, top=False):
    k = p[0]
    if not top and END_TAG_CPROG[0] is not None and p == END_TAG_CPROG[0]:
        return "cEndTagProg"
    if k in ("skip", "ret", "setNext", "setAfter", "noAttrs", "addText", "clearText"):
        return "." + k
    if k == "err":
        return f"(.err .{p[1]})"
    if k == "scope":
        return f"(.scope {cprog_lean(p[1])})"
    if k == "ifData":
        return f"(.ifData {cond_lean(p[1])} {cprog_lean(p[2])} {cprog_lean(p[3])})"
    if k in ("seq", "ifNoAttrs", "ifHasAttrs", "ifStateErr", "ifBlank"):
        return f"(.{k} {cprog_lean(p[1])} {cprog_lean(p[2])})"
    fail("internal: cprog_lean " + k)


END_TAG_CPROG = [None]


def conds_of(p, out):
    if p[0] == "ifData" and len(p) == 4:
        out.append(p[1])
    for x in p[1:]:
        if isinstance(x, tuple) and x and isinstance(x[0], str) and x[0] not in ("pure", "fails", "other", "lit"):
            conds_of(x, out)
    return out


def generate_conds(repo, a=None):
    """lean/Gama/Gen/DataParserConds.lean: every handler once more as `CProg` = the skeleton of Gen/DataParserAutomaton.lean with
    (1) every data-dependent condition DESCRIBED and (2) the statements that change `text_buffer` kept"""
    a = a or analyse(repo)
    L = []
    A = L.append
    A("/-")
    A("  GENERATED by tools/gen/c11_dataparser.py from lib/gnu_gama/xml/dataparser.h, dataparser.cpp, dataparser_g3.cpp,")
    A("  dataparser_g3adj.cpp, dataparser_adj.cpp of the current working tree.")
    A("  DO NOT EDIT: regenerated (and the proofs re-checked) on every run.")
    A("-/")
    A("import Gama.Gen.DataParserAutomaton")
    A("namespace Gama.DP")
    A("")
    A("/-- type of the variable behind one `>> x` (read from its declaration: local, member of DataParser, member of DataParser_g3):")
    A("    `double`, `std::string` (a blank-delimited word), `int`, `std::size_t` -/")
    A("inductive XKind where | double | word | int | size")
    A("  deriving DecidableEq, Repr, Inhabited")
    A("")
    A("/-- what the stringstream of the handler is built from: `text_buffer` (`stringstream istr(text_buffer)`,")
    A("    `istringstream inp(text_buffer.c_str())`) or the piece of character data handed to a data handler (`string(s, size_t(len))`) -/")
    A("inductive Src where | buffer | piece")
    A("  deriving DecidableEq, Repr, Inhabited")
    A("")
    A("/-- a conjunct next to `pure_data(…)` in the same condition: none; `g3->model != nullptr &&` in front; further tests on the")
    A("    extracted VALUES behind (`&& dim>0 && width<dim`) -/")
    A("inductive Guard where | none | modelNonNull | data")
    A("  deriving DecidableEq, Repr, Inhabited")
    A("")
    A("/-- a recogniser of gon2deg.h / intfloat.h applied to the whole `text_buffer`: `deg2gon(text_buffer, x)` (string by value),")
    A("    `IsFloat(b, e)` / `IsInteger(b, e)` with `b`, `e` = `text_buffer.begin()` / `.end()` (moved only by `TrimWhiteSpaces(b, e)`) -/")
    A("inductive LitKind where | deg2gon | isFloat | isInteger")
    A("  deriving DecidableEq, Repr, Inhabited")
    A("")
    A("/-- a data-dependent condition of a handler (`Prog.ifData`):")
    A("    `pure src chain g neg` = `[!] ( [g &&] pure_data(istr >> x1 >> … >> xn) )`, `istr` a stream over `src` not read before;")
    A("    `fails src chain`      = `!(istr >> x1 >> … >> xn)` (only the failure of the extractions is tested);")
    A("    `lit k neg`            = `[!] k(text_buffer)`, `k` one of the recognisers `LitKind`;")
    A("    `other`                = anything else: counters, null pointers, comparisons of values, exceptions of the matrix code,")
    A("                             a stream that was read before (`g3_obs_cov`), loops -/")
    A("inductive Cond where")
    A("  | pure (src : Src) (chain : List XKind) (g : Guard) (neg : Bool)")
    A("  | fails (src : Src) (chain : List XKind)")
    A("  | lit (k : LitKind) (neg : Bool)")
    A("  | other")
    A("  deriving DecidableEq, Repr, Inhabited")
    A("")
    A("/-- `Prog` with described conditions and the operations on `text_buffer`:")
    A("    `addText` = `text_buffer += ' '; text_buffer += string(s, len);`   `clearText` = `text_buffer.clear()` / `.erase()` -/")
    A("inductive CProg where")
    A("  | skip | setNext | setAfter | noAttrs | ret | addText | clearText")
    A("  | err (k : ErrKind)")
    A("  | seq (a b : CProg) | ifData (c : Cond) (a b : CProg) | ifNoAttrs (a b : CProg) | ifHasAttrs (a b : CProg)")
    A("  | ifStateErr (a b : CProg) | ifBlank (a b : CProg)")
    A("  | scope (a : CProg)")
    A("  deriving DecidableEq, Repr, Inhabited")
    A("")
    END_TAG_CPROG[0] = a["cprogs"]["end"]["end_tag"]
    A("def cEndTagProg : CProg := " + cprog_lean(END_TAG_CPROG[0], top=True))
    A("")
    for nm, kind, hs in (("cStartProg", "start", a["start_h"]), ("cDataProg", "data", a["data_h"]), ("cEndProg", "end", a["end_h"])):
        A(f"def {nm} : {'StartH' if kind == 'start' else 'DataH' if kind == 'data' else 'EndH'} → CProg")
        for h in hs:
            A(f"  | .h_{h} => {cprog_lean(a['cprogs'][kind][h])}")
        if kind == "end":
            A("  | .null_ => .skip")
        A("")
    A("/-- the conditions of every handler in source order (for the record; `CProg` is what the model runs) -/")
    A("def condTable : List (String × String × List Cond) := [")
    rows = []
    for kind, hs in (("start", a["start_h"]), ("data", a["data_h"]), ("end", a["end_h"])):
        for h in hs:
            cs = conds_of(a["cprogs"][kind][h], [])
            if cs:
                rows.append(f'  ("{h}", "{kind}", [' + ", ".join(cond_lean(c).strip("()") if c[0] == "other" else cond_lean(c) for c in cs) + "])")
    A(",\n".join(rows))
    A("]")
    A("")
    A("end Gama.DP")
    return "\n".join(L) + "\n"


def parse_pure_data(repo):
    """DataParser::pure_data: the ORDER of its tests, and the functions that call it
    -> (tests, callers) ; tests in ("failFalse", "eofTrue"), the final `char j; if (istr >> j) return false; else return true;` is checked textually"""
    d = Path(repo) / "lib" / "gnu_gama" / "xml"
    files = [(f, strip_comments((d / f).read_text())) for f in FILES]
    fns = collect_functions(files)
    pd = [f for f in fns if f.name == "pure_data"]
    if len(pd) != 1:
        fail("DataParser::pure_data not found or overloaded")
    body = norm(pd[0].body)
    tail = "char j;if(istr>>j)return false;else return true;"
    if not body.endswith(tail):
        fail("DataParser::pure_data: the final trailing-junk test no longer has the modelled shape: " + body[-120:])
    head = body[:-len(tail)]
    tests = []
    for st in [x for x in head.split(";") if x]:
        if st == "if(istr.fail())return false":
            tests.append("failFalse")
        elif st == "if(istr.eof())return true":
            tests.append("eofTrue")
        else:
            fail("DataParser::pure_data: unrecognised statement: " + st[:100])
    callers = []
    for f in fns:
        if f.name == "pure_data":
            continue
        for m in re.finditer(r"\bpure_data\s*\(", f.body):
            e = match_close(f.body, m.end() - 1, "(", ")")
            arg = norm(f.body[m.end():e])
            parts = arg.split(">>")
            if not re.fullmatch(r"\w+", parts[0]) or not all(re.fullmatch(r"[\w.\[\]]+(->[\w.\[\]]+)*", x) for x in parts[1:]):
                fail(f"DataParser::{f.name}: unrecognised argument of pure_data: {arg[:80]}")
            callers.append((f.name, f.kind, len(parts) - 1))
    return tests, callers


def unguarded_extractions(repo):
    """handlers that extract numbers from a stringstream WITHOUT calling pure_data (only the failure of `>>` is tested there)"""
    d = Path(repo) / "lib" / "gnu_gama" / "xml"
    fns = collect_functions([(f, strip_comments((d / f).read_text())) for f in FILES])
    return sorted(f.name for f in fns if f.name != "pure_data" and re.search(r"\bi?str\s*>>", f.body) and "pure_data" not in f.body)


def generate_pure_data(repo):
    tests, callers = parse_pure_data(repo)
    L = ["/-",
         "  GENERATED by tools/gen/c11_dataparser.py from lib/gnu_gama/xml/dataparser*.cpp of the current working tree.",
         "  DO NOT EDIT: regenerated (and the proofs re-checked) on every run.",
         "-/",
         "namespace Gama.PD",
         "",
         "/-- the early returns of `DataParser::pure_data(std::istream&)` IN SOURCE ORDER:",
         "    `failFalse` = `if (istr.fail()) return false;`   `eofTrue` = `if (istr.eof()) return true;`",
         "    (then, checked textually: `char j; if (istr >> j) return false; else return true;`) -/",
         "inductive PdTest where | failFalse | eofTrue",
         "  deriving DecidableEq, Repr",
         "def pureDataTests : List PdTest := [" + ", ".join("." + t for t in tests) + "]",
         "",
         "/-- every call of `pure_data`: (function, kind of handler, number of `>>` extractions inside the argument; 0 = the stream",
         "    is passed after extractions made before) -/",
         "def pureDataCallers : List (String × String × Nat) := ["]
    L.append(",\n".join(f'  ("{n}", "{k}", {c})' for n, k, c in callers))
    L += ["]", "",
          "/-- handlers that test only the failure of `istr >> …` and never call `pure_data` (trailing junk is not refused there) -/",
          "def unguardedExtractions : List String := [" + ", ".join(f'"{n}"' for n in unguarded_extractions(repo)) + "]",
          "", "end Gama.PD", ""]
    return "\n".join(L)


def write_if_changed(path, text):
    path = Path(path)
    if path.exists() and path.read_text() == text:
        return False
    path.parent.mkdir(parents=True, exist_ok=True)
    path.write_text(text)
    return True


def run(repo, verif):
    text = generate(repo)
    a = write_if_changed(Path(verif) / "lean" / "Gama" / "Gen" / "DataParserAutomaton.lean", text)
    b = write_if_changed(Path(verif) / "lean" / "Gama" / "Gen" / "PureData.lean", generate_pure_data(repo))
    c = write_if_changed(Path(verif) / "lean" / "Gama" / "Gen" / "DataParserConds.lean", generate_conds(repo))
    return a or b or c


if __name__ == "__main__":
    repo = sys.argv[1] if len(sys.argv) > 1 else "/repo"
    if len(sys.argv) > 2 and sys.argv[2] == "-":
        sys.stdout.write(generate(repo))
    else:
        ch = run(repo, Path(__file__).resolve().parents[2])
        print("DataParserAutomaton.lean", "rewritten" if ch else "unchanged")
