#!/usr/bin/env python3
"""
C15 translator (round 9): the LOOPS of the matvec operators, regenerated.

Each listed C++ function (mat.h, vec.h, vecbase.h, matvecbase.h, transmat.h, transvec.h) is parsed with the shared
front end tools/gen/cfun.py and written as ONE Lean definition in lean/Gama/Gen/MatVecKernels.lean, one line per C++
statement, in source order:

  * the guard `if (c) throw Exc(Exception::BadRank, …);` -> `if c then .error .badRank else …`
  * result objects `Vec t(n);` / `Mat C(r,c);` -> a fresh buffer `mkBuf n` (dimensions remembered for `C.rows()` and `return`)
  * iterators / `Float*` are `Nat` offsets into the storage of the operand they were initialised from
    (`X.begin()` -> 0, `X.end()` -> size, `p = q + e`); every `*p` is the checked read `rd`, every `*p = v` the checked
    write `wr`, `A(i,j)` the accessor `MB.get`, `b(i)` a checked read at `i-1`, `t(i) = v` a checked write at `i-1`
  * `for (Index i=lo; i<=hi; i++, steps) body` -> `forE lo (hi + 1 - lo) state (fun i st => body; steps)`, `i<hi` -> `hi - lo`;
    the state is the tuple of the variables assigned in the loop that are defined at loop entry (variables first assigned
    inside are local to a pass; reading one of those after the loop is refused)
  * `while (p != e) body` with `e = X.end()`, `p` from `X.begin()`, exactly one `p++` in the body and no other assignment
    to `p`/`e` -> `forE 0 (e - p)` (the only loop shape of matvecbase.h / vecbase.h / symmat.h `+=`)
  * `s += x * y` of two element reads -> `mulRd` / `getMul` / `getMulVec` / `vecMulGet` (two checked reads, then the product)
Anything else (another statement form, a changed loop header, an assignment to a loop counter, a new pointer idiom …) raises
Unparsable -> TieBroken: the model would no longer be the code.  Index arithmetic is emitted over `Nat`.

The definitions are tied to the closed-form hand models of Model/MatVec.lean (which the driver executes next to the
C++) by Lemmas/MatVecKernels.lean: `Gen.MV.<kernel> = MatVec.<model>` for ALL operands, so a changed bound, stride,
start offset, operand or guard in the C++ breaks a proof.

usage: c15_kernels.py <repo> <lean dir>
"""
import re
import sys
from pathlib import Path

sys.path.insert(0, str(Path(__file__).resolve().parent))
import cfun                                    # noqa: E402
from cfun import Unparsable, bad               # noqa: E402

CLASSES = ("Mat", "Vec", "TransVec", "TransMat", "SymMat", "MatBase", "VecBase", "MatVecBase")
LEAN_TY = {"Mat": "Mat K", "Vec": "Vec K", "TransVec": "Vec K", "TransMat": "TMat K", "SymMat": "SMat K",
           "MatBase": "MB K", "Float": "K", "VecBase": "Vec K", "MatVecBase": "Array K"}


def hdr(name, tys):
    """regex ending at the '(' of the parameter list whose parameter classes are `tys`"""
    ps = r"\s*,\s*".join(rf"(?:const\s+)?{t}(?:<[^>]*>)?\s*&?\s*\w+" if t != "Float" else r"Float\s+\w+" for t in tys)
    return rf"{name}\s*\((?=\s*{ps}\s*\))"


# name, file, header, [(param class)], result class, `this` class (members)
KERNELS = [
    ("matMulVec", "vec.h", hdr(r"operator\*", ["Mat", "Vec"]), "Vec", None),
    ("mbMulVec", "vec.h", hdr(r"operator\*", ["MatBase", "Vec"]), "Vec", None),
    ("tMulVec", "transmat.h", hdr(r"operator\*", ["TransMat", "Vec"]), "Vec", None),
    ("vecMulT", "transmat.h", hdr(r"operator\*", ["Vec", "TransMat"]), "TransVec", None),
    ("tvecMulMat", "transvec.h", hdr(r"operator\*", ["TransVec", "Mat"]), "TransVec", None),
    ("tvecMulMB", "transvec.h", hdr(r"operator\*", ["TransVec", "MatBase"]), "TransVec", None),
    # matrix-valued products / trans(TransMat): two loop levels around `*c++ = s` (tie: Lemmas/KernelLoopsNested.lean)
    ("matMul", "mat.h", hdr(r"operator\*", ["Mat", "Mat"]), "Mat", None),
    ("tMulMat", "transmat.h", hdr(r"operator\*", ["TransMat", "Mat"]), "Mat", None),
    ("matMulT", "transmat.h", hdr(r"operator\*", ["Mat", "TransMat"]), "Mat", None),
    ("tMulT", "transmat.h", hdr(r"operator\*", ["TransMat", "TransMat"]), "Mat", None),
    ("transT", "transmat.h", hdr(r"\btrans", ["TransMat"]), "Mat", None),
    ("matMulSym", "symmat.h", r"operator\*\s*\((?=const Mat<Float, Index, Exc>& A, const SymMat<)", "Mat", None),
    ("symMul", "symmat.h", r"operator\*\s*\((?=const SymMat<Float, Index, Exc>& A,\s*const SymMat<)", "SymMat", None),
    ("dot", "vecbase.h", hdr(r"VecBase<Float, Index, Exc>::dot", ["VecBase"]), "Float", "VecBase"),
    # storage primitives: stores over a LIVE buffer (tie: forE_over / forE_inplace, Lemmas/KernelLoopsNested.lean)
    ("baseScale", "matvecbase.h", hdr(r"void operator\*=", ["Float"]), "this", "MatVecBase"),
    ("baseMul", "matvecbase.h", hdr(r"void mul", ["Float", "MatVecBase"]), "out:X", "MatVecBase"),
    ("baseAdd", "matvecbase.h", hdr(r"void add", ["MatVecBase", "MatVecBase"]), "out:X", "MatVecBase"),
    ("baseSub", "matvecbase.h", hdr(r"void sub", ["MatVecBase", "MatVecBase"]), "out:X", "MatVecBase"),
]


def has_ret(stmts):
    return any(x[0] == "return" for x in stmts)


def preprocess(body):
    body = cfun.strip_comments(body)
    body = re.sub(r"(?:typename\s+)?\w+<Float, Index, Exc>::(?:const_)?iterator", "PTR", body)
    body = re.sub(r"\b(?:const_)?iterator\b", "PTR", body)
    body = re.sub(r"\b(Mat|Vec|TransVec|TransMat|SymMat)<Float, Index, Exc>", r"\1", body)
    body = re.sub(r"\b(Mat|Vec|TransVec|TransMat|SymMat)\s+(\w+)\(([^;]*)\);", r"\1 \2 = \1_ctor(\3);", body)
    return body


class Kernel:
    def __init__(self, name, text, header, ret, this_cls):
        self.name, self.ret, self.this_cls = name, ret, this_cls
        ptxt, between, body = cfun.function_source(text, header, name)
        self.params = []
        for part in self.split_params(ptxt):
            m = re.fullmatch(r"\s*(?:const\s+)?(\w+)(?:<[^>]*>)?\s*&?\s*(\w+)\s*", part)
            if not m or (m.group(1) not in CLASSES and m.group(1) != "Float"):
                bad(f"{name}: parameter {part!r}")
            self.params.append((m.group(1), m.group(2)))
        self.const_method = "const" in between
        self.body = cfun.Parser(cfun.tokenize(preprocess(body), name), name,
                                types=("PTR", "Mat", "Vec", "TransVec", "TransMat", "SymMat")).stmts_until_end()
        self.cls = {n: c for c, n in self.params}       # operand classes
        self.kind = {}        # variable -> 'K' | 'nat' | 'ptr' | 'buf'
        self.pbuf = {}        # pointer -> buffer it walks (operand name or result variable)
        self.pend = {}        # pointer that is `X.end()` -> X
        self.dims = {}        # result object -> (class, [lean dims])
        self.order = []       # declaration order
        for c, n in self.params:
            if c == "Float":
                self.kind[n] = "K"
        self.lines = []
        self.pre = []

    @staticmethod
    def split_params(ptxt):
        out, depth, cur = [], 0, ""
        for ch in ptxt:
            if ch == "<":
                depth += 1
            if ch == ">":
                depth -= 1
            if ch == "," and depth == 0:
                out.append(cur)
                cur = ""
            else:
                cur += ch
        if cur.strip():
            out.append(cur)
        return out

    # ---------------------------------------------------------------- expressions
    def objname(self, e):
        """operand an expression like `A`, `this`, `*this` denotes"""
        if e[0] == "var":
            return e[1]
        if e[0] == "deref" and e[1] == ("var", "this"):
            return "this"
        bad(f"{self.name}: object expression {e}")

    def data(self, obj):
        """lean text of the storage array of an operand / result"""
        if obj in self.dims:
            return obj
        c = self.cls.get(obj) if obj != "this" else self.this_cls
        if c in ("Vec", "TransVec", "VecBase", "MatVecBase"):
            return obj if obj != "this" else "self"
        if c in ("Mat", "TransMat", "SymMat"):
            return f"{obj}.data"
        bad(f"{self.name}: storage of {obj} ({c})")

    def dim(self, obj, what):
        if obj in self.dims:
            c, ds = self.dims[obj]
            if c in ("Vec", "TransVec") and what in ("dim", "size"):
                return ds[0]
            if c == "SymMat" and what in ("dim", "rows", "cols"):
                return ds[0]
            if c == "Mat" and what in ("rows", "cols"):
                return ds[0 if what == "rows" else 1]
            bad(f"{self.name}: {obj}.{what}()")
        c = self.cls.get(obj) if obj != "this" else self.this_cls
        lean = "self" if obj == "this" else obj
        if c in ("Vec", "TransVec", "VecBase", "MatVecBase") and what in ("dim", "size"):
            return f"{lean}.size"
        if c in ("Mat", "TransMat", "MatBase") and what in ("rows", "cols"):
            return f"{lean}.{what}"
        if c == "SymMat" and what in ("rows", "cols", "dim"):
            return f"{lean}.dim"
        bad(f"{self.name}: {obj}.{what}() on {c}")

    def nat(self, e, env):
        """(lean text) of an Index / pointer-offset expression"""
        k = e[0]
        if k == "paren":
            return self.nat(e[1], env)
        if k == "num" and cfun.is_int_literal(e[1]):
            return e[1]
        if k == "var":
            if e[1] in env and self.kind.get(e[1]) in ("nat", "ptr"):
                return e[1]
            bad(f"{self.name}: `{e[1]}` read before it is assigned (or not an index)")
        if k == "bin" and e[1] in ("+", "-", "*", "/"):
            return f"({self.nat(e[2], env)} {e[1]} {self.nat(e[3], env)})"
        if k == "meth" and not e[3]:
            o = "this" if e[1] == ("var", "this") else self.objname(e[1])
            if e[2] in ("rows", "cols", "dim", "size"):
                return self.dim(o, e[2])
            if e[2] == "begin":
                return "0"
            if e[2] == "end":
                return f"{self.data(o)}.size"
        if k == "call" and not e[2] and e[1] in ("dim", "size"):
            return self.dim("this", e[1])
        bad(f"{self.name}: index expression {e}")

    def ptr_target(self, e, env):
        """buffer a pointer-valued expression points into"""
        if e[0] == "paren":
            return self.ptr_target(e[1], env)
        if e[0] == "var" and self.kind.get(e[1]) == "ptr":
            return self.pbuf[e[1]]
        if e[0] == "meth" and e[2] in ("begin", "end") and not e[3]:
            return "this" if e[1] == ("var", "this") else self.objname(e[1])
        if e[0] == "bin" and e[1] == "+":
            return self.ptr_target(e[2], env)
        bad(f"{self.name}: pointer expression {e}")

    def cond(self, e, env):
        if e[0] == "paren":
            return self.cond(e[1], env)
        if e[0] == "bin" and e[1] == "||":
            return f"{self.cond(e[2], env)} ∨ {self.cond(e[3], env)}"
        if e[0] == "bin" and e[1] == "!=":
            return f"{self.nat(e[2], env)} ≠ {self.nat(e[3], env)}"
        bad(f"{self.name}: guard {e}")

    def element(self, e, env, post):
        """an element read: ('rd', array, offset) | ('get', A, i, j) | ('vget', b, i); pointer post-increments -> post"""
        if e[0] == "paren":
            return self.element(e[1], env, post)
        if e[0] == "deref":
            p = e[1]
            if p[0] == "post++" and p[1][0] == "var" and self.kind.get(p[1][1]) == "ptr":
                post.append(p[1][1])
                p = p[1]
            if p[0] == "var" and self.kind.get(p[1]) == "ptr" and p[1] in env:
                return ("rd", self.data(self.pbuf[p[1]]), p[1])
        if e[0] == "index" and e[1][0] == "var" and self.kind.get(e[1][1]) == "ptr1":
            ix = e[2]
            if ix[0] == "pre++" and ix[1][0] == "var" and self.kind.get(ix[1][1]) == "nat" and ix[1][1] in env:
                self.pre.append(ix[1][1])           # `b[++l]`: l is advanced BEFORE the read
                ix = ix[1]
            return ("rd", self.data(self.pbuf[e[1][1]]), f"({self.nat(ix, env)} - 1)")
        if e[0] == "call" and e[1] in self.cls:
            c, args = self.cls[e[1]], [self.nat(a, env) for a in e[2]]
            if c in ("Mat", "TransMat", "MatBase", "SymMat") and len(args) == 2:
                return ("get", e[1], args[0], args[1])
            if c in ("Vec", "TransVec", "VecBase") and len(args) == 1:
                return ("vget", e[1], args[0])
        bad(f"{self.name}: element expression {e}")

    def mb(self, a):
        return a if self.cls[a] == "MatBase" else f"{a}.mb"

    def value(self, e, env, out, pad):
        """K-valued right-hand side; emits the reads into `out`, returns (lean value text, post-increments)"""
        post = []
        if e[0] == "paren":
            return self.value(e[1], env, out, pad)
        if e[0] == "var" and self.kind.get(e[1]) == "K" and e[1] in env:
            return e[1], post
        if e[0] == "num" and e[1] == "0":
            return "0", post
        if e[0] == "bin" and e[1] in ("*", "+", "-"):
            l, r = e[2], e[3]
            lk = l[0] == "var" and self.kind.get(l[1]) == "K"
            rk = r[0] == "var" and self.kind.get(r[1]) == "K"
            if rk and not lk:                   # `*a++ * f`
                x = self.element(l, env, post)
                if x[0] != "rd":
                    bad(f"{self.name}: {e}")
                out.append(f"{pad}let v_ ← rdMap (fun x => x {e[1]} {r[1]}) {x[1]} {x[2]}")
                return "v_", post
            self.pre = []
            x, y = self.element(l, env, post), self.element(r, env, post)
            for v in self.pre:
                out.append(f"{pad}let {v} := {v} + 1")
            self.pre = []
            if x[0] == "rd" and y[0] == "rd":
                if e[1] == "*":
                    out.append(f"{pad}let v_ ← mulRd {x[1]} {x[2]} {y[1]} {y[2]}")
                else:
                    if x[2] != y[2] and False:
                        bad("zip")
                    out.append(f"{pad}let v_ ← zip2 (fun x y => x {e[1]} y) {x[1]} {x[2]} {y[1]} {y[2]}")
                return "v_", post
            if e[1] == "*" and x[0] == "get" and y[0] == "get":
                if x[3] != y[2]:
                    bad(f"{self.name}: product {e} is not A(i,k)*B(k,j)")
                out.append(f"{pad}let v_ ← getMul {self.mb(x[1])} {self.mb(y[1])} {x[2]} {x[3]} {y[3]}")
                return "v_", post
            if e[1] == "*" and x[0] == "get" and y[0] == "vget":
                if x[3] != y[2]:
                    bad(f"{self.name}: product {e} is not A(i,j)*b(j)")
                out.append(f"{pad}let v_ ← getMulVec {self.mb(x[1])} {self.data(y[1])} {x[2]} {x[3]}")
                return "v_", post
            if e[1] == "*" and x[0] == "vget" and y[0] == "get":
                if x[2] != y[2]:
                    bad(f"{self.name}: product {e} is not b(i)*A(i,j)")
                out.append(f"{pad}let v_ ← vecMulGet {self.data(x[1])} {self.mb(y[1])} {y[2]} {y[3]}")
                return "v_", post
            bad(f"{self.name}: product {e}")
        x = self.element(e, env, post)
        if x[0] == "rd":
            out.append(f"{pad}let v_ ← rd {x[1]} {x[2]}")
        elif x[0] == "get":
            out.append(f"{pad}let v_ ← MB.get {self.mb(x[1])} {x[2]} {x[3]}")
        else:
            out.append(f"{pad}let v_ ← rd {self.data(x[1])} ({x[2]} - 1)")
        return "v_", post

    # ---------------------------------------------------------------- statements
    def assigned(self, stmts, acc):
        """variables (and buffers) assigned by a statement list, in order of first assignment"""
        def add(v):
            if v not in acc:
                acc.append(v)

        def walk_expr(e):
            if not isinstance(e, tuple):
                return
            if e[0] == "assign":
                lhs = e[2]
                if lhs[0] == "var":
                    add(lhs[1])
                elif lhs[0] == "deref":
                    p = lhs[1][1] if lhs[1][0] == "post++" else lhs[1]
                    add(self.pbuf_of(p))
                elif lhs[0] == "call":
                    add(lhs[1])
            if e[0] in ("post++", "pre++") and e[1][0] == "var":
                add(e[1][1])
            for x in e[1:]:
                if isinstance(x, tuple):
                    walk_expr(x)
                elif isinstance(x, list):
                    for y in x:
                        walk_expr(y)
        for s in stmts:
            if s[0] == "expr":
                walk_expr(s[1])
            elif s[0] == "decl" and s[3] is not None:
                add(s[2])
            elif s[0] == "for":
                self.assigned(s[1], acc)
                for x in s[3]:
                    walk_expr(x)
                self.assigned(s[4], acc)
            elif s[0] == "while":
                self.assigned(s[2], acc)
            elif s[0] == "block":
                self.assigned(s[1], acc)
            elif s[0] == "if" and not s[3] and not has_ret(s[2]):
                self.assigned(s[2], acc)
            elif s[0] in ("if", "return", "throw"):
                bad(f"{self.name}: {s[0]} inside a loop")
        return acc

    def pbuf_of(self, p):
        if p[0] == "var" and p[1] in self.pbuf:
            return self.pbuf[p[1]]
        bad(f"{self.name}: store through {p}")

    def set_var(self, name, txt, env, out, pad, ty=None):
        out.append(f"{pad}let {name}{(' : ' + ty) if ty else ''} := {txt}")
        env.add(name)

    def expr_stmt(self, e, env, out, pad):
        if e[0] in ("post++", "pre++") and e[1][0] == "var" and self.kind.get(e[1][1]) in ("ptr", "nat") and e[1][1] in env:
            v = e[1][1]
            out.append(f"{pad}let {v} := {v} + 1")
            return
        if e[0] != "assign":
            bad(f"{self.name}: statement {e}")
        op, lhs, rhs = e[1], e[2], e[3]
        if lhs[0] == "var":
            v = lhs[1]
            kd = self.kind.get(v) or bad(f"{self.name}: assignment to undeclared {v}")
            if kd == "K":
                if op == "=":
                    val, post = self.value(rhs, env, out, pad)
                    self.set_var(v, val, env, out, pad, "K")
                elif op == "+=" and v in env:
                    val, post = self.value(rhs, env, out, pad)
                    for p in post:
                        out.append(f"{pad}let {p} := {p} + 1")
                    post = []
                    out.append(f"{pad}let {v} := {v} + {val}")
                else:
                    bad(f"{self.name}: {v} {op}")
                for p in post:
                    out.append(f"{pad}let {p} := {p} + 1")
                return
            if kd == "ptr":
                if op == "=":
                    tgt = self.ptr_target(rhs, env)
                    if self.pbuf.setdefault(v, tgt) != tgt:
                        bad(f"{self.name}: pointer {v} walks two objects")
                    self.set_var(v, self.nat(rhs, env), env, out, pad)
                elif op == "+=" and v in env:
                    out.append(f"{pad}let {v} := {v} + {self.nat(rhs, env)}")
                else:
                    bad(f"{self.name}: {v} {op}")
                return
            if kd == "nat" and op == "=":
                self.set_var(v, self.nat(rhs, env), env, out, pad)
                return
            if kd == "nat" and op == "+=" and v in env:
                out.append(f"{pad}let {v} := {v} + {self.nat(rhs, env)}")
                return
            bad(f"{self.name}: assignment {e}")
        if lhs[0] == "deref":                    # *p = v; *p++ = v; *p++ *= f; *p++ += *b++
            p, inc = lhs[1], False
            if p[0] == "post++":
                p, inc = p[1], True
            if not (p[0] == "var" and self.kind.get(p[1]) == "ptr" and p[1] in env):
                bad(f"{self.name}: store {e}")
            buf = self.pbuf[p[1]]
            if op == "=":
                val, post = self.value(rhs, env, out, pad)
            else:
                val, post = self.value(("bin", op[0], ("deref", p), rhs), env, out, pad)
            out.append(f"{pad}let {self.data(buf)} ← wr {self.data(buf)} {p[1]} {val}")
            for q in post + ([p[1]] if inc else []):
                out.append(f"{pad}let {q} := {q} + 1")
            return
        if lhs[0] == "call" and lhs[1] in self.dims and self.dims[lhs[1]][0] in ("Vec", "TransVec") and op == "=" and len(lhs[2]) == 1:
            val, post = self.value(rhs, env, out, pad)
            out.append(f"{pad}let {lhs[1]} ← wr {lhs[1]} ({self.nat(lhs[2][0], env)} - 1) {val}")
            return
        bad(f"{self.name}: statement {e}")

    def decl(self, s, env, out, pad):
        _, ty, name, init, _const = s
        self.order.append(name)
        if ty in ("Float",):
            self.kind[name] = "K"
            if init is not None:
                val, post = self.value(init, env, out, pad)
                self.set_var(name, val, env, out, pad, "K")
            return
        if ty == "Index":
            self.kind[name] = "nat"
            if init is not None:
                self.set_var(name, self.nat(init, env), env, out, pad)
            return
        if ty == "Float*" and init is not None and init[0] == "bin" and init[1] == "-" and init[3] == ("num", "1") \
                and init[2][0] == "meth" and init[2][2] == "begin":
            self.kind[name] = "ptr1"          # `X.begin() - 1`: only ever indexed, `b[l]` is cell l-1
            self.pbuf[name] = self.ptr_target(init[2], env)
            return
        if ty in ("PTR", "Float*"):
            self.kind[name] = "ptr"
            if init is not None:
                self.pbuf[name] = self.ptr_target(init, env)
                if init[0] == "meth" and init[2] == "end":
                    self.pend[name] = self.pbuf[name]
                self.set_var(name, self.nat(init, env), env, out, pad)
            return
        if ty == "SymMat" and init and init[0] == "call" and init[1] == "SymMat_ctor" and len(init[2]) == 1:
            d = self.nat(init[2][0], env)
            self.kind[name] = "buf"
            self.dims[name] = (ty, [d])
            self.set_var(name, f"mkBuf ({d} * ({d} + 1) / 2)", env, out, pad, "Array K")
            return
        if ty in ("Vec", "TransVec", "Mat") and init and init[0] == "call" and init[1] == ty + "_ctor":
            ds = [self.nat(a, env) for a in init[2]]
            if len(ds) != (2 if ty == "Mat" else 1):
                bad(f"{self.name}: constructor {init}")
            self.kind[name] = "buf"
            self.dims[name] = (ty, ds)
            self.set_var(name, "mkBuf (" + " * ".join(ds) + ")", env, out, pad, "Array K")
            return
        bad(f"{self.name}: declaration {s}")

    def loop(self, lo, count, counter, body, steps, env, out, pad):
        names = self.assigned(body, [])
        for x in steps:
            self.assigned([("expr", x)], names)
        if counter in names:
            bad(f"{self.name}: the loop assigns its counter {counter}")
        bufs = [self.data(n) if n in ("this",) or n in self.cls else n for n in names]
        state = [n for n in bufs if n in env]
        rank = {"K": 0, "buf": 1, "ptr": 2, "nat": 3}

        st0 = list(state)

        def key(v):
            if self.kind.get(v) == "ptr" and self.data(self.pbuf[v]) in st0:
                return (1, 1)              # the store pointer right after its buffer
            return (rank.get(self.kind.get(v, "buf"), 1), 0 if self.kind.get(v, "buf") == "buf" else 2)
        state.sort(key=lambda v: (key(v), self.order.index(v) if v in self.order else -1))
        if not state:
            bad(f"{self.name}: a loop without effect")
        tup = state[0] if len(state) == 1 else "(" + ", ".join(state) + ")"
        out.append(f"{pad}let r ← forE {lo} {count} {tup} fun {counter} st => do")
        env2 = set(env)
        env2.add(counter)
        self.kind[counter] = "nat"
        for i, v in enumerate(state):
            out.append(f"{pad}  let {v} := {'st' if len(state) == 1 else cfun.proj('st', i, len(state))}")
        self.stmts(body, env2, out, pad + "  ")
        for x in steps:
            self.expr_stmt(x, env2, out, pad + "  ")
        out.append(f"{pad}  pure {tup}")
        for i, v in enumerate(state):
            out.append(f"{pad}let {v} := {'r' if len(state) == 1 else cfun.proj('r', i, len(state))}")
        return env2 - set(env) - {counter}          # variables local to the passes

    def stmts(self, stmts, env, out, pad):
        dead = set()
        for s in stmts:
            for v in dead:
                env.discard(v)
            if s[0] == "decl":
                self.decl(s, env, out, pad)
            elif s[0] == "block":
                self.stmts(s[1], env, out, pad)
            elif s[0] == "expr":
                self.expr_stmt(s[1], env, out, pad)
            elif s[0] == "for":
                init, cond, step, body = s[1], s[2], s[3], s[4]
                if len(init) < 1:
                    bad(f"{self.name}: loop header {init}")
                i0 = init[0]
                pre_loop = init[1:]
                if i0[0] == "decl" and i0[1] == "Index" and i0[3] is not None:
                    counter, lo = i0[2], self.nat(i0[3], env)
                elif i0[0] == "expr" and i0[1][0] == "assign" and i0[1][1] == "=" and i0[1][2][0] == "var" \
                        and self.kind.get(i0[1][2][1]) == "nat":
                    counter, lo = i0[1][2][1], self.nat(i0[1][3], env)
                else:
                    bad(f"{self.name}: loop header {init}")
                self.kind[counter] = "nat"
                if not (cond and cond[0] == "bin" and cond[1] in ("<=", "<") and cond[2] == ("var", counter)):
                    bad(f"{self.name}: loop condition {cond}")
                hi = self.nat(cond[3], env)
                count = f"({hi} + 1 - {lo})" if cond[1] == "<=" else f"({hi} - {lo})"
                incs = [ix for ix, x in enumerate(step) if x in (("post++", ("var", counter)), ("pre++", ("var", counter)))]
                if len(incs) != 1:
                    bad(f"{self.name}: loop step {step} does not advance {counter} exactly once")
                after = step[incs[0] + 1:]
                if repr(("var", counter)) in repr(after):
                    bad(f"{self.name}: a step after {counter}++ uses {counter}")
                for x in pre_loop:                      # `for (k=j+1, l+=j; …`: executed once, before the loop
                    if x[0] != "expr" or repr(("var", counter)) in repr(x):
                        bad(f"{self.name}: loop header {init}")
                    self.expr_stmt(x[1], env, out, pad)
                dead |= self.loop(lo, count, counter, body, step[:incs[0]] + after, env, out, pad)
                env.discard(counter)
            elif s[0] == "while":
                c = s[1]
                if not (c[0] == "bin" and c[1] == "!=" and c[2][0] == "var" and c[3][0] == "var" and c[3][1] in self.pend
                        and self.pbuf.get(c[2][1]) == self.pend[c[3][1]]):
                    bad(f"{self.name}: while condition {c} is not `p != e` with e = X.end(), p walking X")
                p, e = c[2][1], c[3][1]
                names = self.assigned(s[2], [])
                txt = repr(s[2])
                if e in names or txt.count(repr(("post++", ("var", p)))) != 1 or repr(("assign",)) [:-2] + f", '=', ('var', '{p}')" in txt:
                    bad(f"{self.name}: while body does not advance {p} exactly once")
                dead |= self.loop("0", f"({e} - {p})", "_w", s[2], [], env, out, pad)
            elif s[0] == "if":
                c, a, b = s[1], s[2], s[3]
                if has_ret(a):
                    if not (not b and len(a) == 1 and a[0][0] == "return" and a[0][1] and a[0][1][0] == "call"
                            and c[0] == "bin" and c[1] == "==" and c[3] == ("num", "0")):
                        bad(f"{self.name}: if after the guard")
                    r = a[0][1]
                    if r[1] == "Mat" and len(r[2]) == 2 and self.ret == "Mat":
                        ds = [self.nat(x, env) for x in r[2]]
                        val = f"⟨{ds[0]}, {ds[1]}, mkBuf ({ds[0]} * {ds[1]})⟩"
                    elif r[1] == "SymMat" and not r[2] and self.ret == "SymMat":
                        val = "⟨0, #[]⟩"
                    else:
                        bad(f"{self.name}: early return {r}")
                    out.append(f"{pad}if {self.nat(c[2], env)} = 0 then pure {val} else do")
                else:
                    # value-level `if (k > i) l += e;` on an index variable
                    if not (not b and len(a) == 1 and a[0][0] == "expr" and a[0][1][0] == "assign" and a[0][1][1] == "+="
                            and a[0][1][2][0] == "var" and self.kind.get(a[0][1][2][1]) == "nat" and a[0][1][2][1] in env
                            and c[0] == "bin" and c[1] == ">"):
                        bad(f"{self.name}: if {s}")
                    v = a[0][1][2][1]
                    out.append(f"{pad}let {v} := if {self.nat(c[3], env)} < {self.nat(c[2], env)} then {v} + {self.nat(a[0][1][3], env)} else {v}")
                    continue
                rest = stmts[stmts.index(s) + 1:]
                self.stmts(rest, env, out, pad + "  ")
                return
            elif s[0] == "return":
                self.ret_stmt(s[1], env, out, pad)
            else:
                bad(f"{self.name}: statement {s[0]}")

    def ret_stmt(self, e, env, out, pad):
        if self.ret == "Float":
            v, _ = self.value(e, env, out, pad)
            out.append(f"{pad}pure {v}")
            return
        if e is None or e[0] != "var" or e[1] not in self.dims:
            bad(f"{self.name}: return {e}")
        c, ds = self.dims[e[1]]
        if c != self.ret:
            bad(f"{self.name}: returns a {c}")
        if c == "SymMat":
            out.append(f"{pad}pure ⟨{ds[0]}, {e[1]}⟩")
            return
        out.append(f"{pad}pure {e[1]}" if c != "Mat" else f"{pad}pure ⟨{ds[0]}, {ds[1]}, {e[1]}⟩")

    def emit(self):
        out = []
        body = list(self.body)
        env = set()
        binders = []
        for c, n in self.params:
            if c != "Float":
                self.kind[n] = "obj"
            binders.append(f"({n} : {LEAN_TY[c]})")
        if self.this_cls:
            binders.insert(0, "(self : Array K)")
        guard = None
        if body and body[0][0] == "if":
            g = body.pop(0)
            if g[3] or len(g[2]) != 1 or g[2][0][0] != "throw" or "BadRank" not in repr(g[2][0]):
                bad(f"{self.name}: guard {g}")
            guard = self.cond(g[1], env)
        for c, n in self.params:
            if c == "Float":
                env.add(n)
        if self.ret.startswith("out:"):
            x = self.ret[4:]
            self.kind[x] = "buf"
            env.add(x)
        if self.ret == "this":
            self.kind["self"] = "buf"
            env.add("self")
        self.stmts(body, env, out, "  ")
        if self.ret == "this":
            out.append("  pure self")
            rty = "Array K"
        elif self.ret.startswith("out:"):
            out.append(f"  pure {self.ret[4:]}")
            rty = "Array K"
        else:
            rty = {"Vec": "Vec K", "TransVec": "Vec K", "Mat": "Mat K", "Float": "K", "SymMat": "SMat K"}[self.ret]
        if any("x - y" in ln for ln in out):
            binders.insert(0, "[Sub K]")
        head = f"def {self.name} {' '.join(binders)} : Except Err ({rty}) :=\n"
        if guard:
            head += f"  if {guard} then .error .badRank else do\n"
        else:
            head += "  do\n"
        return head + "\n".join(out) + "\n"


HEADER = """/-
  GENERATED by tools/gen/c15_kernels.py from lib/matvec/{mat,vec,vecbase,matvecbase,transmat,transvec}.h on every run
  of the C15 check.  Do not edit.  One definition per C++ function, one line per C++ statement, in source order;
  pointers are offsets into the storage of the operand they were initialised from, `*p` is the checked read `rd`,
  `*p = v` the checked write `wr`, counted loops are `forE lo passes state body` (Model/KernelLoops.lean).
  Tied to the closed-form models of Model/MatVec.lean by Lemmas/MatVecKernels.lean.
-/
import Gama.Model.KernelLoops
namespace Gama.Gen.MV
open Gama Gama.MatVec
set_option linter.unusedVariables false
variable {K : Type} [Add K] [Mul K] [Zero K]

/-- `*a (op) *b` of two checked reads -/
def zip2 (f : K → K → K) (a : Array K) (p : Nat) (b : Array K) (q : Nat) : Except Err K :=
  match rd a p with
  | .error e => .error e
  | .ok x => match rd b q with
             | .error e => .error e
             | .ok y => .ok (f x y)

"""


def generate(repo):
    texts = {}
    parts = [HEADER]
    for name, fn, header, ret, this_cls in KERNELS:
        if fn not in texts:
            texts[fn] = (Path(repo) / "lib/matvec" / fn).read_text()
        k = Kernel(name, texts[fn], header, ret, this_cls)
        parts.append(f"/-- {fn}: `{name}` -/\n" + k.emit() + "\n")
    parts.append("end Gama.Gen.MV\n")
    return "".join(parts)


def run(repo, out_path):
    """regenerate; True if the file content changed; raises Unparsable"""
    return cfun.write_if_changed(Path(out_path), generate(repo))


def main():
    repo, lean = sys.argv[1], Path(sys.argv[2])
    try:
        text = generate(repo)
    except Unparsable as e:
        print(f"TIE-BROKEN {e}")
        sys.exit(3)
    cfun.write_if_changed(lean / "Gama/Gen/MatVecKernels.lean", text)
    print("ok")


if __name__ == "__main__":
    main()
