"""
C19 translator:  /repo/lib/gnu_gama/g3/g3_model_linearization.cpp (+ Model::vertical / Model::instrument of
g3_model.cpp, the scales of g3_parameter.h, the macros of radian.h)  ->  lean/Gama/Gen/G3Linearization.lean

A small C++ front end in the style of tools/gen/c05_linearization.py (tokenizer with the object-like macros of
radian.h expanded textually, recursive-descent expression / statement parser, a symbolic interpreter of the
straight-line member functions `Model::linearization(T*)`).  Every function becomes a Lean definition over
`[Trig K]` returning a `GLin K`:

  * double locals            -> `let v_<name>_<n> : K := …`            (re-assignment = shadowing)
  * E_3 / R_3 locals         -> `let e_<name>_<n> : E3 K`, `let r_<name>_<n> : Rot K`; `+= -= *= set cross`,
                                `R.set_rotation / rotation / inverse` -> `E3.add …`, `transformationMatrix`,
                                `E3.rotation / E3.inverse`
  * `Point* from = points->find(obs->from)`        -> the role `.frm` (`P .frm : GPt K`)
  * `p->set_diff_XYZ(a, b, c)` / `p->diff_N()`      -> symbolic state per point, `Rot.diffN (P r).R a b c`
  * `for (int i=1; i<=3; i++) { switch (i) {…} … }` -> unrolled
  * `A->new_row()`                                  -> a new `GRow`
  * `if (p->free_horizontal_position()) { … if (p->free_height()) {…} }`
                                                    -> `GBlock` with the *conjunction of the enclosing guards*,
                                                       exactly as nested in the source
  * `A->add_element(c, p->N.index())`               -> `GPush role comp c`
  * `rhs(++rhs_ind) = e` (also chained)             -> next right-hand side
  * `if (abs(r) > tol_abs …) { rejected_obs.push_back; reset_parameters(); o->set_active(false); }` -> `rejected`

Anything it does not understand raises TieBroken (the model would no longer be the code).  The primitives that
stay hand-written in lean/Gama/Model/{Neu,G3Lin}.lean (E_3 / R_3 operations, Point::diff_N …, X_dh, model_height,
the guard predicates, Parameter::index) are pinned by a normalised-text comparison of their C++ bodies.
Pure python3 standard library.
"""
import re
from pathlib import Path

try:
    from lib.core import TieBroken
except Exception:  # stand-alone use
    class TieBroken(Exception):
        def __init__(self, name, detail=""):
            super().__init__(name + ": " + detail)
            self.name, self.detail = name, detail

NAME = "c19_linearization"
TYPES = ["Angle", "Azimuth", "Distance", "Height", "HeightDiff", "Vector", "XYZ", "ZenithAngle"]
LEAN_NAME = {"Angle": "angle", "Azimuth": "azimuth", "Distance": "distance", "Height": "height",
             "HeightDiff": "hdiff", "Vector": "vector", "XYZ": "xyz", "ZenithAngle": "zenith"}


def broken(msg):
    raise TieBroken(NAME, msg)


# ------------------------------------------------------------------ tokenizer

TOK = re.compile(r"""
    (?P<num>(?:\d+\.\d*|\.\d+|\d+)(?:[eE][+-]?\d+)?)
  | (?P<str>"(?:[^"\\\n]|\\.)*"|'(?:[^'\\\n]|\\.)*')
  | (?P<id>[A-Za-z_]\w*)
  | (?P<op>->|\+\+|--|\+=|-=|\*=|/=|==|!=|>=|<=|\|\||&&|::|[-+*/%<>=!&|^~?:;,.(){}\[\]])
  | (?P<ws>\s+)
""", re.X)


def strip_comments(src):
    src = re.sub(r"/\*.*?\*/", lambda m: "\n" * m.group(0).count("\n"), src, flags=re.S)
    return re.sub(r"//[^\n]*", "", src)


def tokenize(src, what):
    toks, i = [], 0
    while i < len(src):
        m = TOK.match(src, i)
        if not m:
            broken(f"{what}: cannot tokenize at {src[i:i+30]!r}")
        i = m.end()
        if m.lastgroup == "ws":
            continue
        toks.append((m.lastgroup, m.group(0)))
    return toks


def read_macros(radian_h):
    src = strip_comments(radian_h)
    macros = {}
    for m in re.finditer(r"^[ \t]*#[ \t]*define[ \t]+(\w+)[ \t]+(.+?)[ \t]*$", src, re.M):
        name, body = m.group(1), m.group(2)
        if name.endswith("_h") or "(" in name:
            continue
        macros[name] = tokenize(body, "radian.h")
    for need in ("M_PI", "GON_TO_RAD", "RAD_TO_CC"):
        if need not in macros:
            broken(f"radian.h: macro {need} missing")
    pi_txt = "".join(t for _, t in macros.pop("M_PI"))
    if not re.fullmatch(r"3\.14159265358979\d*", pi_txt):
        broken(f"radian.h: M_PI is {pi_txt}")
    return macros, pi_txt


def expand(toks, macros, depth=0):
    if depth > 8:
        broken("macro recursion")
    out = []
    for k, t in toks:
        if k == "id" and t in macros:
            out += expand(macros[t], macros, depth + 1)
        else:
            out.append((k, t))
    return out


def norm(txt):
    return re.sub(r"\s+", "", strip_comments(txt))


# ------------------------------------------------------------------ parser

class P:
    TYPEWORDS = {"const", "double", "int", "E_3", "R_3", "Point"}

    def __init__(self, toks, what):
        self.t, self.i, self.what = toks, 0, what

    def peek(self, k=0):
        return self.t[self.i + k][1] if self.i + k < len(self.t) else None

    def kind(self, k=0):
        return self.t[self.i + k][0] if self.i + k < len(self.t) else None

    def next(self):
        v = self.t[self.i][1]
        self.i += 1
        return v

    def eat(self, s):
        if self.peek() != s:
            broken(f"{self.what}: expected {s!r} got {self.peek()!r} near "
                   + " ".join(t for _, t in self.t[max(0, self.i - 8):self.i + 4]))
        self.i += 1

    def accept(self, s):
        if self.peek() == s:
            self.i += 1
            return True
        return False

    def expr(self):
        return self.assign()

    def assign(self):
        lhs = self.binary(0)
        if self.peek() in ("=", "+=", "-=", "*=", "/="):
            op = self.next()
            rhs = self.assign()
            return ("assign", op, lhs, rhs)
        return lhs

    LEVELS = [["||"], ["&&"], ["==", "!="], ["<", ">", "<=", ">="], ["+", "-"], ["*", "/"]]

    def binary(self, lvl):
        if lvl == len(self.LEVELS):
            return self.unary()
        e = self.binary(lvl + 1)
        while self.peek() in self.LEVELS[lvl]:
            op = self.next()
            r = self.binary(lvl + 1)
            e = ("bin", op, e, r)
        return e

    def unary(self):
        if self.peek() in ("-", "+", "!"):
            op = self.next()
            return ("un", op, self.unary())
        if self.peek() == "++":
            self.next()
            return ("preinc", self.unary())
        return self.postfix()

    def postfix(self):
        e = self.primary()
        while True:
            if self.peek() in (".", "->"):
                self.next()
                name = self.next()
                if self.accept("("):
                    e = ("meth", e, name, self.args())
                else:
                    e = ("mem", e, name)
            elif self.peek() == "++":
                self.next()
                e = ("postinc", e)
            else:
                return e

    def args(self):
        a = []
        if self.accept(")"):
            return a
        while True:
            a.append(self.expr())
            if self.accept(")"):
                return a
            self.eat(",")

    def qualified(self):
        name = self.next()
        while self.peek() == "::":
            self.next()
            name = name + "::" + self.next()
        return name

    def primary(self):
        k = self.kind()
        if k == "num":
            return ("num", self.next())
        if k == "id":
            name = self.qualified()
            if self.accept("("):
                return ("call", name, self.args())
            return ("var", name)
        if self.accept("("):
            e = self.expr()
            self.eat(")")
            return e
        broken(f"{self.what}: unexpected token {self.peek()!r}")

    # ---------------------------------------------------------------- statements
    def raw_block(self):
        """the tokens of a `{ … }` (or a single statement up to `;`) without parsing them"""
        start = self.i
        if self.peek() == "{":
            depth = 0
            while True:
                t = self.next()
                depth += (t == "{") - (t == "}")
                if depth == 0:
                    break
        else:
            while self.next() != ";":
                pass
        return [t for _, t in self.t[start:self.i]]

    def is_decl(self):
        w = self.peek()
        if w == "GNU_gama" and self.peek(1) == "::" and self.peek(2) in ("E_3", "R_3"):
            return True
        return w in self.TYPEWORDS and self.kind(1) in ("id", "op") and self.peek(1) not in ("(", ".", "->", "=", "::")

    def stmt(self):
        if self.accept("{"):
            body = []
            while not self.accept("}"):
                body.append(self.stmt())
            return ("block", body)
        if self.accept(";"):
            return ("block", [])
        if self.accept("using"):
            while self.next() != ";":
                pass
            return ("block", [])
        if self.accept("if"):
            self.eat("(")
            if self.is_decl():
                d = self.decl(in_cond=True)
                self.eat(")")
                return ("ifdecl", d, self.stmt())
            c = self.expr()
            self.eat(")")
            if mentions(c, "tol_abs"):
                return ("reject", c, self.raw_block())
            th = self.stmt()
            if self.peek() == "else":
                broken(f"{self.what}: if/else")
            return ("if", c, th)
        if self.accept("for"):
            self.eat("(")
            self.eat("int")
            v = self.next()
            self.eat("=")
            lo = self.next()
            self.eat(";")
            if self.next() != v or self.next() != "<=":
                broken(f"{self.what}: for-loop condition is not `{v} <= n`")
            hi = self.next()
            self.eat(";")
            if self.next() != v or self.next() != "++":
                broken(f"{self.what}: for-loop step is not `{v}++`")
            self.eat(")")
            if not (lo.isdigit() and hi.isdigit()):
                broken(f"{self.what}: for-loop bounds are not integer literals")
            return ("for", v, int(lo), int(hi), self.stmt())
        if self.accept("switch"):
            self.eat("(")
            e = self.expr()
            self.eat(")")
            self.eat("{")
            cases = []
            while not self.accept("}"):
                self.eat("case")
                val = self.next()
                self.eat(":")
                body = []
                while self.peek() != "break":
                    if self.peek() in ("case", "}", "default"):
                        broken(f"{self.what}: switch case without break")
                    body.append(self.stmt())
                self.eat("break")
                self.eat(";")
                cases.append((int(val), body))
            return ("switch", e, cases)
        if self.accept("return"):
            e = self.expr()
            self.eat(";")
            return ("return", e)
        if self.peek() in ("while", "do", "goto", "try", "throw", "else"):
            broken(f"{self.what}: statement kind {self.peek()!r} is not straight-line")
        if self.is_decl():
            d = self.decl()
            return d
        e = self.expr()
        self.eat(";")
        return ("expr", e)

    def decl(self, in_cond=False):
        words = []
        if self.peek() == "GNU_gama":
            self.next()
            self.eat("::")
        while self.peek() in self.TYPEWORDS:
            words.append(self.next())
        base = [w for w in words if w != "const"]
        if len(base) != 1:
            broken(f"{self.what}: declaration type {words}")
        decls = []
        while True:
            ref = ""
            while self.peek() in ("&", "*"):
                ref += self.next()
            name = self.next()
            init = None
            if self.accept("="):
                init = ("init", self.assign())
            elif self.peek() == "(":
                self.next()
                init = ("ctor", self.args())
            decls.append((name, ref, init))
            if in_cond:
                break
            if self.accept(";"):
                break
            self.eat(",")
        return ("decl", base[0], decls)


def mentions(e, name):
    if isinstance(e, tuple):
        if e[0] == "var" and e[1] == name:
            return True
        return any(mentions(x, name) for x in e[1:])
    if isinstance(e, list):
        return any(mentions(x, name) for x in e)
    return False


def find_functions(toks, what, cls, names):
    """[(name, ret, params tokens, body stmts)] for `ret cls::name(params) [const] { … }`"""
    res = []
    i, n = 0, len(toks)
    while i + 3 < n:
        if toks[i][1] == cls and toks[i + 1][1] == "::" and toks[i + 2][1] in names and toks[i + 3][1] == "(":
            name = toks[i + 2][1]
            ret = toks[i - 1][1] if i else ""
            k = i + 4
            depth = 1
            while depth:
                depth += (toks[k][1] == "(") - (toks[k][1] == ")")
                k += 1
            params = toks[i + 4:k - 1]
            if toks[k][1] == "const":
                k += 1
            if toks[k][1] != "{":
                i = k
                continue
            p = P(toks, f"{what}:{name}")
            p.i = k
            body = p.stmt()
            res.append((name, ret, params, body[1]))
            i = p.i
            continue
        i += 1
    return res


# ------------------------------------------------------------------ code generation

def lean_num(txt):
    m = re.fullmatch(r"(\d*)\.?(\d*)(?:[eE]([+-]?\d+))?", txt)
    if not m:
        broken(f"literal {txt}")
    ip, fp, ex = m.group(1) or "", m.group(2) or "", int(m.group(3) or 0)
    mant = int((ip + fp) or "0")
    e = ex - len(fp)
    while mant and mant % 10 == 0 and e < 0:
        mant //= 10
        e += 1
    if mant == 0:
        return "(0 : K)"
    if e >= 0:
        v = mant * 10 ** e
        return "(1 : K)" if v == 1 else f"(Scalar.ofNat {v} : K)"
    return f"(Scalar.ofSci {mant} true {-e} : K)"


ROLE_OF_MEMBER = {"from": ".frm", "to": ".to", "left": ".left", "right": ".right", "id": ".pt"}
GUARDS = {"free_horizontal_position": ".freeH", "free_height": ".freeU"}
COMP_GUARD = {"N": ".freeN", "E": ".freeE", "U": ".freeU"}
PT_SCALAR = {"X": "X", "Y": "Y", "Z": "Z", "B": "B", "L": "L", "H": "H", "dB": "dB", "dL": "dL", "geoid": "geoid"}
OBS_VALUE = {"obs": "v1", "dx": "v1", "dy": "v2", "dz": "v3", "x": "v1", "y": "v2", "z": "v3"}
OBS_MEMBER = {"from_dh": "fromDh", "to_dh": "toDh", "left_dh": "leftDh", "right_dh": "rightDh"}
MATH1 = {"sin": "SinCos.sin", "cos": "SinCos.cos", "acos": "Trig.acos", "sqrt": "Scalar.sqrt", "abs": "Scalar.abs"}


class Gen:
    """symbolic interpreter of one function body"""

    def __init__(self, fname, mode, obsname=None):
        self.f = fname
        self.mode = mode            # "lin" | "e3fn"
        self.obs = obsname
        self.points = {}            # C++ pointer name -> (lean term : GPt K, role ctor or None)
        self.sc = {}                # C++ double name -> lean ident or None (declared, unassigned)
        self.e3 = {}                # C++ E_3 name -> lean ident or None
        self.r3 = {}                # C++ R_3 name -> lean ident or None
        self.ints = {}              # loop variables
        self.diff = {}              # role term -> (a, b, c) lean idents of the last set_diff_XYZ
        self.lines = []
        self.rows = None            # list of rows; row = list of (guards tuple, [push strings])
        self.rhs = []
        self.rejected = None
        self.n = 0
        self.ret = None
        # push grouping key: the pushes of one source `if` block stay together, two consecutive
        # blocks with the same guards stay two blocks
        self.block_id = 0

    def bad(self, msg):
        broken(f"{self.f}: {msg}")

    def emit(self, s):
        self.lines.append("  " + s)

    def fresh(self, p):
        self.n += 1
        return f"{p}_{self.n}"

    # ---- expressions
    def point(self, e):
        if e[0] == "var" and e[1] in self.points:
            return self.points[e[1]]
        return None

    def is_int(self, e):
        if e[0] == "num":
            return re.fullmatch(r"\d+", e[1]) is not None
        if e[0] == "var":
            return e[1] in self.ints
        if e[0] == "un" and e[1] in "+-":
            return self.is_int(e[2])
        if e[0] == "bin" and e[1] in "+-*/":
            return self.is_int(e[2]) and self.is_int(e[3])
        return False

    def ex(self, e):
        """a C++ double expression as a Lean term of type K"""
        k = e[0]
        if k == "num":
            return lean_num(e[1])
        if k == "var":
            n = e[1]
            if n == "M_PI":
                return "(Trig.pi : K)"
            if n == "tol_abs" and self.mode == "lin":
                return "tolAbs"
            if n in self.sc:
                if self.sc[n] is None:
                    self.bad(f"variable {n} read before assignment")
                return self.sc[n]
            self.bad(f"unknown identifier {n}")
        if k == "un":
            if e[1] == "-":
                return f"(-{self.ex(e[2])})"
            if e[1] == "+":
                return self.ex(e[2])
            self.bad("'!' in arithmetic")
        if k == "bin" and e[1] in "+-*/":
            if self.is_int(e):
                self.bad("integer arithmetic sub-expression (C++ int semantics not modelled)")
            return f"({self.ex(e[2])} {e[1]} {self.ex(e[3])})"
        if k == "call":
            fn = e[1][5:] if e[1].startswith("std::") else e[1]
            if fn in MATH1 and len(e[2]) == 1:
                return f"({MATH1[fn]} {self.ex(e[2][0])})"
            if fn == "atan2" and len(e[2]) == 2:
                return f"(Trig.atan2 {self.ex(e[2][0])} {self.ex(e[2][1])})"
            if fn in ("angle", "GNU_gama::angle") and len(e[2]) == 2:
                return f"(E3.angle {self.e3val(e[2][0])} {self.e3val(e[2][1])})"
            self.bad(f"call of {e[1]}/{len(e[2])}")
        if k == "mem":
            obj, name = e[1], e[2]
            if obj[0] == "var" and obj[1] in self.e3 and name in ("e1", "e2", "e3"):
                return f"{self.e3val(obj)}.{name}"
            if self.obs and obj == ("var", self.obs) and name in OBS_MEMBER:
                return f"o.{OBS_MEMBER[name]}"
            self.bad(f"data member .{name} of {obj}")
        if k == "meth":
            obj, name, args = e[1], e[2], e[3]
            pt = self.point(obj)
            if pt:
                if name in PT_SCALAR and not args:
                    return f"{pt[0]}.{PT_SCALAR[name]}"
                if name in ("X_dh", "Y_dh", "Z_dh") and len(args) == 1:
                    return f"({pt[0]}.{name[0]}dh {self.ex(args[0])})"
                if name == "model_height" and not args:
                    return f"{pt[0]}.modelHeight"
                if name in ("diff_N", "diff_E", "diff_U") and not args:
                    if pt[0] not in self.diff:
                        self.bad(f"{name}() before set_diff_XYZ")
                    a, b, c = self.diff[pt[0]]
                    return f"(Rot.diff{name[-1]} {pt[0]}.R {a} {b} {c})"
                self.bad(f"Point::{name}/{len(args)}")
            # from->X.init_value()
            if obj[0] == "mem" and self.point(obj[1]) and obj[2] in ("X", "Y", "Z") and name == "init_value" and not args:
                return f"{self.point(obj[1])[0]}.{obj[2]}0"
            if self.obs and obj == ("var", self.obs) and name in OBS_VALUE and not args:
                return f"o.{OBS_VALUE[name]}"
            if obj[0] == "call" and not obj[2] and name == "scale" and not args:
                if obj[1] == "Linear":
                    return "(linScale : K)"
                if obj[1] == "Angular":
                    return "(angScale : K)"
            self.bad(f"method {name}() on {obj}")
        self.bad(f"expression form {k}")

    def cond(self, e):
        k = e[0]
        if k == "bin" and e[1] in ("||", "&&"):
            return f"({self.cond(e[2])} {e[1]} {self.cond(e[3])})"
        if k == "un" and e[1] == "!":
            return f"(!{self.cond(e[2])})"
        if k == "bin" and e[1] in ("<", ">", "<=", ">="):
            a, b = self.ex(e[2]), self.ex(e[3])
            return {"<": f"decide ({a} < {b})", ">": f"decide ({b} < {a})",
                    "<=": f"decide ({a} ≤ {b})", ">=": f"decide ({b} ≤ {a})"}[e[1]]
        if k == "var" and e[1] in self.sc:          # `if (ql)` : double as condition
            return f"(!Scalar.beq {self.ex(e)} 0)"
        self.bad(f"condition {e}")

    def guard(self, e):
        """`p->free_horizontal_position()` | `p->free_height()` | `p->N.free()` -> (role, guard)"""
        if e[0] == "meth" and not e[3]:
            pt = self.point(e[1])
            if pt and e[2] in GUARDS:
                if not pt[1]:
                    self.bad("guard on a point that is not a role of the observation")
                return (pt[1], GUARDS[e[2]])
            if e[1][0] == "mem" and self.point(e[1][1]) and e[1][2] in COMP_GUARD and e[2] == "free":
                return (self.point(e[1][1])[1], COMP_GUARD[e[1][2]])
        return None

    def target(self, e):
        """`p->N.index()` -> (role, comp)"""
        if e[0] == "meth" and e[2] == "index" and not e[3] and e[1][0] == "mem" and e[1][2] in ("N", "E", "U"):
            pt = self.point(e[1][1])
            if pt and pt[1]:
                return (pt[1], "." + e[1][2])
        return None

    # ---- E_3 / R_3
    def e3val(self, e):
        if e[0] == "var" and e[1] in self.e3:
            if self.e3[e[1]] is None:
                self.bad(f"E_3 {e[1]} read before assignment")
            return self.e3[e[1]]
        self.bad(f"E_3 value {e}")

    def e3expr(self, e):
        """an expression of type E_3 -> lean term"""
        if e[0] == "var" and e[1] in self.e3:
            return self.e3val(e)
        if e[0] == "call" and e[1] in ("E_3", "GNU_gama::E_3") and len(e[2]) == 3:
            return "(⟨" + ", ".join(self.ex(a) for a in e[2]) + "⟩ : E3 K)"
        if e[0] == "call" and e[1] == "vertical" and len(e[2]) == 1 and self.point(e[2][0]):
            return f"(vertical {self.point(e[2][0])[0]})"
        if e[0] == "call" and e[1] == "instrument" and len(e[2]) == 2 and self.point(e[2][0]):
            return f"(instrument {self.point(e[2][0])[0]} {self.ex(e[2][1])})"
        self.bad(f"E_3 expression {e}")

    def set_e3(self, name, term):
        v = self.fresh("e_" + name)
        self.emit(f"let {v} : E3 K := {term}")
        self.e3[name] = v

    def set_sc(self, name, term):
        v = self.sc.get(name) or self.fresh("v_" + name)
        self.emit(f"let {v} : K := {term}")
        self.sc[name] = v

    # ---- statements
    def run(self, stmts, guards=()):
        for s in stmts:
            self.stmt(s, guards)

    def stmt(self, s, guards):
        k = s[0]
        if self.ret is not None:
            self.bad("statement after return")
        if not guards or (k == "if" and self.guard(s[1])):
            self.block_id += 1
        if k == "block":
            saved = (dict(self.sc), dict(self.e3), dict(self.r3))
            self.run(s[1], guards)
            # names declared inside the block go out of scope; assignments to outer names persist
            for store, old in zip((self.sc, self.e3, self.r3), saved):
                for n in list(store):
                    if n not in old:
                        del store[n]
            return
        if k == "if":
            g = self.guard(s[1])
            if g:
                if self.rows is None or not self.rows:
                    self.bad("guarded block before A->new_row()")
                body = s[2][1] if s[2][0] == "block" else [s[2]]
                for b in body:
                    if not (b[0] == "if" and self.guard(b[1])) and not (b[0] == "expr" and self.is_push(b[1])):
                        self.bad("a guard block contains something else than add_element and nested guards")
                self.run(body, guards + (g,))
                return
            if guards:
                self.bad("value condition inside a guard block")
            # `if (ql) ql = 1.0/ql;`
            body = s[2][1] if s[2][0] == "block" else [s[2]]
            b = self.fresh("b")
            self.emit(f"let {b} : Bool := {self.cond(s[1])}")
            self.cond_assigns(b, body)
            return
        if k == "ifdecl":
            if guards:
                self.bad("declaration condition inside a guard block")
            ty, decls = s[1][1], s[1][2]
            if ty != "double" or len(decls) != 1 or decls[0][2] is None or decls[0][2][0] != "init":
                self.bad("if (declaration) shape")
            name = decls[0][0]
            saved = dict(self.sc)
            self.sc[name] = None
            self.set_sc(name, self.ex(decls[0][2][1]))
            b = self.fresh("b")
            self.emit(f"let {b} : Bool := (!Scalar.beq {self.sc[name]} 0)")
            body = s[2][1] if s[2][0] == "block" else [s[2]]
            self.cond_assigns(b, body)
            inner = self.sc
            self.sc = {n: inner[n] for n in saved}
            return
        if guards and not (k == "expr" and self.is_push(s[1])):
            self.bad(f"statement {k} inside a guard block")
        if k == "decl":
            return self.decl(s)
        if k == "expr":
            return self.expr_stmt(s[1], guards)
        if k == "for":
            _, v, lo, hi, body = s
            for i in range(lo, hi + 1):
                self.ints[v] = i
                self.stmt(body, guards)
            del self.ints[v]
            return
        if k == "switch":
            e = s[1]
            if not (e[0] == "var" and e[1] in self.ints):
                self.bad("switch on something else than the loop variable")
            hit = [body for val, body in s[2] if val == self.ints[e[1]]]
            if len(hit) > 1:
                self.bad("duplicate case")
            if hit:
                self.run(hit[0], guards)
            return
        if k == "reject":
            if self.mode != "lin" or self.rejected is not None:
                self.bad("rejection test")
            body = "".join(s[2])
            obsn = re.escape(self.obs)
            for need in (r"rejected_obs\.push_back\(robs\);", r"reset_parameters\(\);", obsn + r"->set_active\(false\);",
                         r"robs\.observation=" + obsn + ";", r"robs\.criterion=Model::Rejected::rhs;"):
                if not re.search(need, body):
                    self.bad(f"rejection block lacks `{need}`")
            self.rejected = self.cond(s[1])
            return
        if k == "return":
            if self.mode != "e3fn":
                self.bad("return in a linearisation")
            self.ret = self.e3expr(s[1])
            return
        self.bad(f"statement {k}")

    def cond_assigns(self, b, body):
        for st in body:
            if not (st[0] == "expr" and st[1][0] == "assign" and st[1][2][0] == "var" and st[1][2][1] in self.sc
                    and st[1][3][0] != "assign"):
                self.bad("conditional body is not a list of plain double assignments")
            n, op = st[1][2][1], st[1][1]
            if self.sc[n] is None:
                self.bad(f"conditional first assignment of {n}")
            val = self.ex(st[1][3])
            if op != "=":
                val = f"({self.sc[n]} {op[0]} {val})"
            self.emit(f"let {self.sc[n]} : K := if {b} then {val} else {self.sc[n]}")

    def decl(self, s):
        ty, decls = s[1], s[2]
        for name, ref, init in decls:
            if ty == "Point":
                if ref != "*" or not init or init[0] != "init":
                    self.bad(f"Point {name}")
                e = init[1]
                ok = (e[0] == "meth" and e[1] == ("var", "points") and e[2] == "find" and len(e[3]) == 1
                      and e[3][0][0] == "mem" and e[3][0][1] == ("var", self.obs) and e[3][0][2] in ROLE_OF_MEMBER)
                if not ok:
                    self.bad(f"Point* {name} is not points->find(obs->member)")
                role = ROLE_OF_MEMBER[e[3][0][2]]
                self.points[name] = (f"(P {role})", role)
            elif ty == "double":
                if ref:
                    self.bad(f"double{ref} {name}")
                self.sc[name] = None
                if init is not None:
                    if init[0] != "init":
                        self.bad(f"double {name}(…)")
                    if init[1][0] == "assign":
                        self.chain(init[1])
                        self.set_sc(name, self.lhs_value(init[1][2]))
                    else:
                        self.set_sc(name, self.ex(init[1]))
            elif ty == "int":
                self.bad("int local")
            elif ty == "E_3":
                if ref:
                    self.bad(f"E_3{ref} {name}")
                self.e3[name] = None
                if init is None:
                    continue
                if init[0] == "ctor":
                    a = init[1]
                    if len(a) == 3:
                        self.set_e3(name, "⟨" + ", ".join(self.ex(x) for x in a) + "⟩")
                    elif len(a) == 1:
                        self.set_e3(name, self.e3expr(a[0]))
                    else:
                        self.bad(f"E_3 {name}({len(a)} args)")
                else:
                    if init[1][0] == "assign":
                        self.e3_assign(init[1])
                        self.set_e3(name, self.e3val(init[1][2]))
                    else:
                        self.set_e3(name, self.e3expr(init[1]))
            elif ty == "R_3":
                if ref or init is not None:
                    self.bad(f"R_3 {name}")
                self.r3[name] = None
            else:
                self.bad(f"declaration of type {ty}")

    def is_push(self, e):
        return e[0] == "meth" and e[1] == ("var", "A") and e[2] == "add_element"

    def is_rhs_slot(self, e):
        return e == ("call", "rhs", [("preinc", ("var", "rhs_ind"))])

    def lhs_value(self, lhs):
        if self.is_rhs_slot(lhs):
            return self.rhs[-1]
        return self.ex(lhs)

    def chain(self, e):
        """`a = b = … = value` over doubles and rhs(++rhs_ind); C++ evaluates right to left"""
        op, lhs, rhs = e[1], e[2], e[3]
        if rhs[0] == "assign":
            self.chain(rhs)
            val = self.lhs_value(rhs[2])
        else:
            val = self.ex(rhs)
        if self.is_rhs_slot(lhs):
            if op != "=" or self.mode != "lin":
                self.bad("rhs(++rhs_ind) compound assignment")
            v = self.fresh("rhs")
            self.emit(f"let {v} : K := {val}")
            self.rhs.append(v)
            return
        if lhs[0] != "var" or lhs[1] not in self.sc:
            self.bad(f"assignment to {lhs}")
        n = lhs[1]
        if op != "=":
            val = f"({self.ex(lhs)} {op[0]} {val})"
        self.set_sc(n, val)

    def e3_assign(self, e):
        op, lhs, rhs = e[1], e[2], e[3]
        n = lhs[1]
        if rhs[0] == "assign":
            self.e3_assign(rhs)
            val = self.e3val(rhs[2])
        elif op == "*=":
            val = None
        else:
            val = self.e3expr(rhs)
        if op == "=":
            self.set_e3(n, val)
        elif op == "+=":
            self.set_e3(n, f"E3.add {self.e3val(lhs)} {val}")
        elif op == "-=":
            self.set_e3(n, f"E3.sub {self.e3val(lhs)} {val}")
        elif op == "*=":
            self.set_e3(n, f"E3.smul {self.e3val(lhs)} {self.ex(rhs)}")
        else:
            self.bad(f"E_3 operator {op}")

    def expr_stmt(self, e, guards):
        if e[0] == "assign":
            if e[2][0] == "var" and e[2][1] in self.e3:
                return self.e3_assign(e)
            return self.chain(e)
        if e[0] == "meth":
            obj, name, args = e[1], e[2], e[3]
            if obj == ("var", "A") and name == "new_row" and not args:
                if self.mode != "lin":
                    self.bad("new_row outside a linearisation")
                if self.rows is None:
                    self.rows = []
                self.rows.append([])
                return
            if self.is_push(e):
                if len(args) != 2 or not self.rows:
                    self.bad("add_element shape / before new_row")
                tgt = self.target(args[1])
                if not tgt:
                    self.bad(f"add_element index {args[1]}")
                c = self.fresh("c")
                self.emit(f"let {c} : K := {self.ex(args[0])}")
                row = self.rows[-1]
                push = f"⟨{tgt[0]}, {tgt[1]}, {c}⟩"
                if row and row[-1][0] == guards and row[-1][2] == self.block_id:
                    row[-1][1].append(push)
                else:
                    row.append((guards, [push], self.block_id))
                return
            pt = self.point(obj)
            if pt and name == "set_diff_XYZ" and len(args) == 3:
                ids = []
                for a, ax in zip(args, "xyz"):
                    v = self.fresh("d" + ax)
                    self.emit(f"let {v} : K := {self.ex(a)}")
                    ids.append(v)
                self.diff[pt[0]] = tuple(ids)
                return
            if obj[0] == "var" and obj[1] in self.e3:
                if name == "set" and len(args) == 3:
                    return self.set_e3(obj[1], "⟨" + ", ".join(self.ex(x) for x in args) + "⟩")
                if name == "cross" and len(args) == 2:
                    return self.set_e3(obj[1], f"E3.cross {self.e3val(args[0])} {self.e3val(args[1])}")
            if obj[0] == "var" and obj[1] in self.r3:
                if name == "set_rotation" and len(args) == 2:
                    v = self.fresh("r_" + obj[1])
                    self.emit(f"let {v} : Rot K := transformationMatrix {self.ex(args[0])} {self.ex(args[1])}")
                    self.r3[obj[1]] = v
                    return
                if name in ("rotation", "inverse") and len(args) == 2 and args[1][0] == "var" and args[1][1] in self.e3:
                    if self.r3[obj[1]] is None:
                        self.bad(f"R_3 {obj[1]} used before set_rotation")
                    return self.set_e3(args[1][1], f"E3.{name} {self.r3[obj[1]]} {self.e3val(args[0])}")
            self.bad(f"method statement {name}/{len(args)} on {obj}")
        self.bad(f"expression statement {e[0]}")

    def final(self):
        if self.mode == "e3fn":
            if self.ret is None:
                self.bad("no return")
            return self.ret
        if not self.rows:
            self.bad("no A->new_row()")
        if not self.rhs:
            self.bad("no right-hand side")
        if len(self.rhs) != len(self.rows):
            self.bad(f"{len(self.rows)} rows but {len(self.rhs)} right-hand sides")
        rows = []
        for r in self.rows:
            blocks = []
            for guards, pushes, _ in r:
                g = "[" + ", ".join(f"({a}, {b})" for a, b in guards) + "]"
                blocks.append(f"⟨{g}, [" + ", ".join(pushes) + "]⟩")
            rows.append("[" + ",\n      ".join(blocks) + "]")
        rej = self.rejected if self.rejected is not None else "false"
        return ("⟨[" + ",\n     ".join(rows) + "],\n   [" + ", ".join(self.rhs) + "],\n   " + rej + "⟩")


def gen_lin(cls, params, body):
    ptoks = [t for _, t in params]
    if not (len(ptoks) == 3 and ptoks[0] == cls and ptoks[1] == "*"):
        broken(f"linearization({' '.join(ptoks)}): parameter list")
    g = Gen(f"linearization({cls}*)", "lin", ptoks[2])
    g.run(body)
    fin = g.final()
    head = f"def {LEAN_NAME[cls]} {{K : Type}} [Trig K] (P : Pts K) (o : GObs K) (tolAbs : K) : GLin K :="
    return head + "\n" + "\n".join(g.lines) + "\n  " + fin + "\n"


def gen_e3fn(name, params, body):
    g = Gen(name, "e3fn")
    toks = [t for _, t in params]
    sig = []
    parts, cur = [], []
    for t in toks:
        if t == ",":
            parts.append(cur)
            cur = []
        else:
            cur.append(t)
    parts.append(cur)
    for words in parts:
        ty = [w for w in words[:-1] if w != "const"]
        pname = words[-1]
        if ty == ["Point", "*"]:
            g.points[pname] = ("p_" + pname, None)
            sig.append(f"(p_{pname} : GPt K)")
        elif ty == ["double"]:
            g.sc[pname] = "v_" + pname
            sig.append(f"(v_{pname} : K)")
        else:
            broken(f"{name}: parameter {' '.join(words)}")
    g.run(body)
    fin = g.final()
    head = f"def {name} {{K : Type}} [Trig K] {' '.join(sig)} : E3 K :="
    return head + "\n" + "\n".join(g.lines) + "\n  " + fin + "\n"


HEADER = """/-
  GENERATED by tools/gen/c19_linearization.py — do not edit.
  Source: lib/gnu_gama/g3/g3_model_linearization.cpp (`Model::linearization(T*)`, eight types),
          g3_model.cpp (`Model::vertical`, `Model::instrument`), g3_parameter.h (scales), radian.h (macros)
  C++ locals are `v_<name>_<n>` (double), `e_<name>_<n>` (E_3), `r_<name>_<n>` (R_3); the coefficient at
  the point of each `A->add_element` is `c_<n>`; `dx_<n> dy_<n> dz_<n>` are the arguments of
  `set_diff_XYZ`; `rhs_<n>` the values stored by `rhs(++rhs_ind) = …`.
  `P role` is the point `points->find(obs->role)`; `o` the observation's own data.
-/
import Gama.Model.G3Lin
set_option linter.unusedVariables false
namespace Gama.Gen.G3Lin
open Gama Gama.Neu Gama.G3Book Gama.G3Lin

"""

# hand-written primitives: normalised C++ text they were modelled from
PINNED = [
    ("e3.cpp", r"E_3&E_3::operator\+=\(constE_3&v\)\{e1\+=v\.e1;e2\+=v\.e2;e3\+=v\.e3;return\*this;\}", "E_3::operator+="),
    ("e3.cpp", r"E_3&E_3::operator-=\(constE_3&v\)\{e1-=v\.e1;e2-=v\.e2;e3-=v\.e3;return\*this;\}", "E_3::operator-="),
    ("e3.cpp", r"E_3&E_3::operator\*=\(doubled\)\{e1\*=d;e2\*=d;e3\*=d;return\*this;\}", "E_3::operator*="),
    ("e3.cpp", r"voidE_3::set\(doublea,doubleb,doublec\)\{e1=a;e2=b;e3=c;\}", "E_3::set"),
    ("e3.cpp", r"doubleE_3::dot\(constE_3&v\)const\{returne1\*v\.e1\+e2\*v\.e2\+e3\*v\.e3;\}", "E_3::dot"),
    ("e3.cpp", r"voidE_3::cross\(constE_3&a,constE_3&b\)\{set\(\+a\.e2\*b\.e3-b\.e2\*a\.e3,-a\.e1\*b\.e3\+b\.e1\*a\.e3,\+a\.e1\*b\.e2-b\.e1\*a\.e2\);\}", "E_3::cross"),
    ("e3.cpp", r"doubleGNU_gama::angle\(constGNU_gama::E_3&a,constGNU_gama::E_3&b\)\{doublec=a\.dot\(b\);if\(c\)c/=std::sqrt\(a\.dot\(a\)\*b\.dot\(b\)\);returnstd::acos\(c\);\}", "GNU_gama::angle"),
    ("e3.cpp", r"voidR_3::set_rotation\(doubleb,doublel\)\{usingstd::sin;usingstd::cos;r11=-sin\(b\)\*cos\(l\);r12=-sin\(l\);r13=cos\(b\)\*cos\(l\);r21=-sin\(b\)\*sin\(l\);r22=cos\(l\);r23=cos\(b\)\*sin\(l\);r31=cos\(b\);r32=0\.0;r33=sin\(b\);\}", "R_3::set_rotation"),
    ("e3.cpp", r"voidR_3::rotation\(constE_3&c,E_3&x\)const\{x\.e1=r11\*c\.e1\+r12\*c\.e2\+r13\*c\.e3;x\.e2=r21\*c\.e1\+r22\*c\.e2\+r23\*c\.e3;x\.e3=r31\*c\.e1\+r32\*c\.e2\+r33\*c\.e3;\}", "R_3::rotation"),
    ("e3.cpp", r"voidR_3::inverse\(constE_3&c,E_3&x\)const\{x\.e1=r11\*c\.e1\+r21\*c\.e2\+r31\*c\.e3;x\.e2=r12\*c\.e1\+r22\*c\.e2\+r32\*c\.e3;x\.e3=r13\*c\.e1\+r23\*c\.e2\+r33\*c\.e3;\}", "R_3::inverse"),
    ("g3/g3_point.cpp", r"voidPoint::set_diff_XYZ\(doubledx,doubledy,doubledz\)\{dX=dx;dY=dy;dZ=dz;\}", "Point::set_diff_XYZ"),
    ("g3/g3_point.cpp", r"doublePoint::diff_N\(\)const\{returnr11\*dX\+r21\*dY\+r31\*dZ;\}", "Point::diff_N"),
    ("g3/g3_point.cpp", r"doublePoint::diff_E\(\)const\{returnr12\*dX\+r22\*dY\+r32\*dZ;\}", "Point::diff_E"),
    ("g3/g3_point.cpp", r"doublePoint::diff_U\(\)const\{returnr13\*dX\+r23\*dY\+r33\*dZ;\}", "Point::diff_U"),
    ("g3/g3_point.cpp", r"boolPoint::free_horizontal_position\(\)const\{returnN\.free\(\)&&E\.free\(\);\}", "Point::free_horizontal_position"),
    ("g3/g3_point.cpp", r"boolPoint::free_height\(\)const\{returnU\.free\(\);\}", "Point::free_height"),
    ("g3/g3_point.cpp", r"doublePoint::model_height\(\)const\{if\(1\)returnH\(\)-geoid\(\);elsereturnheight\(\);\}", "Point::model_height"),
    ("g3/g3_point.h", r"doubleX_dh\(doubledh\)const\{returnX\(\)\+r13\*dh;\}doubleY_dh\(doubledh\)const\{returnY\(\)\+r23\*dh;\}doubleZ_dh\(doubledh\)const\{returnZ\(\)\+r33\*dh;\}", "Point::X_dh/Y_dh/Z_dh"),
    ("g3/g3_parameter.h", r"doubleoperator\(\)\(\)const\{returnval\+cor;\}doubleinit_value\(\)const\{returnval;\}", "Parameter::operator() / init_value"),
    ("g3/g3_parameter.h", r"std::size_tindex\(\)const\{returnfree\(\)\?ind:0;\}", "Parameter::index"),
    ("g3/g3_parameter.h", r"boolfree\(\)const\{returnstate_&free_;\}", "Parameter::free"),
    ("g3/g3_parameter.h", r"enum\{unused_=0,fixed_=1,free_=2,constr_=4\+free_\}state_;", "Parameter::state_"),
    ("g3/g3_parameter.h", r"classLinear:publicParameter\{public:doublescale\(\)const\{return1e3;\}\};", "Linear::scale"),
    ("g3/g3_parameter.h", r"classAngular:publicParameter\{public:doublescale\(\)const\{returnRAD_TO_CC;\}\};", "Angular::scale"),
]


def translate_text(repo):
    L = Path(repo) / "lib" / "gnu_gama"
    try:
        src = (L / "g3" / "g3_model_linearization.cpp").read_text()
        msrc = (L / "g3" / "g3_model.cpp").read_text()
        rsrc = (L / "radian.h").read_text()
        pinned_src = {f: norm((L / f).read_text()) for f in sorted({p[0] for p in PINNED})}
    except OSError as e:
        broken(f"cannot read sources: {e}")
    for f, pat, what in PINNED:
        if not re.search(pat, pinned_src[f]):
            broken(f"{f}: {what} no longer has the body the hand-written Lean primitive was modelled from")
    macros, pi_txt = read_macros(rsrc)
    out = [HEADER]
    out.append(f"/-- radian.h: `#define M_PI {pi_txt}` (modelled as `Trig.pi`) -/\n"
               f"def M_PI_text : String := \"{pi_txt}\"\n")
    # Angular().scale() = RAD_TO_CC (macro text expanded where it is used: inside Angular::scale)
    g = Gen("Angular::scale", "e3fn")
    p = P(expand([("id", "RAD_TO_CC")], macros) + [("op", ";")], "radian.h:RAD_TO_CC")
    e = p.expr()
    if p.peek() != ";":
        broken("radian.h: RAD_TO_CC expression")
    out.append("/-- `Angular().scale()` : `RAD_TO_CC` = `" + " ".join(t for _, t in macros["RAD_TO_CC"]) + "` -/\n"
               f"def angScale {{K : Type}} [Trig K] : K := {g.ex(e)}\n")

    def prep(text, what):
        return expand(tokenize(strip_comments(re.sub(r"^\s*#.*$", "", text, flags=re.M)), what), macros)

    # g3_model.cpp: vertical, instrument
    mt = prep(msrc, "g3_model.cpp")
    fns = {f[0]: f for f in find_functions(mt, "g3_model.cpp", "Model", ("vertical", "instrument"))}
    for n in ("vertical", "instrument"):
        if n not in fns:
            broken(f"g3_model.cpp: Model::{n} not found")
        out.append(gen_e3fn(n, fns[n][2], fns[n][3]))

    toks = prep(src, "g3_model_linearization.cpp")
    fs = find_functions(toks, "g3_model_linearization.cpp", "Model", ("linearization",))
    seen = {}
    for name, ret, params, body in fs:
        cls = params[0][1] if params else "?"
        if cls in seen:
            broken(f"two definitions of linearization({cls}*)")
        seen[cls] = (params, body)
    if sorted(seen) != sorted(TYPES):
        broken(f"linearization overloads found: {sorted(seen)}")
    for cls in TYPES:
        out.append(gen_lin(cls, *seen[cls]))
    # the visitor table
    visits = re.findall(r"voidvisit\((\w+)\*p\)\{model->linearization\(p\);\}", norm(src))
    if sorted(visits) != sorted(TYPES):
        broken(f"Linearization visitor table {visits}")
    out.append("/-- `Linearization::visit(T* p) { model->linearization(p); }` by class name -/\n"
               "def byName {K : Type} [Trig K] : String → Option (Pts K → GObs K → K → GLin K)\n" +
               "".join(f'  | "{LEAN_NAME[c]}" => some {LEAN_NAME[c]}\n' for c in TYPES) + "  | _ => none\n")
    out.append("end Gama.Gen.G3Lin\n")
    return "\n".join(out)


def translate(repo, lean_dir):
    text = translate_text(repo)
    dst = Path(lean_dir) / "Gama" / "Gen" / "G3Linearization.lean"
    dst.parent.mkdir(parents=True, exist_ok=True)
    if not dst.exists() or dst.read_text() != text:
        dst.write_text(text)
    return dst


if __name__ == "__main__":
    import sys
    print(translate_text(sys.argv[1] if len(sys.argv) > 1 else "/repo"))
