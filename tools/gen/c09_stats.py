"""
C09 translator: the statistic formulas of LocalNetwork / LocalNetworkXML, read from the C++ text of the
current tree, written as Lean definitions over [Scalar K] [StatsTrig K]  ->  lean/Gama/Gen/StatsGen.lean.

What is read (TieBroken if any of it can no longer be found / parsed):
  network.cpp : LocalNetwork::m_0, m_0_aposteriori_value, conf_int_coef, conf_pr(double), std_error_ellipse,
                the two statistic blocks at the end of vyrovnani_ (sigma_L, vahkopr)
  network.h   : unknown_stdev, weight_obs, degrees_of_freedom, stdev_res, studentized_residual, obs_control
  localnetworkxml.cpp : the <cov-mat> entry  m2 = m_0()*m_0();  m2*qxx(..), <aposteriori>, <ratio>, <err-obs>/<err-adj>,
                <confidence-scale>
  results/text/adjusted_unknowns.h, adjusted_observations.h : every use of `kki = IS->conf_int_coef()` (the
                confidence half-widths `stdev*kki`) and the accessor each multiplied variable was read from
  network.h   : stdev_obs, wcoef_res are plain reads of sigma_L, vahkopr

How: member accesses/calls that denote *inputs* of a formula are replaced by parameter names (table ATOMS);
the remaining text is a tiny imperative language (declarations, assignments, +=, if / else, return, throw,
?:, arithmetic, comparisons) which is parsed and emitted as let/if chains.  Integer-typed names are kept as
Int and converted with Scalar.ofInt where they meet a double, as C++ does.
"""
import re
from pathlib import Path


class Unreadable(Exception):
    pass


# ---------------------------------------------------------------- locating code

def function_body(text, header_re):
    m = re.search(header_re, text)
    if not m:
        raise Unreadable("cannot find " + header_re)
    i = text.index("{", m.end() - 1)
    depth, j = 0, i
    while j < len(text):
        if text[j] == "{":
            depth += 1
        elif text[j] == "}":
            depth -= 1
            if depth == 0:
                return text[i + 1:j]
        j += 1
    raise Unreadable("unbalanced braces after " + header_re)


def strip_comments(s):
    s = re.sub(r"/\*.*?\*/", " ", s, flags=re.S)
    return re.sub(r"//[^\n]*", "", s)


ATOMS = [  # (regex on C++ text, replacement identifier)
    (r"least_squares->q_xx\(\s*i\s*,\s*i\s*\)", "qxx"),
    (r"least_squares->q_bb\(\s*(\w)\s*,\s*\1\s*\)", "qbb"),
    (r"revised_obs_\[i-1\]->stdDev\(\)", "stdev"),
    (r"\(\*i\)->stdDev\(\)", "stdev"),
    (r"least_squares->defect\(\)", "defect"),
    (r"A\.rows\(\)", "rows"),
    (r"A\.cols\(\)", "cols"),
    (r"m_0_apriori\(\)", "IS_APRIORI"),
    (r"m_0_aposteriori\(\)", "IS_APOSTERIORI"),
    (r"\bm_0\(\)", "m0"),
    (r"\bm_0_apr_\b", "sigmaApr"),
    (r"\bwcoef_res\(i\)", "qvv"),
    (r"\bstdev_res\(i\)", "sres"),
    (r"\bresiduals\(\)\(i\)", "r"),
    (r"\bweight_obs\(i\)", "w"),
    (r"\btrans_VWV\(\)", "phi"),
    (r"\bdegrees_of_freedom\(\)", "dof"),
    (r"\bkonf_pr_\b", "confPr"),
    (r"GNU_gama::Normal\b", "normal"),
    (r"GNU_gama::Student\b", "student"),
    (r"GNU_gama::local::Exception\(\s*(\w+)\s*\)", r"\1"),
]


def atoms(s):
    for rx, rep in ATOMS:
        s = re.sub(rx, rep, s)
    return s


# ---------------------------------------------------------------- parsing

TOK = re.compile(r"\s*(?:(\d+\.\d*(?:[eE][-+]?\d+)?|\d+(?:[eE][-+]?\d+)?)|([A-Za-z_]\w*)|(<=|>=|==|!=|\|\||&&|\+=|[-+*/()<>=?:;{},!]))")


def tokenize(s):
    out, i = [], 0
    s = s.strip()
    while i < len(s):
        m = TOK.match(s, i)
        if not m or m.end() == i:
            raise Unreadable("cannot tokenize: " + s[i:i + 40])
        if m.group(1):
            out.append(("num", m.group(1)))
        elif m.group(2):
            out.append(("id", m.group(2)))
        else:
            out.append(("op", m.group(3)))
        i = m.end()
        while i < len(s) and s[i].isspace():
            i += 1
    return out


class P:
    def __init__(self, toks):
        self.t, self.i = toks, 0

    def peek(self, k=0):
        return self.t[self.i + k] if self.i + k < len(self.t) else ("eof", "")

    def eat(self, val=None):
        tok = self.peek()
        if val is not None and tok[1] != val:
            raise Unreadable(f"expected {val!r}, found {tok[1]!r}")
        self.i += 1
        return tok

    # expressions --------------------------------------------------
    def expr(self):
        c = self.lor()
        if self.peek()[1] == "?":
            self.eat()
            a = self.expr()
            self.eat(":")
            b = self.expr()
            return ("tern", c, a, b)
        return c

    def lor(self):
        a = self.land()
        while self.peek()[1] == "||":
            self.eat()
            a = ("or", a, self.land())
        return a

    def land(self):
        a = self.cmp()
        while self.peek()[1] == "&&":
            self.eat()
            a = ("and", a, self.cmp())
        return a

    def cmp(self):
        a = self.add()
        if self.peek()[1] in ("<", ">", "<=", ">=", "==", "!="):
            op = self.eat()[1]
            return ("cmp", op, a, self.add())
        return a

    def add(self):
        a = self.mul()
        while self.peek()[1] in ("+", "-"):
            op = self.eat()[1]
            a = ("bin", op, a, self.mul())
        return a

    def mul(self):
        a = self.unary()
        while self.peek()[1] in ("*", "/"):
            op = self.eat()[1]
            a = ("bin", op, a, self.unary())
        return a

    def unary(self):
        if self.peek()[1] == "-":
            self.eat()
            return ("neg", self.unary())
        return self.primary()

    def primary(self):
        k, v = self.peek()
        if k == "num":
            self.eat()
            return ("num", v)
        if k == "id":
            self.eat()
            if self.peek()[1] == "(":
                self.eat()
                args = []
                if self.peek()[1] != ")":
                    args.append(self.expr())
                    while self.peek()[1] == ",":
                        self.eat()
                        args.append(self.expr())
                self.eat(")")
                return ("call", v, args)
            return ("id", v)
        if v == "(":
            self.eat()
            e = self.expr()
            self.eat(")")
            return ("par", e)
        raise Unreadable(f"unexpected token {v!r}")

    # statements ---------------------------------------------------
    def stmts(self, until=None):
        out = []
        while self.peek()[0] != "eof" and self.peek()[1] != until:
            s = self.stmt()
            if s is not None:
                out.append(s)
        return out

    def stmt(self):
        k, v = self.peek()
        if v == "{":
            self.eat()
            b = self.stmts("}")
            self.eat("}")
            return ("block", b)
        if v == ";":
            self.eat()
            return None
        if v == "using":
            while self.eat()[1] != ";":
                pass
            return None
        if v == "if":
            self.eat()
            self.eat("(")
            c = self.expr()
            self.eat(")")
            a = self.stmt()
            b = None
            if self.peek()[1] == "else":
                self.eat()
                b = self.stmt()
            return ("if", c, a, b)
        if v == "return":
            self.eat()
            e = None
            if self.peek()[1] != ";":
                e = self.expr()
            self.eat(";")
            return ("return", e)
        if v == "throw":
            self.eat()
            e = self.expr()
            self.eat(";")
            return ("throw", e)
        if v in ("const", "double", "int"):
            if v == "const":
                self.eat()
            ty = self.eat()[1]
            name = self.eat()[1]
            self.eat("=")
            e = self.expr()
            self.eat(";")
            return ("decl", ty, name, e)
        if k == "id" and self.peek(1)[1] in ("=", "+="):
            name = self.eat()[1]
            op = self.eat()[1]
            e = self.expr()
            self.eat(";")
            return ("assign", name, op, e)
        if k == "id" and self.peek(1)[1] == "(":      # a call statement such as vyrovnani_();
            e = self.expr()
            self.eat(";")
            return ("callstmt", e)
        raise Unreadable(f"unsupported statement at {v!r}")


def parse_stmts(src):
    p = P(tokenize(atoms(strip_comments(src))))
    s = p.stmts()
    if p.peek()[0] != "eof":
        raise Unreadable("trailing tokens")
    return s


def parse_expr(src):
    p = P(tokenize(atoms(strip_comments(src))))
    e = p.expr()
    if p.peek()[0] != "eof":
        raise Unreadable("trailing tokens in expression: " + src)
    return e


# ---------------------------------------------------------------- emitting Lean

FUN = {"sqrt": "Scalar.sqrt", "fabs": "Scalar.abs", "atan2": "StatsTrig.atan2"}
IGNORED_CALLS = {"vyrovnani_"}


class Emit:
    def __init__(self, env, outs=None, wrap_except=False):
        self.env = dict(env)          # name -> "K" | "Int" | "fun"
        self.outs = outs
        self.wrap = wrap_except

    def lit(self, v):
        m = re.fullmatch(r"(\d+)(?:\.(\d*))?(?:[eE]([-+]?\d+))?", v)
        if not m:
            raise Unreadable("numeric literal " + v)
        ip, fp, ex = m.group(1), m.group(2) or "", int(m.group(3) or 0)
        if ex == 0 and int(fp or "0") == 0:
            n = int(ip)
            return "0" if n == 0 else "1" if n == 1 else f"Scalar.ofNat {n}"
        mant, e10 = int(ip + fp), ex - len(fp)              # value = mant * 10^e10
        if e10 >= 0:
            return f"Scalar.ofSci {mant} false {e10}"
        return f"Scalar.ofSci {mant} true {-e10}"

    def ty(self, e):
        k = e[0]
        if k == "num":
            return "lit" if re.fullmatch(r"\d+", e[1]) else "K"
        if k == "id":
            if e[1] == "M_PI":
                return "K"
            if e[1] not in self.env:
                raise Unreadable("unknown identifier " + e[1])
            return self.env[e[1]]
        if k == "par":
            return self.ty(e[1])
        if k == "neg":
            return self.ty(e[1])
        if k == "bin":
            a, b = self.ty(e[2]), self.ty(e[3])
            if "K" in (a, b):
                return "K"
            if "Int" in (a, b):
                return "Int"
            return "lit"
        if k == "call":
            return "K"
        if k == "tern":
            a, b = self.ty(e[2]), self.ty(e[3])
            return "K" if "K" in (a, b) else ("Int" if "Int" in (a, b) else "lit")
        raise Unreadable("type of " + k)

    def ex(self, e, want):
        """Lean text of expression e in context `want` ('K' or 'Int'); atomic results are unparenthesised"""
        k = e[0]
        if k == "num":
            if want == "Int":
                return e[1]
            return self.lit(e[1])
        if k == "id":
            if e[1] == "M_PI":
                return "StatsTrig.pi"
            t = self.ty(e)
            if want == "K" and t == "Int":
                return f"Scalar.ofInt {e[1]}"
            return e[1]
        if k == "par":
            return self.ex(e[1], want)
        if k == "neg":
            return "-" + self.atom(e[1], want)
        if k == "bin":
            t = self.ty(e)
            if want == "K" and t == "Int":
                return f"Scalar.ofInt ({self.ex(e, 'Int')})"
            ctx = "Int" if (want == "Int" or t == "Int") and t != "K" else want
            return f"{self.opnd(e[2], ctx, e[1], left=True)} {e[1]} {self.opnd(e[3], ctx, e[1], left=False)}"
        if k == "call":
            f = e[1]
            if f in FUN:
                return FUN[f] + "".join(" " + self.atom(a, "K") for a in e[2])
            if self.env.get(f) == "fun":
                return f + "".join(" " + self.atom(a, "Int" if self.ty(a) == "Int" else "K") for a in e[2])
            raise Unreadable("unknown function " + f)
        if k == "tern":
            return f"if {self.cond(e[1])} then {self.ex(e[2], want)} else {self.ex(e[3], want)}"
        raise Unreadable("expression kind " + k)

    PREC = {"+": 1, "-": 1, "*": 2, "/": 2}

    def opnd(self, e, want, op, left):
        s = self.ex(e, want)
        inner = e
        while inner[0] == "par":
            inner = inner[1]
        if inner[0] == "bin":
            pi, po = self.PREC[inner[1]], self.PREC[op]
            if pi < po or (pi == po and not left) or (want == "K" and self.ty(inner) == "Int"):
                if not s.startswith("Scalar.ofInt ("):
                    return f"({s})"
                return f"({s})"
            return s
        if inner[0] in ("tern",):
            return f"({s})"
        if inner[0] == "neg" or (inner[0] == "call") or s.startswith("Scalar."):
            return f"({s})" if (" " in s and inner[0] != "call") or inner[0] == "neg" else s
        return s

    def atom(self, e, want):
        s = self.ex(e, want)
        return s if re.fullmatch(r"[\w.]+", s) else f"({s})"

    def cond(self, e, boolean=False):
        k = e[0]
        if k == "par":
            return self.cond(e[1], boolean)
        if k == "id" and e[1] in ("IS_APRIORI", "IS_APOSTERIORI"):
            c = "act = .apriori" if e[1] == "IS_APRIORI" else "act = .aposteriori"
            return f"decide ({c})" if boolean else c
        if k == "or":
            return f"{self.cond(e[1], True)} || {self.cond(e[2], True)}"
        if k == "and":
            return f"{self.cond(e[1], True)} && {self.cond(e[2], True)}"
        if k == "cmp":
            op, a, b = e[1], e[2], e[3]
            ta, tb = self.ty(a), self.ty(b)
            if "K" not in (ta, tb) and "Int" in (ta, tb):
                c = f"{self.ex(a, 'Int')} {op} {self.ex(b, 'Int')}".replace("==", "=")
            else:
                x, y = self.ex(a, "K"), self.ex(b, "K")
                if op == "==":
                    return f"Scalar.beq {self.atom(a, 'K')} {self.atom(b, 'K')}"
                c = {"<": f"{x} < {y}", ">": f"{y} < {x}", "<=": f"{x} ≤ {y}", ">=": f"{y} ≤ {x}"}.get(op)
                if c is None:
                    raise Unreadable("comparison " + op)
            return f"decide ({c})" if boolean else c
        raise Unreadable("condition kind " + k)

    # statements ------------------------------------------------------
    @staticmethod
    def returns(s):
        if s is None:
            return False
        k = s[0]
        if k in ("return", "throw"):
            return True
        if k == "block":
            return bool(s[1]) and Emit.returns(s[1][-1])
        if k == "if":
            return s[3] is not None and Emit.returns(s[2]) and Emit.returns(s[3])
        return False

    def ret(self, e, ind):
        if e is None:
            if not self.outs:
                raise Unreadable("bare return in a value function")
            return ind + "(" + ", ".join(self.outs) + ")"
        v = self.ex(e, self.rty)
        return ind + (f".ok ({v})" if self.wrap else v)

    def body(self, stmts, ind):
        """Lean lines for a statement list that ends in a return on every path (or falls off the end of
        an out-parameter function)"""
        if not stmts:
            return self.ret(None, ind)
        s, rest = stmts[0], stmts[1:]
        k = s[0]
        if k == "block":
            return self.body(list(s[1]) + list(rest), ind)
        if k == "callstmt":
            if s[1][0] == "call" and s[1][1] in IGNORED_CALLS:
                return self.body(rest, ind)
            raise Unreadable("call statement " + str(s[1][1]))
        if k == "decl":
            t = "Int" if s[1] == "int" else "K"
            v = self.ex(s[3], t)
            self.env[s[2]] = t
            return f"{ind}let {s[2]} := {v}\n" + self.body(rest, ind)
        if k == "assign":
            name, op, e = s[1], s[2], s[3]
            if name not in self.env:
                raise Unreadable("assignment to unknown " + name)
            v = self.ex(e, self.env[name])
            if op == "+=":
                v = f"{name} + {v}"
            return f"{ind}let {name} := {v}\n" + self.body(rest, ind)
        if k == "return":
            return self.ret(s[1], ind)
        if k == "throw":
            if not self.wrap:
                raise Unreadable("throw in a function translated without Except")
            if s[1][0] != "id":
                raise Unreadable("throw of a non-identifier")
            return f'{ind}.error "{s[1][1]}"'
        if k == "if":
            c, a, b = s[1], s[2], s[3]
            if b is not None and self.returns(a) and self.returns(b):
                saved = dict(self.env)
                ta = self.body([a], ind + "  ")
                self.env = dict(saved)
                tb = self.body([b], ind + "  ")
                self.env = saved
                return f"{ind}if {self.cond(c)} then\n{ta}\n{ind}else\n{tb}"
            if b is None and self.returns(a):
                saved = dict(self.env)
                ta = self.body([a], ind + "  ")
                self.env = saved
                return f"{ind}if {self.cond(c)} then\n{ta}\n{ind}else\n" + self.body(rest, ind + "  ")
            inner = a
            while inner is not None and inner[0] == "block" and len(inner[1]) == 1:
                inner = inner[1][0]
            if b is None and inner is not None and inner[0] == "assign":
                name, op, e = inner[1], inner[2], inner[3]
                v = self.ex(e, self.env[name])
                if op == "+=":
                    v = f"{name} + {v}"
                return f"{ind}let {name} := if {self.cond(c)} then {v} else {name}\n" + self.body(rest, ind)
            raise Unreadable("unsupported if shape")
        raise Unreadable("statement kind " + k)

    def function(self, stmts, rty="K"):
        self.rty = rty
        return self.body(stmts, "  ")


K_PARAMS = "{K : Type} [Scalar K]"


def gen(repo):
    repo = Path(repo)
    ncpp = (repo / "lib/gnu_gama/local/network.cpp").read_text(errors="replace")
    nh = (repo / "lib/gnu_gama/local/network.h").read_text(errors="replace")
    xcpp = (repo / "lib/gnu_gama/xml/localnetworkxml.cpp").read_text(errors="replace")
    out = []

    def emit(name, params, rtype, body, doc, trig=False):
        kp = (K_PARAMS + (" [StatsTrig K]" if trig else "") + " ") if "K" in (params + rtype).replace("Int", "") else ""
        out.append(f"/-- {doc} -/\ndef {name} {kp}{params} : {rtype} :=\n{body}\n")

    # ---- header one-liners
    b = function_body(nh, r"int\s+degrees_of_freedom\s*\(\s*\)\s*\{")
    emit("degreesOfFreedom", "(rows cols defect : Int)", "Int",
         Emit({"rows": "Int", "cols": "Int", "defect": "Int"}).function(parse_stmts(b), "Int"),
         "network.h LocalNetwork::degrees_of_freedom")
    b = function_body(nh, r"double\s+unknown_stdev\s*\(int i\)\s*\{")
    emit("unknownStdev", "(m0 qxx : K)", "K", Emit({"m0": "K", "qxx": "K"}).function(parse_stmts(b)),
         "network.h LocalNetwork::unknown_stdev")
    b = function_body(nh, r"double\s+weight_obs\s*\(int i\)\s*\{")
    emit("weightObs", "(sigmaApr stdev : K)", "K", Emit({"sigmaApr": "K", "stdev": "K"}).function(parse_stmts(b)),
         "network.h LocalNetwork::weight_obs")
    b = function_body(nh, r"double\s+stdev_res\s*\(int i\)\s*\{")
    emit("stdevRes", "(m0 qvv : K)", "K", Emit({"m0": "K", "qvv": "K"}).function(parse_stmts(b)),
         "network.h LocalNetwork::stdev_res")
    b = function_body(nh, r"double\s+studentized_residual\s*\(int i\)\s*\{")
    emit("studentizedResidual", "(sres r : K)", "K", Emit({"sres": "K", "r": "K"}).function(parse_stmts(b)),
         "network.h LocalNetwork::studentized_residual")
    b = function_body(nh, r"double\s+obs_control\s*\(int i\)\s*\{")
    emit("obsControl", "(qbb : K)", "K", Emit({"qbb": "K"}).function(parse_stmts(b)),
         "network.h LocalNetwork::obs_control")

    # ---- network.cpp
    b = function_body(ncpp, r"double\s+LocalNetwork::m_0_aposteriori_value\s*\(\s*\)\s*\{")
    emit("m0Aposteriori", "(phi : K) (dof : Int)", "K",
         Emit({"phi": "K", "dof": "Int"}).function(parse_stmts(b)),
         "network.cpp LocalNetwork::m_0_aposteriori_value")
    b = function_body(ncpp, r"double\s+LocalNetwork::m_0\s*\(\s*\)\s*\{")
    emit("m0", "(act : Stats.SigmaAct) (sigmaApr phi : K) (dof : Int)", "Except String K",
         Emit({"sigmaApr": "K", "phi": "K", "dof": "Int"}, wrap_except=True).function(parse_stmts(b)),
         "network.cpp LocalNetwork::m_0 (`.error` = the throw of the unreachable third branch)")
    b = function_body(ncpp, r"double\s+LocalNetwork::conf_int_coef\s*\(\s*\)\s*\{")
    emit("confIntCoef", "(normal : K → K) (student : K → Int → K) (act : Stats.SigmaAct) (confPr : K) (dof : Int)",
         "Except String K",
         Emit({"confPr": "K", "dof": "Int", "normal": "fun", "student": "fun"}, wrap_except=True).function(parse_stmts(b)),
         "network.cpp LocalNetwork::conf_int_coef")
    b = function_body(ncpp, r"void\s+LocalNetwork::conf_pr\s*\(double p\)\s*\{")
    st = parse_stmts(b)
    if not (len(st) == 2 and st[0][0] == "if" and st[0][2][0] == "throw" and st[0][3] is None
            and st[1] == ("assign", "confPr", "=", ("id", "p"))):
        raise Unreadable("conf_pr(double): shape changed")
    emit("confPrAccepted", "(p : K)", "Bool", "  !(" + Emit({"p": "K"}).cond(st[0][1], True) + ")",
         "network.cpp LocalNetwork::conf_pr(double): the value is stored iff the guard does not throw")

    b = strip_comments(function_body(ncpp, r"void\s+LocalNetwork::std_error_ellipse\s*\("))
    m = re.search(r"double\s+cyy\s*=\s*least_squares->q_xx\(iy,iy\);\s*"
                  r"double\s+cyx\s*=\s*least_squares->q_xx\(iy,ix\);\s*"
                  r"double\s+cxx\s*=\s*least_squares->q_xx\(ix,ix\);", b)
    if not m or not re.search(r"int\s+iy\s*=\s*bod\.index_y\(\);\s*int\s+ix\s*=\s*bod\.index_x\(\);", b):
        raise Unreadable("std_error_ellipse: the three q_xx reads changed")
    emit("stdErrorEllipse", "(cyy cyx cxx m0 : K)", "K × K × K",
         Emit({"cyy": "K", "cyx": "K", "cxx": "K", "m0": "K", "a": "K", "b": "K", "alfa": "K"},
              outs=["a", "b", "alfa"]).function(parse_stmts(b[m.end():])),
         "network.cpp LocalNetwork::std_error_ellipse after `cyy=q_xx(iy,iy); cyx=q_xx(iy,ix); cxx=q_xx(ix,ix)`; "
         "result (a, b, alfa)", trig=True)

    v = strip_comments(function_body(ncpp, r"void\s+LocalNetwork::vyrovnani_\s*\(\s*\)\s*(?:try\s*)?\{"))
    m1 = re.search(r"double\s+MM\s*=\s*([^;]+);", v)
    m2 = re.search(r"sigma_L\(n\)\s*=\s*([^;]+);", v)
    if not m1 or not m2:
        raise Unreadable("vyrovnani_: sigma_L block changed")
    em = Emit({"m0": "K", "sigmaApr": "K", "qbb": "K", "stdev": "K"})
    emit("sigmaL", "(m0 sigmaApr qbb stdev : K)", "K",
         em.function([("decl", "double", "MM", parse_expr(m1.group(1))), ("return", parse_expr(m2.group(1)))]),
         "network.cpp vyrovnani_: `MM = ...; sigma_L(n) = ...`")
    m1 = re.search(r"double\s+qv\s*=\s*([^;]+);", v)
    m2 = re.search(r"vahkopr\(i\)\s*=\s*([^;]+);", v)
    if not m1 or not m2:
        raise Unreadable("vyrovnani_: vahkopr block changed")
    em = Emit({"qbb": "K", "w": "K"})
    emit("wcoefRes", "(qbb w : K)", "K",
         em.function([("decl", "double", "qv", parse_expr(m1.group(1))), ("return", parse_expr(m2.group(1)))]),
         "network.cpp vyrovnani_: `qv = ...; vahkopr(i) = ...`")

    # ---- XML writer
    x = strip_comments(xcpp)
    m1 = re.search(r"const\s+double\s+m2\s*=\s*([^;]+);", x)
    m2 = re.search(r'"<flt>"\s*<<\s*(m2\s*\*\s*netinfo->qxx\(ind\[i\],\s*ind\[j\]\))\s*<<', x)
    if not m1 or not m2:
        raise Unreadable("localnetworkxml.cpp: <cov-mat> entry changed")
    e1 = m1.group(1).replace("netinfo->m_0()", "m0")
    e2 = re.sub(r"netinfo->qxx\(ind\[i\],\s*ind\[j\]\)", "q", m2.group(1))
    em = Emit({"m0": "K", "q": "K"})
    emit("covEntry", "(m0 q : K)", "K",
         em.function([("decl", "double", "m2", parse_expr(e1)), ("return", parse_expr(e2))]),
         "localnetworkxml.cpp <cov-mat>: `m2 = m_0()*m_0(); m2*qxx(i,j)`")

    # ---- XML writer, <standard-deviation>: <aposteriori> repeats the formula, <ratio> is guarded by `dof != 0`
    m1 = re.search(r'tagnl\(out,\s*"aposteriori",\s*\((.*?)\)\);\s*tagnl\(out,\s*"used"', x, re.S)
    if not m1:
        raise Unreadable("localnetworkxml.cpp: <aposteriori> changed")
    e1 = m1.group(1).replace("netinfo->", "")
    emit("xmlAposteriori", "(phi : K) (dof : Int)", "K",
         Emit({"phi": "K", "dof": "Int"}).function([("return", parse_expr(e1))]),
         "localnetworkxml.cpp std_dev_summary: the value printed as <aposteriori>")
    m1 = re.search(r'if\s*\(\s*const\s+int\s+dof\s*=\s*netinfo->degrees_of_freedom\(\)\s*\)\s*\{\s*'
                   r'double\s+test\s*=\s*([^;]+);(.*?)\}\s*else\s*\{(.*?)\}', x, re.S)
    if (not m1 or not re.search(r'tagnl\(out,\s*"ratio",\s*test\)', m1.group(2))
            or not re.search(r'tagnl\(out,\s*"ratio",\s*0\)', m1.group(3))
            or re.search(r'\btest\s*[-+*/]?=[^=]', m1.group(2))):
        raise Unreadable("localnetworkxml.cpp: <ratio> changed")
    e1 = m1.group(1).replace("netinfo->m_0_aposteriori_value()", "M0APOST").replace("netinfo->apriori_m_0()", "sigmaApr")
    body = Emit({"M0APOST": "K", "sigmaApr": "K"}).function([("return", parse_expr(e1))])
    body = body.strip().replace("M0APOST", "m0Aposteriori phi dof")
    emit("xmlRatio", "(phi sigmaApr : K) (dof : Int)", "K", f"  if dof ≠ 0 then {body} else 0",
         "localnetworkxml.cpp std_dev_summary: `if (const int dof = degrees_of_freedom()) { test = ...; <ratio>test } "
         "else <ratio>0`")
    # ---- XML writer, observations: <err-obs>, <err-adj> (before the unit scale `sc`)
    m1 = re.search(r'double\s+em\s*=\s*([^;]+);\s*out\s*<<\s*"\\n\s*<err-obs>"\s*<<\s*em\*sc\s*<<\s*"</err-obs>";\s*'
                   r'double\s+ev\s*=\s*([^;]+);\s*out\s*<<\s*"\s*<err-adj>"\s*<<\s*ev\*sc\s*<<', x)
    if not m1:
        raise Unreadable("localnetworkxml.cpp: <err-obs>/<err-adj> changed")
    sub = lambda t: re.sub(r"\bv\(i\)", "v", t.replace("netinfo->wcoef_res(i)", "qvv").replace("netinfo->weight_obs(i)", "w"))
    em = Emit({"v": "K", "qvv": "K", "w": "K"}, outs=["em", "ev"])
    emit("errObsAdj", "(v qvv w : K)", "K × K",
         em.function([("decl", "double", "em", parse_expr(sub(m1.group(1)))),
                      ("decl", "double", "ev", parse_expr(sub(m1.group(2)))), ("return", None)]),
         "localnetworkxml.cpp observations: `em = v(i)/(wcoef_res(i)*weight_obs(i)); ev = em - v(i)` (<err-obs>, <err-adj>)")


    # ---- confidence half-widths: the text writers print `<stdev>*kki` with `kki = IS->conf_int_coef()`;
    #      the XML writer prints the coefficient itself as <confidence-scale>
    sites = []
    product = None
    tdir = repo / "lib/gnu_gama/local/results/text"
    for fname in ("adjusted_unknowns.h", "adjusted_observations.h"):
        t = strip_comments((tdir / fname).read_text(errors="replace"))
        decls = re.findall(r"\bdouble\s+kki\s*=\s*([^;]+);", t)
        if decls != ["IS->conf_int_coef()"] or re.search(r"\bkki\s*(?:[-+*/]?=)[^=]", re.sub(r"\bdouble\s+kki\s*=", "", t)):
            raise Unreadable(fname + ": `double kki = IS->conf_int_coef();` changed")
        body = re.sub(r"\bdouble\s+kki\s*=\s*[^;]+;", "", t)
        for mk in re.finditer(r"\bkki\b", body):
            st0 = body.rfind(";", 0, mk.start()) + 1
            st1 = body.index(";", mk.end())
            stmt = " ".join(body[st0:st1].split())
            mm = re.fullmatch(r"out\s*<<\s*((\w+)\s*\*\s*kki)", stmt)
            if not mm:
                raise Unreadable(fname + ": use of kki that is not `out << <stdev>*kki`: " + stmt)
            var = mm.group(2)
            # the nearest preceding definition of the multiplied variable, and what rescales it afterwards
            defs = [d for d in re.finditer(r"\bdouble\s+" + var + r"\s*=\s*([^;]+);", body) if d.start() < mk.start()]
            if not defs:
                raise Unreadable(fname + ": no definition of " + var)
            d = defs[-1]
            dm = re.fullmatch(r"IS->(\w+)\(([^()]*(?:\(\))?)\)(\s*\*\s*scale)?", " ".join(d.group(1).split()))
            if not dm:
                raise Unreadable(fname + ": " + var + " is not a standard-deviation accessor: " + d.group(1))
            between = body[d.end():mk.start()]
            others = [a for a in re.findall(r"\b" + var + r"\s*([-+*/]?=)\s*([^;]+);", between)]
            if any(o != ("*=", "scale") for o in others):
                raise Unreadable(fname + ": " + var + " is modified before it is printed: " + str(others))
            unit = bool(dm.group(3)) or bool(others)
            e = parse_expr(mm.group(1).replace(var, "stdev"))
            if product is None:
                product = e
            elif product != e:
                raise Unreadable(fname + ": half-width products differ")
            sites.append((fname, var, dm.group(1), unit))
    if not sites:
        raise Unreadable("no confidence half-width site found")
    emit("confHalfWidth", "(stdev kki : K)", "K",
         Emit({"stdev": "K", "kki": "K"}).function([("return", product)]),
         "results/text/adjusted_unknowns.h, adjusted_observations.h: `out << m*kki` with `double kki = IS->conf_int_coef()` "
         "(the only uses of kki in these writers)")
    rows = ",\n".join(f'   ("{f}", "{v}", "{a}", {"true" if u else "false"})' for f, v, a, u in sites)
    out.append("/-- every site that prints a confidence half-width: (file, multiplied variable, the LocalNetwork accessor "
               "it was read from, rescaled to the angular output unit before printing) -/\n"
               f"def halfWidthSites : List (String × String × String × Bool) :=\n  [{rows.strip()}]\n")
    if not re.search(r'tagnl\(out,\s*"confidence-scale",\s*netinfo->conf_int_coef\(\)\)', x):
        raise Unreadable("localnetworkxml.cpp: <confidence-scale> changed")
    # ---- accessors that only read a stored vector
    reads = []
    for acc, vec in (("stdev_obs", "sigma_L"), ("wcoef_res", "vahkopr")):
        b = " ".join(strip_comments(function_body(nh, r"double\s+" + acc + r"\s*\(int i\)\s*\{")).split())
        mr = re.fullmatch(r"return (\w+)\(i\);", b)
        if not mr:
            raise Unreadable("network.h " + acc + ": no longer a plain read")
        reads.append((acc, mr.group(1)))
    out.append("/-- network.h: accessors that return the element of a vector filled by vyrovnani_ "
               "(`sigma_L(n) = ...` is `sigmaL`, `vahkopr(i) = ...` is `wcoefRes`) -/\n"
               "def accessorReads : List (String × String) :=\n  ["
               + ", ".join(f'("{a}", "{v}")' for a, v in reads) + "]\n")

    head = ("/-\n  GENERATED by tools/gen/c09_stats.py from lib/gnu_gama/local/network.{h,cpp} and\n"
            "  lib/gnu_gama/xml/localnetworkxml.cpp, lib/gnu_gama/local/results/text/adjusted_{unknowns,observations}.h\n"
            "  of the current tree.  DO NOT EDIT.\n"
            "  Props/C09.lean proves that every definition here equals the reference model in\n"
            "  Gama/Model/Stats.lean, about which the property theorems are stated.\n-/\n"
            "import Gama.Model.Stats\nnamespace Gama.StatsGen\nopen Gama\n\n")
    return head + "\n".join(out) + "\nend Gama.StatsGen\n"



# ======================================================================================================
# round 9: the statistic sites of the XML writer, with their operands resolved to LocalNetwork accessors
# ======================================================================================================
# `Gen/XmlSites.lean` (tools/gen/c12_sites.py, C12) lists every operand `LocalNetworkXML` streams as TEXT
# (`ml`, `qrr`, `f`, `no`, `em*sc`, `test`, `major`, ...).  Here the local variables of those operands are replaced by
# their definitions in the enclosing writer function, so that each statistic site reads as an expression over
# `netinfo-><accessor>(...)` calls; Props/C09Xml.lean joins the two tables (same tag / function / operand) and maps every
# resolved expression to the regenerated formula of Gen/StatsGen.lean it is the value of.

XML_STAT_FNS = ("equations_summary", "std_dev_summary", "std_error_ellipses", "observations")
_NORESOLVE = {"i", "j", "k", "sc", "ind", "ID", "netinfo", "out", "pm", "scale"}
_NOT_A_TYPE = {"else", "return", "case", "goto", "delete", "new", "throw", "typename", "using"}


def _decl_of(name, region):
    """nearest preceding definition `<type> name = expr` (terminated by `;` or by `) {` of an `if (T x = e)`)"""
    best = None
    for m in re.finditer(r"(?:\bconst\s+)?\b([A-Za-z_][\w:<>]*)\s*[&*]?\s+" + re.escape(name) +
                         r"\s*=(?!=)\s*([^;{]+?)\s*(;|\)\s*\{)", region):
        if m.group(1) in _NOT_A_TYPE:
            continue
        best = m
    return best


def _resolve(expr, region, depth=0):
    """replace identifiers that have a local definition in `region` (text of the function before the site)"""
    if depth > 8:
        raise Unreadable("xml statistic site: definitions nest too deep in " + expr)
    unit = False
    out, pos = [], 0
    for m in re.finditer(r"[A-Za-z_]\w*", expr):
        name = m.group(0)
        before = expr[:m.start()].rstrip()
        if before.endswith(("->", ".", "::")) or name in _NORESOLVE:
            continue
        d = _decl_of(name, region)
        if d is None:
            # an out-parameter: `double major, minor, alpha; netinfo->std_error_ellipse(ID, major, minor, alpha);`
            if re.search(r"\bdouble\b[^;=]*\b" + name + r"\b[^;=]*;", region):
                calls = [c for c in re.finditer(r"(netinfo->\w+)\(([^;()]*)\)\s*;", region)
                         if name in [a.strip() for a in c.group(2).split(",")]]
                if len(calls) != 1:
                    raise Unreadable("xml statistic site: `" + name + "` is declared without a value and is not the "
                                     "argument of exactly one accessor call")
                args = [a.strip() for a in calls[0].group(2).split(",")]
                rep = f"{calls[0].group(1)}#{args.index(name)}"
                out.append(expr[pos:m.start()] + rep)
                pos = m.end()
            continue
        after = region[d.end():]
        mods = re.findall(r"(?<![\w.>])" + re.escape(name) + r"\s*([-+*/]?=)(?!=)\s*([^;]+);", after)
        for op, rhs in mods:
            if (op, rhs.strip()) == ("*=", "sc"):
                unit = True
            else:
                raise Unreadable("xml statistic site: `" + name + "` is modified before it is printed: " + op + rhs)
        sub, u2 = _resolve(" ".join(d.group(2).split()), region[:d.start()], depth + 1)
        unit = unit or u2
        atomic = re.fullmatch(r"[\w>.:-]+(\([^()]*\))?(\([^()]*\))?", sub.replace(" ", "")) is not None
        out.append(expr[pos:m.start()] + (sub if atomic else "(" + sub + ")"))
        pos = m.end()
    out.append(expr[pos:])
    return "".join(out), unit


def gen_xml_sites(repo):
    import c12_sites
    repo = Path(repo)
    raw = (repo / "lib/gnu_gama/xml/localnetworkxml.cpp").read_text(errors="replace")
    try:
        sites = c12_sites.parse_sites(raw)
    except c12_sites.SitesError as e:
        raise Unreadable("localnetworkxml.cpp sites: " + str(e))
    text = c12_sites.strip_cpp_comments(raw)
    lines = text.split("\n")
    rows = []
    for s in sites:
        if s["kind"] != "numeric":
            continue
        if not (s["fn"] in XML_STAT_FNS or (s["fn"] == "coordinates" and s["tag"] == "flt")):
            continue
        ln = s["line"] - 1
        # start of the enclosing function: the last line above that begins a LocalNetworkXML member definition
        st = ln
        while st > 0 and not re.match(r"\s*void\s+LocalNetworkXML::\w+\s*\(", lines[st]):
            st -= 1
        region = "\n".join(lines[st:ln])
        operand = s["operand"]
        unit = False
        core = operand
        mu = re.fullmatch(r"(\w+)\s*\*\s*sc", operand)
        if mu:
            core, unit = mu.group(1), True
        src, u2 = _resolve(core, region)
        rows.append((s["tag"], s["fn"], operand, re.sub(r"\s+", "", src), unit or u2))
    need = {"degrees-of-freedom", "defect", "sum-of-squares", "apriori", "aposteriori", "ratio", "confidence-scale",
            "flt", "major", "minor", "alpha", "stdev", "qrr", "f", "std-residual", "err-obs", "err-adj"}
    missing = need - {r[0] for r in rows}
    if missing:
        raise Unreadable("localnetworkxml.cpp: statistic sites not found: " + ", ".join(sorted(missing)))
    q = lambda t: '"' + t.replace("\\", "\\\\").replace('"', '\\"') + '"'
    body = ",\n".join(f"  ⟨{q(t)}, {q(f)}, {q(o)}, {q(src)}, {'true' if u else 'false'}⟩" for t, f, o, src, u in rows)
    return ("/-\n  GENERATED by tools/gen/c09_stats.py (gen_xml_sites) from lib/gnu_gama/xml/localnetworkxml.cpp of the\n"
            "  current tree.  DO NOT EDIT.\n"
            "  Every numeric operand the XML writer streams in equations_summary, std_dev_summary, std_error_ellipses,\n"
            "  observations (and <flt> of the covariance matrix in coordinates): tag, writer function and operand text as in\n"
            "  Gen/XmlSites.lean (C12), `source` = the operand with its local variables replaced by their definitions in the\n"
            "  writer function (blanks removed; `netinfo->f#k` = k-th argument of the accessor call that fills an\n"
            "  out-parameter), `unit` = rescaled by the angular unit factor `sc` before printing.\n"
            "  Props/C09Xml.lean maps every `source` to the formula of Gen/StatsGen.lean it is the value of.\n-/\n"
            "namespace Gama.StatsXmlSites\n\n"
            "structure StatSite where\n  tag : String\n  fn : String\n  operand : String\n  source : String\n  unit : Bool\n"
            "deriving DecidableEq, Repr\n\n"
            "def sites : List StatSite := [\n" + body + "]\n\nend Gama.StatsXmlSites\n")


if __name__ == "__main__":
    import sys
    if len(sys.argv) > 2 and sys.argv[2] == "xml":
        print(gen_xml_sites(sys.argv[1]))
    else:
        print(gen(sys.argv[1] if len(sys.argv) > 1 else "/repo"))
