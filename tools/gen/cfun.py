"""
Shared mini C++ front end for the round-7 translators (c18_ellipsoid.py, c17_constants.py, c16_choldec.py,
c10_homsites.py): tokenizer, recursive-descent expression / statement parser for the structured subset the
numeric kernels of GNU Gama are written in, and an emitter that writes ONE C++ function as ONE Lean definition.

Subset (anything else raises Unparsable -> the caller raises TieBroken: the model would no longer be the code):
  statements   declarations `[const] T a = e, b;`, assignments `v = e;` `v op= e;` `v++;`, call statements,
               `if (c) s [else s]`, blocks, `return [e];`        (loops are parsed into a tree — `for`, `while`,
               `do…while` — but only the structured-program dumpers use them; the function emitter refuses them)
  expressions  + - * / unary - ! comparisons && || ?: calls, member calls, indexing, `*p`, `p++`, literals

How a function becomes Lean (`emit_function`):
  * the body is an `Id.run do` block, one line per C++ statement, in source order; C++ variables keep their names
    (`let mut v : K := e` at the first assignment, `v := e` afterwards; `const` -> `let`)
  * reading a variable before it was assigned on that path is refused (no invented initial value)
  * an `if` one of whose branches returns is a `do`-level `if` (Lean builds the join point)
  * an `if` without `return` is a VALUE: `v := if c then e1 else e2`; several variables -> one tuple-valued `if`
    whose branches are `let` chains (`let ff : K := pf; let B : K := A * (1 - ff); (B, ff)`)
  * `a > b` is written `b < a`, `a >= b` as `b ≤ a` (the hand models do the same; `Scalar` has `<`, `≤` only)
  * a `double` used as a condition (`if (pb)`) is `!(Scalar.beq pb 0)`
  * literals: `0`/`1`/`1.0` -> `(0 : K)`/`(1 : K)`; other integers and decimals with an all-zero fraction (`48.0`)
    -> `Scalar.ofNat n`; decimals exactly: `0.1565326e-2` -> `Scalar.ofSci 1565326 true 9`; `1e30` -> `Scalar.ofSci 1 false 30`
  * `int` stays `Int`; where an `int` meets a `double` it is converted with `Scalar.ofInt`
Pure python3 standard library.
"""
import re


class Unparsable(Exception):
    pass


def bad(msg):
    raise Unparsable(msg)


# ------------------------------------------------------------------ tokenizer

TOK = re.compile(r"""
    (?P<num>(?:\d+\.\d*|\.\d+|\d+)(?:[eE][+-]?\d+)?)
  | (?P<id>(?:std::)?[A-Za-z_]\w*(?:::[A-Za-z_]\w*)*)
  | (?P<str>"(?:[^"\\]|\\.)*")
  | (?P<op>->|\+\+|--|\+=|-=|\*=|/=|==|!=|>=|<=|\|\||&&|<<|[-+*/%<>=!&|^~?:;,.(){}\[\]])
  | (?P<ws>\s+)
""", re.X)


def strip_comments(src):
    src = re.sub(r"/\*.*?\*/", lambda m: "\n" * m.group(0).count("\n"), src, flags=re.S)
    return re.sub(r"//[^\n]*", "", src)


def tokenize(src, what=""):
    toks, i = [], 0
    while i < len(src):
        m = TOK.match(src, i)
        if not m:
            bad(f"{what}: cannot tokenize at {src[i:i+30]!r}")
        i = m.end()
        if m.lastgroup == "ws":
            continue
        toks.append((m.lastgroup, m.group(0)))
    return toks


def matching(text, i, op="{", cl="}"):
    depth, j = 0, i
    while j < len(text):
        if text[j] == op:
            depth += 1
        elif text[j] == cl:
            depth -= 1
            if depth == 0:
                return j
        j += 1
    bad(f"unbalanced {op}{cl}")


def function_source(text, header_re, what):
    """(parameter text, body text without the outer braces) of the function whose header matches"""
    ms = list(re.finditer(header_re, text))
    if len(ms) != 1:
        bad(f"{what}: {len(ms)} definitions match {header_re!r}")
    m = ms[0]
    i = text.index("(", m.end() - 1) if text[m.end() - 1] != "(" else m.end() - 1
    j = matching(text, i, "(", ")")
    k = j + 1
    while k < len(text) and text[k] != "{":
        if text[k] == ";":
            bad(f"{what}: declaration without a body")
        k += 1
    e = matching(text, k, "{", "}")
    return text[i + 1:j], text[j + 1:k].strip(), text[k + 1:e]


# ------------------------------------------------------------------ parser

TYPES = {"double", "int", "bool", "float", "Index", "size_t", "Float", "std::size_t", "unsigned", "long", "auto"}


class Parser:
    def __init__(self, toks, what, types=()):
        self.t, self.i, self.what = toks, 0, what
        self.types = TYPES | set(types)

    def peek(self, k=0):
        return self.t[self.i + k][1] if self.i + k < len(self.t) else None

    def kind(self, k=0):
        return self.t[self.i + k][0] if self.i + k < len(self.t) else None

    def next(self):
        if self.i >= len(self.t):
            bad(f"{self.what}: unexpected end")
        v = self.t[self.i][1]
        self.i += 1
        return v

    def ctx(self):
        return " ".join(t for _, t in self.t[max(0, self.i - 6):self.i + 5])

    def eat(self, s):
        if self.peek() != s:
            bad(f"{self.what}: expected {s!r} got {self.peek()!r} near `{self.ctx()}`")
        self.i += 1

    def accept(self, s):
        if self.peek() == s:
            self.i += 1
            return True
        return False

    # ---- expressions (precedence climbing)
    def expr(self):
        return self.assign()

    def assign(self):
        lhs = self.ternary()
        if self.peek() in ("=", "+=", "-=", "*=", "/="):
            op = self.next()
            rhs = self.assign()
            return ("assign", op, lhs, rhs)
        return lhs

    def ternary(self):
        c = self.binary(0)
        if self.accept("?"):
            a = self.expr()
            self.eat(":")
            b = self.ternary()
            return ("tern", c, a, b)
        return c

    LEVELS = [["||"], ["&&"], ["==", "!="], ["<", ">", "<=", ">="], ["<<"], ["+", "-"], ["*", "/", "%"]]

    def binary(self, lvl):
        if lvl == len(self.LEVELS):
            return self.unary()
        e = self.binary(lvl + 1)
        while self.peek() in self.LEVELS[lvl]:
            op = self.next()
            r = self.binary(lvl + 1)
            e = ("bin", op, e, r)
        return e

    def unary(self):
        p = self.peek()
        if p in ("-", "+", "!"):
            self.next()
            return ("un", p, self.unary())
        if p == "*":
            self.next()
            return ("deref", self.unary())
        if p == "&":
            self.next()
            return ("addr", self.unary())
        if p in ("++", "--"):
            self.next()
            return ("pre" + p, self.unary())
        return self.postfix()

    def postfix(self):
        e = self.primary()
        while True:
            p = self.peek()
            if p in (".", "->"):
                self.next()
                name = self.next()
                if self.accept("("):
                    e = ("meth", e, name, self.args())
                else:
                    e = ("field", e, name)
            elif p == "[":
                self.next()
                ix = self.expr()
                self.eat("]")
                e = ("index", e, ix)
            elif p in ("++", "--"):
                self.next()
                e = ("post" + p, e)
            else:
                return e

    def args(self):
        out = []
        if self.accept(")"):
            return out
        while True:
            out.append(self.expr())
            if self.accept(")"):
                return out
            self.eat(",")

    def primary(self):
        k, p = self.kind(), self.peek()
        if p == "(":
            self.next()
            e = self.expr()
            self.eat(")")
            return ("paren", e)
        if k == "num":
            return ("num", self.next())
        if k == "str":
            return ("str", self.next())
        if k == "id":
            name = self.next()
            if self.peek() == "(":
                self.next()
                return ("call", name, self.args())
            if self.peek() == "{" and name in self.types:       # T{}
                self.next()
                self.eat("}")
                return ("num", "0")
            return ("var", name)
        bad(f"{self.what}: unexpected token {p!r} near `{self.ctx()}`")

    # ---- statements
    def block_or_stmt(self):
        if self.peek() == "{":
            self.next()
            out = []
            while not self.accept("}"):
                out += self.stmt()
            return out
        return self.stmt()

    def stmts_until_end(self):
        out = []
        while self.i < len(self.t):
            out += self.stmt()
        return out

    def stmt(self):
        """list of statements (a declaration with several declarators yields several)"""
        p = self.peek()
        if p == ";":
            self.next()
            return []
        if p == "{":
            return [("block", self.block_or_stmt())]
        if p == "if":
            self.next()
            self.eat("(")
            c = self.expr()
            self.eat(")")
            a = self.block_or_stmt()
            b = []
            if self.accept("else"):
                b = self.block_or_stmt()
            return [("if", c, a, b)]
        if p == "return":
            self.next()
            if self.accept(";"):
                return [("return", None)]
            e = self.expr()
            self.eat(";")
            return [("return", e)]
        if p == "throw":
            self.next()
            e = self.expr()
            self.eat(";")
            return [("throw", e)]
        if p in ("break", "continue"):
            self.next()
            self.eat(";")
            return [(p,)]
        if p == "for":
            self.next()
            self.eat("(")
            init = [] if self.peek() == ";" else None
            if init is None:
                init = self.stmt()          # consumes the ';'
            else:
                self.next()
            cond = None if self.peek() == ";" else self.expr()
            self.eat(";")
            step = []
            if self.peek() != ")":
                step.append(self.expr())
                while self.accept(","):
                    step.append(self.expr())
            self.eat(")")
            body = self.block_or_stmt()
            return [("for", init, cond, step, body)]
        if p == "while":
            self.next()
            self.eat("(")
            c = self.expr()
            self.eat(")")
            return [("while", c, self.block_or_stmt())]
        if p == "do":
            self.next()
            body = self.block_or_stmt()
            self.eat("while")
            self.eat("(")
            c = self.expr()
            self.eat(")")
            self.eat(";")
            return [("dowhile", body, c)]
        if p == "using":
            while self.next() != ";":
                pass
            return []
        # declaration?
        j = self.i
        const = False
        while self.peek() in ("const", "static", "constexpr"):
            const = True
            self.next()
        if self.kind() == "id" and self.peek() in self.types:
            ty = self.next()
            while self.peek() in self.types:        # `unsigned long`
                ty += " " + self.next()
            if self.peek() == "(":                  # functional cast `int(x)` as an expression statement
                self.i = j
            else:
                out = []
                while True:
                    ptr = ""
                    while self.peek() in ("*", "&"):
                        ptr += self.next()
                    if self.peek() == "const":
                        self.next()
                    name = self.next()
                    init = None
                    if self.accept("="):
                        init = self.ternary()
                    elif self.peek() == "{":
                        self.next()
                        init = ("num", "0") if self.peek() == "}" else self.expr()
                        self.eat("}")
                    elif self.peek() == "(" :
                        self.next()
                        init = self.expr()
                        self.eat(")")
                    out.append(("decl", ty + ptr, name, init, const))
                    if self.accept(";"):
                        return out
                    self.eat(",")
        else:
            self.i = j
        e = self.expr()
        es = [e]
        while self.accept(","):
            es.append(self.expr())
        self.eat(";")
        return [("expr", x) for x in es]


def parse_body(text, what, types=()):
    return Parser(tokenize(strip_comments(text), what), what, types).stmts_until_end()


def parse_params(text, what):
    """[(type, name or None)] ; type keeps '&' / '*' suffixes"""
    text = strip_comments(text).strip()
    if not text or text == "void":
        return []
    out = []
    for part in text.split(","):
        m = re.fullmatch(r"\s*(const\s+)?([\w:]+)\s*([&*]*)\s*(\w+)?\s*", part)
        if not m:
            bad(f"{what}: parameter {part!r}")
        out.append((m.group(2) + m.group(3), m.group(4)))
    return out


def has_return(stmts):
    for s in stmts:
        if s[0] in ("return", "throw"):
            return True
        if s[0] == "if" and (has_return(s[2]) or has_return(s[3])):
            return True
        if s[0] == "block" and has_return(s[1]):
            return True
    return False


def has_loop(stmts):
    for s in stmts:
        if s[0] in ("for", "while", "dowhile"):
            return True
        if s[0] == "if" and (has_loop(s[2]) or has_loop(s[3])):
            return True
        if s[0] == "block" and has_loop(s[1]):
            return True
    return False


# ------------------------------------------------------------------ literals

def literal(tok):
    """exact value of a C decimal literal: ('nat', n) or ('sci', mantissa, neg_exp?, exp)"""
    m = re.fullmatch(r"(\d*)(?:\.(\d*))?(?:[eE]([+-]?\d+))?", tok)
    if not m or (not m.group(1) and not m.group(2)):
        bad(f"literal {tok!r}")
    ip, fp, ex = m.group(1) or "", m.group(2) or "", int(m.group(3) or 0)
    fp = fp.rstrip("0")
    mant = int((ip + fp) or "0")
    e10 = ex - len(fp)            # value = mant * 10^e10
    if mant == 0:
        return ("nat", 0)
    while mant % 10 == 0 and e10 < 0:
        mant //= 10
        e10 += 1
    if e10 == 0 or (0 < e10 <= 6 and "." in tok and ex == 0):
        return ("nat", mant * 10 ** e10)
    if e10 > 0:
        return ("sci", mant, False, e10)
    return ("sci", mant, True, -e10)


def lean_lit(tok, K="K"):
    v = literal(tok)
    if v[0] == "nat":
        if v[1] in (0, 1):
            return f"({v[1]} : {K})"
        return f"(Scalar.ofNat {v[1]} : {K})"
    return f"(Scalar.ofSci {v[1]} {'true' if v[2] else 'false'} {v[3]} : {K})"


def is_int_literal(tok):
    return re.fullmatch(r"\d+", tok) is not None


# ------------------------------------------------------------------ function emitter

MATH = {"sin": "Transc.sin", "cos": "Transc.cos", "atan": "Transc.atan", "exp": "Transc.exp", "log": "Transc.log",
        "sqrt": "Scalar.sqrt", "fabs": "Scalar.abs", "std::abs": "Scalar.abs", "std::fabs": "Scalar.abs",
        "std::sqrt": "Scalar.sqrt", "std::sin": "Transc.sin", "std::cos": "Transc.cos", "std::exp": "Transc.exp",
        "std::log": "Transc.log"}
MATH2 = {"atan2": "Transc.atan2", "pow": "Transc.pow", "std::atan2": "Transc.atan2", "std::pow": "Transc.pow"}


class Fn:
    """
    One C++ function -> one Lean definition.
      params   : [(ctype, name)] from the C++ signature
      ret      : C return type ('double', 'void', …)
      consts   : {C identifier: (lean text, type)}   e.g. members of a const method  A -> ('e.A','double'), M_PI
      calls    : {C function: (lean text applied to the arguments, [arg types], result type)}
      procs    : {C procedure with out-parameters: (lean text, n_in, [types of outs])}  `P(in…, out…)`
      members  : for a mutating member function: names of the data members (all must be assigned; result is the structure)
      loop_hooks : [(expected statement list (parse of the pinned loop text), [lean do-lines], {variable: ctype} defined by them)]
                 consumed in source order: a loop is not translated — its parse tree must EQUAL the pinned one (any change
                 inside a loop stops the translator) and the given lines (a call of the hand-written Lean loop) are emitted
    """

    def __init__(self, what, params, ret, body, consts=None, calls=None, procs=None, members=None,
                 struct_type=None, K="K", loop_hooks=None):
        self.loop_hooks = list(loop_hooks or [])
        self.what, self.params, self.ret, self.body = what, params, ret, body
        self.consts, self.calls, self.procs = consts or {}, calls or {}, procs or {}
        self.members, self.struct_type, self.K = members, struct_type, K
        self.tmp = 0
        self.outs = [(t, n) for t, n in params if t.endswith("&")]
        self.ins = [(t, n) for t, n in params if not t.endswith("&")]

    # ---- types
    def lty(self, cty):
        cty = cty.rstrip("&")
        return {"double": self.K, "int": "Int", "bool": "Bool"}.get(cty) or bad(f"{self.what}: type {cty}")

    # ---- expressions: returns (text, type) with type in double/int/bool/prop/intlit
    def ex(self, e, env):
        k = e[0]
        if k == "paren":
            t, ty = self.ex(e[1], env)
            return (t, ty)
        if k == "num":
            if is_int_literal(e[1]):
                return (e[1], "intlit")
            return (lean_lit(e[1], self.K), "double")
        if k == "var":
            n = e[1]
            if n in env:
                return (n, env[n])
            if n in self.consts:
                return self.consts[n]
            bad(f"{self.what}: `{n}` is read before it is assigned (or unknown)")
        if k == "un":
            op, a = e[1], self.ex(e[2], env)
            if op == "-":
                if a[1] == "intlit":
                    return (f"-{a[0]}", "negintlit")       # typed where it meets an operand
                if a[1] in ("double", "int"):
                    return (f"(-{a[0]})", a[1])
            if op == "+":
                return a
            if op == "!":
                if a[1] == "bool":
                    return (f"!{a[0]}", "bool")
                if a[1] == "prop":
                    return (f"¬({a[0]})", "prop")
                if a[1] == "double":
                    return (f"Scalar.beq {a[0]} (0 : {self.K})", "bool")
            bad(f"{self.what}: unary {op} on {a[1]}")
        if k == "bin":
            op = e[1]
            a, b = self.fixneg(self.ex(e[2], env)), self.fixneg(self.ex(e[3], env))
            if op in ("+", "-", "*", "/"):
                ty = self.num_join(a, b)
                if ty == "int" and op == "/":
                    bad(f"{self.what}: integer division")
                return (f"({self.coerce(a, ty)} {op} {self.coerce(b, ty)})", ty)
            if op in ("<", ">", "<=", ">=", "==", "!="):
                ty = self.num_join(a, b)
                x, y = self.coerce(a, ty), self.coerce(b, ty)
                if op == "<":
                    return (f"{x} < {y}", "prop")
                if op == ">":
                    return (f"{y} < {x}", "prop")
                if op == "<=":
                    return (f"{x} ≤ {y}", "prop")
                if op == ">=":
                    return (f"{y} ≤ {x}", "prop")
                if ty == "double":
                    return (f"Scalar.beq {x} {y}" if op == "==" else f"!(Scalar.beq {x} {y})", "bool")
                return (f"{x} = {y}" if op == "==" else f"{x} ≠ {y}", "prop")
            if op in ("&&", "||"):
                x, y = self.as_prop(a), self.as_prop(b)
                return (f"({x}) {'∧' if op == '&&' else '∨'} ({y})", "prop")
            bad(f"{self.what}: operator {op}")
        if k == "tern":
            c = self.coerce(self.ex(e[1], env), "cond")
            a, b = self.fixneg(self.ex(e[2], env)), self.fixneg(self.ex(e[3], env))
            ty = self.num_join(a, b)
            return (f"(if {c} then {self.coerce(a, ty)} else {self.coerce(b, ty)})", ty)
        if k == "call":
            name, args = e[1], [self.fixneg(self.ex(a, env)) for a in e[2]]
            if name in self.calls:
                fn, atys, rty = self.calls[name]
                if len(atys) != len(args):
                    bad(f"{self.what}: {name} called with {len(args)} arguments")
                return ("(" + fn + "".join(" " + self.atom(self.coerce(a, t)) for a, t in zip(args, atys)) + ")", rty)
            if name in MATH and len(args) == 1:
                return (f"({MATH[name]} {self.atom(self.coerce(args[0], 'double'))})", "double")
            if name in MATH2 and len(args) == 2:
                return (f"({MATH2[name]} {self.atom(self.coerce(args[0], 'double'))} {self.atom(self.coerce(args[1], 'double'))})", "double")
            if name == "int" and len(args) == 1:
                return (f"(Trunc.trunc {self.atom(self.coerce(args[0], 'double'))})", "int")
            if name == "double" and len(args) == 1:
                return (self.coerce(args[0], "double"), "double")
            bad(f"{self.what}: call of unknown function {name}/{len(args)}")
        bad(f"{self.what}: expression form {k}")

    def fixneg(self, a):
        return a

    def as_prop(self, a):
        if a[1] == "prop":
            return a[0]
        if a[1] == "bool":
            return f"{a[0]} = true"
        return self.coerce(a, "cond") + " = true"

    def atom(self, txt):
        if re.fullmatch(r"[\w.]+", txt) or (txt.startswith("(") and matching(txt, 0, "(", ")") == len(txt) - 1):
            return txt
        return f"({txt})"

    # integer literals (and their negatives) get their type where they meet an operand
    def coerce(self, e, want):
        txt, ty = e
        if ty == "negintlit":
            n = txt[1:]
            if want == "double":
                return f"(-{lean_lit(n, self.K)})"
            if want == "int":
                return f"(-{n} : Int)"
            bad(f"{self.what}: {txt} as {want}")
        return _coerce0(self, e, want)

    def num_join(self, a, b):
        ta = "intlit" if a[1] == "negintlit" else a[1]
        tb = "intlit" if b[1] == "negintlit" else b[1]
        if "double" in (ta, tb):
            return "double"
        if "int" in (ta, tb):
            return "int"
        if ta == tb == "intlit":
            return "int"
        bad(f"{self.what}: arithmetic on {ta}, {tb}")

    # ---- statements
    def desugar(self, s):
        """('expr', assign/inc) -> ('set', name, expr) ; proc calls -> ('proc', …)"""
        e = s[1]
        if e[0] == "assign":
            op, lhs, rhs = e[1], e[2], e[3]
            if lhs[0] != "var":
                bad(f"{self.what}: assignment to {lhs[0]}")
            if op != "=":
                rhs = ("bin", op[0], lhs, ("paren", rhs))
            return ("set", lhs[1], rhs)
        if e[0] in ("post++", "pre++") and e[1][0] == "var":
            return ("set", e[1][1], ("bin", "+", e[1], ("num", "1")))
        if e[0] == "call" and e[1] in self.procs:
            return ("proc", e[1], e[2])
        bad(f"{self.what}: statement form {e[0]} {e[1] if len(e) > 1 and isinstance(e[1], str) else ''}")

    def vtype(self, name, decl_types):
        if name in decl_types:
            return decl_types[name]
        bad(f"{self.what}: assignment to undeclared `{name}`")

    def assigned(self, stmts, acc):
        for s in stmts:
            if s[0] == "decl":
                continue
            if s[0] == "expr":
                d = self.desugar(s)
                if d[0] == "set" and d[1] not in acc:
                    acc.append(d[1])
                if d[0] == "proc":
                    _, n_in, outs = self.procs[d[1]]
                    for a in d[2][n_in:]:
                        if a[1] not in acc:
                            acc.append(a[1])
            elif s[0] == "if":
                self.assigned(s[2], acc)
                self.assigned(s[3], acc)
            elif s[0] == "block":
                self.assigned(s[1], acc)
        return acc

    def definitely(self, stmts):
        """variables assigned on every path through stmts (no returns inside)"""
        out = set()
        for s in stmts:
            if s[0] == "decl" and s[3] is not None:
                pass
            elif s[0] == "expr":
                d = self.desugar(s)
                if d[0] == "set":
                    out.add(d[1])
                else:
                    out |= {a[1] for a in d[2][self.procs[d[1]][1]:]}
            elif s[0] == "if":
                out |= self.definitely(s[2]) & self.definitely(s[3])
            elif s[0] == "block":
                out |= self.definitely(s[1])
        return out

    def local_decls(self, stmts):
        return {s[2] for s in stmts if s[0] == "decl"}

    def term_block(self, stmts, env, types, result_vars):
        """value-level branch: `let` chain ending in the tuple of result_vars (term mode)"""
        env, types = dict(env), dict(types)
        parts = []
        for s in stmts:
            parts += self.term_stmt(s, env, types)
        for v in result_vars:
            if v not in env:
                bad(f"{self.what}: `{v}` is not assigned on every path of a branch")
        res = result_vars[0] if len(result_vars) == 1 else "(" + ", ".join(result_vars) + ")"
        if not parts:
            return res
        if len(result_vars) == 1 and len(parts) == 1 and parts[0][0] == result_vars[0]:
            return parts[0][2]                      # single assignment: just its value
        return "(" + " ".join(f"let {n} : {t} := {v};" for n, t, v in parts) + " " + res + ")"

    def term_stmt(self, s, env, types):
        if s[0] == "decl":
            types[s[2]] = s[1]
            if s[3] is None:
                return []
            v = self.coerce(self.fixneg(self.ex(s[3], env)), s[1] if s[1] != "bool" else "bool")
            env[s[2]] = s[1]
            return [(s[2], self.lty(s[1]), v)]
        if s[0] == "block":
            out = []
            for x in s[1]:
                out += self.term_stmt(x, env, types)
            return out
        if s[0] == "expr":
            d = self.desugar(s)
            if d[0] != "set":
                bad(f"{self.what}: procedure call inside a value-level branch")
            ty = self.vtype(d[1], types)
            v = self.coerce(self.fixneg(self.ex(d[2], env)), ty)
            env[d[1]] = ty
            return [(d[1], self.lty(ty), v)]
        if s[0] == "if":
            names, txt = self.value_if(s, env, types)
            for n in names:
                env[n] = types[n]
            if len(names) == 1:
                return [(names[0], self.lty(types[names[0]]), txt)]
            self.tmp += 1
            t = f"m_{self.tmp}"
            tt = " × ".join(self.lty(types[n]) for n in names)
            return [(t, tt, txt)] + [(n, self.lty(types[n]), proj(t, i, len(names))) for i, n in enumerate(names)]
        bad(f"{self.what}: statement {s[0]} inside a value-level branch")

    def value_if(self, s, env, types):
        """an `if` without return as a value: (merged variable names, lean term)"""
        _, c, a, b = s
        cond = self.coerce(self.ex(c, env), "cond")
        cand = self.assigned(a, [])
        self.assigned(b, cand)
        loc = self.local_decls(a) | self.local_decls(b)
        both = self.definitely(a) & self.definitely(b)
        names = [v for v in cand if v not in loc and (v in env or v in both)]
        for v in cand:
            if v not in loc and v not in names:
                # assigned on some paths only and not live before: dead afterwards unless read (then refused as unassigned)
                pass
        if not names:
            bad(f"{self.what}: an `if` without effect")
        ta = self.term_block(a, env, types, names)
        tb = self.term_block(b, env, types, names)
        return names, f"if {cond} then {ta} else {tb}"

    def do_stmts(self, stmts, env, types, ind, out):
        """do-mode; returns True if every path returned"""
        for idx, s in enumerate(stmts):
            pad = "  " * ind
            if s[0] == "decl":
                types[s[2]] = s[1]
                if s[3] is None:
                    continue
                v = self.coerce(self.fixneg(self.ex(s[3], env)), s[1])
                out.append(f"{pad}let {'' if s[4] else 'mut '}{s[2]} : {self.lty(s[1])} := {v}")
                env[s[2]] = s[1]
            elif s[0] == "block":
                e2, t2 = dict(env), dict(types)
                if self.do_stmts(s[1], e2, t2, ind, out):
                    return True
                for v in e2:
                    if v in env or v not in self.local_decls(s[1]):
                        env[v] = e2[v]
            elif s[0] == "expr":
                d = self.desugar(s)
                if d[0] == "set":
                    ty = self.vtype(d[1], types)
                    v = self.coerce(self.fixneg(self.ex(d[2], env)), ty)
                    if d[1] in env:
                        out.append(f"{pad}{d[1]} := {v}")
                    else:
                        out.append(f"{pad}let mut {d[1]} : {self.lty(ty)} := {v}")
                        env[d[1]] = ty
                else:
                    fn, n_in, otys = self.procs[d[1]]
                    args = d[2]
                    if len(args) != n_in + len(otys):
                        bad(f"{self.what}: {d[1]} called with {len(args)} arguments")
                    ins = [self.atom(self.coerce(self.fixneg(self.ex(a, env)), "double")) for a in args[:n_in]]
                    self.tmp += 1
                    t = f"r_{self.tmp}"
                    out.append(f"{pad}let {t} := {fn} {' '.join(ins)}")
                    for i, (a, ty) in enumerate(zip(args[n_in:], otys)):
                        if a[0] != "var":
                            bad(f"{self.what}: out argument of {d[1]} is not a variable")
                        p = proj(t, i, len(otys))
                        if a[1] in env:
                            out.append(f"{pad}{a[1]} := {p}")
                        else:
                            self.vtype(a[1], types)
                            out.append(f"{pad}let mut {a[1]} : {self.lty(ty)} := {p}")
                            env[a[1]] = ty
            elif s[0] == "return":
                out.append(pad + "return " + self.ret_value(s[1], env))
                if idx != len(stmts) - 1:
                    bad(f"{self.what}: statements after return")
                return True
            elif s[0] == "if":
                if has_return(s[2]) or has_return(s[3]):
                    cond = self.coerce(self.ex(s[1], env), "cond")
                    out.append(f"{pad}if {cond} then")
                    ea, ta = dict(env), dict(types)
                    ra = self.do_stmts(s[2], ea, ta, ind + 1, out)
                    if not s[2]:
                        out.append(pad + "  pure ()")
                    eb, tb = dict(env), dict(types)
                    rb = False
                    if s[3]:
                        out.append(f"{pad}else")
                        rb = self.do_stmts(s[3], eb, tb, ind + 1, out)
                    if ra and rb:
                        if idx != len(stmts) - 1:
                            bad(f"{self.what}: statements after an if that always returns")
                        return True
                    # variables first assigned inside a branch are local to it (Lean scoping = refusing later reads)
                else:
                    names, txt = self.value_if(s, env, types)
                    if len(names) == 1:
                        n = names[0]
                        if n in env:
                            out.append(f"{pad}{n} := {txt}")
                        else:
                            out.append(f"{pad}let mut {n} : {self.lty(types[n])} := {txt}")
                            env[n] = types[n]
                    else:
                        self.tmp += 1
                        t = f"m_{self.tmp}"
                        tt = " × ".join(self.lty(types[n]) for n in names)
                        out.append(f"{pad}let {t} : {tt} := {txt}")
                        for i, n in enumerate(names):
                            p = proj(t, i, len(names))
                            if n in env:
                                out.append(f"{pad}{n} := {p}")
                            else:
                                out.append(f"{pad}let mut {n} : {self.lty(types[n])} := {p}")
                                env[n] = types[n]
            elif s[0] in ("for", "while", "dowhile") and self.loop_hooks:
                # a loop whose text is pinned: it must be, token for token, the loop the hand-written Lean loop transcribes
                expected, lines, defines = self.loop_hooks.pop(0)
                if [s] != expected:
                    bad(f"{self.what}: the {s[0]} loop is no longer the loop the model transcribes")
                for ln in lines:
                    out.append(pad + ln)
                for v, ty in defines.items():
                    env[v] = ty
            else:
                bad(f"{self.what}: statement {s[0]} is outside the straight-line subset")
        return False

    def ret_value(self, e, env):
        if self.members is not None:
            for m in self.members:
                if m not in env:
                    bad(f"{self.what}: data member `{m}` is not assigned")
            return "{ " + ", ".join(f"{m} := {m}" for m in self.members) + " }"
        if self.ret == "void":
            for _, n in self.outs:
                if n not in env:
                    bad(f"{self.what}: out parameter `{n}` is not assigned on a returning path")
            if len(self.outs) == 1:
                return self.outs[0][1]
            return "(" + ", ".join(n for _, n in self.outs) + ")"
        if e is None:
            bad(f"{self.what}: return without a value")
        return self.coerce(self.fixneg(self.ex(e, env)), self.ret)

    def ret_type(self):
        if self.members is not None:
            return self.struct_type
        if self.ret == "void":
            return " × ".join(self.lty(t) for t, _ in self.outs) or bad(f"{self.what}: void function without out parameters")
        return self.lty(self.ret)

    def emit(self, lean_name, binders, doc):
        if has_loop(self.body) and not self.loop_hooks:
            bad(f"{self.what}: contains a loop (not in the straight-line subset)")
        env, types = {}, {}
        for t, n in self.params:
            if n is None:
                bad(f"{self.what}: unnamed parameter")
            types[n] = t.rstrip("&")
            if not t.endswith("&"):
                env[n] = t
        if self.members is not None:
            for m in self.members:
                types[m] = "double"
        out = []
        mutated = self.assigned(self.body, [])
        for t, n in self.ins:
            if n in mutated:
                out.append(f"  let mut {n} : {self.lty(t)} := {n}")
        done = self.do_stmts(self.body, env, types, 1, out)
        if not done:
            if self.ret != "void":
                bad(f"{self.what}: control reaches the end of a non-void function")
            out.append("  return " + self.ret_value(None, env))
        sig = " ".join(f"({n} : {self.lty(t)})" for t, n in self.ins)
        head = f"/-- {doc} -/\ndef {lean_name} {binders} {sig} : {self.ret_type()} := Id.run do\n"
        return head + "\n".join(out) + "\n"


def _coerce0(self, e, want):
    txt, ty = e
    if ty == want or (want == "cond" and ty in ("prop", "bool")):
        return txt
    if want == "double":
        if ty == "intlit":
            return lean_lit(txt, self.K)
        if ty == "int":
            return f"(Scalar.ofInt {txt} : {self.K})"
    if want == "int" and ty == "intlit":
        return f"({txt} : Int)"
    if want == "cond" and ty == "double":
        return f"!(Scalar.beq {txt} (0 : {self.K}))"
    if want == "cond" and ty == "int":
        return f"{txt} ≠ 0"
    if want == "bool" and ty == "prop":
        return f"decide ({txt})"
    bad(f"{self.what}: cannot use {txt} : {ty} as {want}")


def proj(t, i, n):
    """i-th component of a right-nested n-tuple"""
    if n == 1:
        return t
    return t + ".2" * i + (".1" if i < n - 1 else "")


def write_if_changed(path, text):
    path.parent.mkdir(parents=True, exist_ok=True)
    if not path.exists() or path.read_text() != text:
        path.write_text(text)
        return True
    return False
