"""C06 — generator of the `acord` stream: small in-memory networks on which ONE Acord2 strategy step is run.

A case is one operation line (see harness/c06_cogo.cpp::run_acord for the record grammar) plus meta data for
the oracle: the true coordinates of every point and whether every observation of the case was derived exactly
from them (then every coordinate the step publishes must be the true one).

Coverage by construction: both branches of every strategy (known end point first / second in the PointID order,
from -> to and to -> from, station height from targets and target heights from the station), all 8 axes
orientations x 2 angle senses (they only enter through xNorthAngle()), unequal non-zero from_dh / to_dh,
numeric and non-numeric ids (numeric ids sort before all others, by value), points that are 2D, 3D, height-only
or entirely undefined, one or two consecutive execute() calls of the same strategy object.
"""
import math

from lib.core import float2hex as H

TWO_PI = 2 * math.pi
ID_POOL = ["1", "2", "3", "7", "10", "21", "100", "A", "B", "C", "a", "b2", "Z9", "01", "K-5", "x"]
LH = {0: 300, 6: 300, 1: 400, 4: 400, 2: 200, 5: 200, 3: 100, 7: 100}      # CS: EN NW SE WS NE SW ES WN


def x_north(cs, rh):
    lh = LH[cs]
    if rh:
        lh = 400 - lh
    if lh == 400:
        lh = 0
    return lh * (math.pi / 200.0)


def pick_ids(rng, n):
    return rng.sample(ID_POOL, n)


def coords(rng):
    return (rng.uniform(-500, 1500), rng.uniform(-500, 1500), rng.uniform(100, 400))


def P(id_, p, bxy, bz, axy=1, az=1):
    return f"P {id_} {int(bxy)} {H(p[0] if bxy else 0.0)} {H(p[1] if bxy else 0.0)} {int(bz)} {H(p[2] if bz else 0.0)} {int(axy)} {int(az)}"


def brg(a, b):
    return math.atan2(b[1] - a[1], b[0] - a[0]) % TWO_PI


def hd(a, b):
    return math.hypot(a[0] - b[0], a[1] - b[1])


def head(alg, rng, reps=None):
    cs, rh = rng.randrange(8), rng.randrange(2)
    reps = reps if reps is not None else rng.choice([1, 1, 2])
    return f"acord {alg} {reps} {cs} {rh}", cs, rh


def gen_azimuth(rng):
    hdr, cs, rh = head("azimuth", rng)
    xn = x_north(cs, rh)
    n = rng.randint(2, 5)
    ids = pick_ids(rng, n)
    T = {i: coords(rng) for i in ids}
    if rng.random() < 0.15:
        # the 0 / 2*pi seam of prepare (fix 8d96812): a pair whose azimuth is 0 up to rounding, or exactly 0
        a, b = ids[0], ids[1]
        d = rng.uniform(50, 500)
        T[b] = (T[a][0] + d * math.cos(xn), T[a][1] + d * math.sin(xn), T[b][2])
        if xn == 0.0 and rng.random() < 0.5:
            T[b] = (T[a][0] + float(round(d)), T[a][1], T[b][2])
    consistent = rng.random() < 0.8
    known = {i for i in ids if rng.random() < 0.45} or {rng.choice(ids)}
    if rng.random() < 0.1:
        known = set()
    recs = []
    for i in ids:
        if i in known or rng.random() < 0.8:            # some unknown points are not in the point list at all
            recs.append(P(i, T[i], i in known, rng.random() < 0.4, rng.random() < 0.9, rng.random() < 0.6))
    # observed pairs: a chain through the points (so that a point computed from one pair feeds the next) + extras
    order = ids[:]
    rng.shuffle(order)
    pairs = list(zip(order, order[1:]))
    for _ in range(rng.randint(0, 2)):
        a, b = rng.sample(ids, 2)
        pairs.append((a, b))
    clusters = {}
    branch = set()
    for a, b in pairs:
        k = rng.choice([1, 1, 2, 3])
        for _ in range(k):
            f, t = (a, b) if rng.random() < 0.5 else (b, a)
            v = (brg(T[f], T[t]) - xn) % TWO_PI
            if not consistent and rng.random() < 0.4:
                v = (v + rng.choice([1e-3, -2e-2, 1.0])) % TWO_PI
            clusters.setdefault(f, []).append(f"az {f} {t} {H(v)}")
        if rng.random() < 0.85:
            for _ in range(rng.choice([1, 1, 2])):
                f, t = (a, b) if rng.random() < 0.5 else (b, a)
                d = hd(T[f], T[t])
                if not consistent and rng.random() < 0.3:
                    d += rng.choice([0.5, -0.1])
                clusters.setdefault(f, []).append(f"d {f} {t} {H(d)}")
        if (a in known) != (b in known):
            branch.add("known-first" if ((a in known) == _id_lt(a, b)) else "known-second")
    for st, obs in clusters.items():
        rng.shuffle(obs)
        if rng.random() < 0.3:
            obs.insert(rng.randrange(len(obs) + 1), f"dir {st} {rng.choice(ids)} {H(rng.uniform(0, 6))}")
        recs.append(f"S {st} " + " ".join(obs))
    return hdr + " " + " ".join(recs), dict(alg="azimuth", truth=T, consistent=consistent, branches=branch)


def _id_key(s):
    num = s.isdigit() and not (len(s) > 1 and s[0] == "0") and int(s) > 0
    return (0, int(s), b"") if num else (1, 0, s.encode())


def _id_lt(a, b):
    return _id_key(a) < _id_key(b)


def gen_hdiff(rng):
    # 30 %: two executions with heights that become known in between (`N` records) - in 2 of 3 of these NO height of the
    # line is known at the first execution (the first known height of the line appears only after another strategy ran)
    late_mode = rng.random() < 0.3
    hdr, cs, rh = head("hdiff", rng, reps=2 if late_mode else None)
    n = rng.randint(2, 6)
    ids = pick_ids(rng, n)
    T = {i: coords(rng) for i in ids}
    consistent = rng.random() < 0.85
    known = {i for i in ids if rng.random() < 0.35} or {rng.choice(ids)}
    if rng.random() < 0.1:
        known = set()
    late = []
    if late_mode:
        if rng.random() < 0.67:
            known = set()
        unk = [i for i in ids if i not in known]
        late = rng.sample(unk, min(len(unk), rng.choice([1, 1, 2])))
    recs = [P(i, T[i], rng.random() < 0.5, i in known, rng.random() < 0.7, rng.random() < 0.9)
            for i in ids if i in known or rng.random() < 0.8]
    order = ids[:]
    rng.shuffle(order)
    pairs = list(zip(order, order[1:])) + [tuple(rng.sample(ids, 2)) for _ in range(rng.randint(0, 2))]
    if rng.random() < 0.3 and len(pairs) > 1:
        pairs.pop(rng.randrange(len(pairs)))             # a broken line: some points stay unreachable
    rng.shuffle(pairs)
    branch = set()
    groups = [[]]
    for a, b in pairs:
        f, t = (a, b) if rng.random() < 0.5 else (b, a)
        v = T[t][2] - T[f][2]
        if not consistent and rng.random() < 0.4:
            v += rng.choice([0.25, -1.0])
        if rng.random() < 0.25:
            groups.append([])
        groups[-1].append(f"hd {f} {t} {H(v)}")
        if (f in known) != (t in known):
            branch.add("from-known" if f in known else "to-known")
    for g in groups:
        if g:
            recs.append("H " + " ".join(g))
    if late:
        # the heights another strategy publishes between the first and the second execution of AcordHdiff
        for i in late:
            recs.append(f"N {i} {H(T[i][2])}")
        branch.add("late-first-height" if not known else "late-height")
    return hdr + " " + " ".join(recs), dict(alg="hdiff", truth=T, consistent=consistent, branches=branch)


def gen_vector(rng):
    hdr, cs, rh = head("vector", rng)
    n = rng.randint(2, 6)
    ids = pick_ids(rng, n)
    T = {i: coords(rng) for i in ids}
    consistent = rng.random() < 0.85
    state = {}
    for i in ids:
        r = rng.random()
        state[i] = (1, 1) if r < 0.3 else (1, 0) if r < 0.45 else (0, 1) if r < 0.6 else (0, 0)
    if not any(s == (1, 1) for s in state.values()) and rng.random() < 0.9:
        state[rng.choice(ids)] = (1, 1)
    recs = [P(i, T[i], state[i][0], state[i][1], rng.random() < 0.9, rng.random() < 0.9)
            for i in ids if state[i] != (0, 0) or rng.random() < 0.8]
    order = ids[:]
    rng.shuffle(order)
    pairs = list(zip(order, order[1:])) + [tuple(rng.sample(ids, 2)) for _ in range(rng.randint(0, 2))]
    if rng.random() < 0.25 and len(pairs) > 1:
        pairs.pop(rng.randrange(len(pairs)))
    rng.shuffle(pairs)
    groups = [[]]
    branch = set()
    first = True
    for a, b in pairs:
        f, t = (a, b) if rng.random() < 0.5 else (b, a)
        d = [T[t][k] - T[f][k] for k in range(3)]
        if not consistent and rng.random() < 0.4:
            d[rng.randrange(3)] += rng.choice([0.5, -2.0])
        comp = [f"dx {f} {t} {H(d[0])}", f"dy {f} {t} {H(d[1])}", f"dz {f} {t} {H(d[2])}"]
        if not first or rng.random() < 0.5:
            rng.shuffle(comp)                           # "the order of vector's elements is not guaranteed"
        first = False
        if rng.random() < 0.25:
            groups.append([])
        groups[-1] += comp
        kf, kt = state[f] == (1, 1), state[t] == (1, 1)
        if kf != kt:
            branch.add("from-known" if kf else "to-known")
    for g in groups:
        if g:
            recs.append("V " + " ".join(g))
    # a point whose xy (or z) alone is known is re-written from the vector: the oracle compares with the truth,
    # which it holds by construction
    return hdr + " " + " ".join(recs), dict(alg="vector", truth=T, consistent=consistent, branches=branch)


def gen_zderived(rng, face2=False):
    hdr, cs, rh = head("zderived", rng)
    nst = rng.choice([1, 1, 2])
    n = rng.randint(2, 5)
    ids = pick_ids(rng, n + nst)
    T = {i: coords(rng) for i in ids}
    stations, targets = ids[:nst], ids[nst:]
    consistent = rng.random() < 0.85
    zknown = {i for i in ids if rng.random() < 0.4}
    mode = rng.random()
    if mode < 0.4:
        zknown |= set(stations)                           # branch B only
    elif mode < 0.8:
        zknown -= set(stations)                           # branch A, then B with the median
        zknown.add(rng.choice(targets))
    xyknown = {i for i in ids if rng.random() < 0.5}
    recs = [P(i, T[i], i in xyknown, i in zknown, rng.random() < 0.8, rng.random() < 0.95)
            for i in ids if i in zknown or i in xyknown or rng.random() < 0.85]
    branch = set()
    same_dh = True
    for s in stations:
        obs = []
        tg = [t for t in ids if t != s and rng.random() < 0.8] or [rng.choice([t for t in ids if t != s])]
        for t in tg:
            use_dh = rng.random() < 0.7
            fdh = rng.uniform(1.2, 1.9) if use_dh else 0.0
            tdh = rng.uniform(0.1, 2.6) if use_dh else 0.0
            h = hd(T[s], T[t])
            dzi = T[t][2] + tdh - (T[s][2] + fdh)
            za = math.atan2(h, dzi)
            if face2 or rng.random() < 0.15:          # second-face reading (reduced by AcordZderived since 50e5b35)
                za = TWO_PI - za
            sd = math.hypot(h, dzi)
            if not consistent and rng.random() < 0.4:
                za += rng.choice([1e-3, -5e-3])
            kinds = rng.choice([("za", "d"), ("za", "sd"), ("za", "d", "sd"), ("za",), ("d",), ("sd",), ("za", "za", "d")])
            for k in kinds:
                if k == "za":
                    obs.append(f"za {s} {t} {H(za)} {H(fdh)} {H(tdh)}")
                elif k == "d":
                    obs.append(f"d {s} {t} {H(h)}")
                else:
                    if rng.random() < 0.1 and use_dh:   # slope distance to a different target height
                        same_dh = False
                        t2 = tdh + 0.3
                        obs.append(f"sd {s} {t} {H(math.hypot(h, T[t][2] + t2 - T[s][2] - fdh))} {H(fdh)} {H(t2)}")
                    else:
                        obs.append(f"sd {s} {t} {H(sd)} {H(fdh)} {H(tdh)}")
            if "za" in kinds and (s in zknown) != (t in zknown):
                branch.add("station-known" if s in zknown else "target-known")
        rng.shuffle(obs)
        if rng.random() < 0.3:
            obs.insert(rng.randrange(len(obs) + 1), f"dir {s} {rng.choice(tg)} {H(rng.uniform(0, 6))}")
        recs.append(f"S {s} " + " ".join(obs))
    return hdr + " " + " ".join(recs), dict(alg="zderived", truth=T, consistent=consistent and same_dh,
                                            branches=branch, face2=face2)



def gen_intersection(rng):
    """AcordIntersection::execute on a small network: known points, 1..3 points without xy, each tied by one of the
    constructions ApproxPoint knows (two outer bearings, bearing + distance, three distances, resection from
    directions / angles at the new point, outer angle, azimuth from a known point, azimuth observed AT the new
    point = the rule of fix 78a600d, slope distance with zenith angle or with heights), later points possibly
    from earlier ones; directions of a stand-point carry a random circle orientation."""
    hdr, cs, rh = head("intersection", rng)
    xn = x_north(cs, rh)
    nk = rng.randint(2, 4)
    nu = rng.choice([1, 1, 2, 2, 3])
    ids = pick_ids(rng, nk + nu)
    known, unknown = ids[:nk], ids[nk:]
    T = {i: coords(rng) for i in ids}
    consistent = rng.random() < 0.8
    bad = lambda v, k: v + rng.choice(k) if (not consistent and rng.random() < 0.35) else v
    ori = {}
    clusters = {}                   # station -> list of records (one stand-point per station)
    branch = set()

    def O(st):
        if st not in ori:
            ori[st] = rng.uniform(0, TWO_PI)
        return ori[st]

    def add(st, rec):
        clusters.setdefault(st, []).append(rec)

    def direction(f, t):
        add(f, f"dir {f} {t} {H(bad((brg(T[f], T[t]) - O(f)) % TWO_PI, [2e-3, -0.05, 1.0]) % TWO_PI)}")

    def distance(a, b):
        f, t = (a, b) if rng.random() < 0.5 else (b, a)
        for _ in range(rng.choice([1, 1, 1, 2])):
            add(f, f"d {f} {t} {H(bad(hd(T[f], T[t]), [0.3, -0.05]))}")

    def orient(st, have):
        # a known station is oriented by at least one direction to another point with coordinates
        others = [k for k in have if k != st]
        for t in rng.sample(others, min(len(others), rng.choice([1, 1, 2]))):
            direction(st, t)

    have = list(known)
    zknown = {i for i in ids if rng.random() < 0.5}
    for x in unknown:
        kinds = ["dirdir", "dirdist", "dist3", "resect", "angles", "outer", "az", "azrev", "sdza", "sdz", "dist2", "dirang"]
        if len(have) < 3:
            kinds = [k for k in kinds if k not in ("dist3", "resect", "angles", "dirang")]
        k = rng.choice(kinds)
        branch.add(k)
        a, b = rng.sample(have, 2)
        if k == "dirdir":
            for s in (a, b):
                orient(s, have); direction(s, x)
        elif k == "dirdist":
            orient(a, have); direction(a, x); distance(b if rng.random() < 0.7 else a, x)
        elif k == "dist3":
            for s in rng.sample(have, 3):
                distance(s, x)
        elif k == "dist2":
            distance(a, x); distance(b, x)
        elif k == "resect":
            for t in rng.sample(have, min(len(have), rng.choice([3, 3, 4]))):
                direction(x, t)
        elif k == "angles":
            tg = rng.sample(have, 3)
            for (p, q) in ((tg[0], tg[1]), (tg[1], tg[2])):
                if rng.random() < 0.3:
                    p, q = q, p
                add(x, f"ang {x} {p} {q} {H(bad((brg(T[x], T[q]) - brg(T[x], T[p])) % TWO_PI, [3e-3, 0.5]) % TWO_PI)}")
            if rng.random() < 0.4:
                direction(x, tg[0]); direction(x, tg[1])
        elif k == "dirang":
            tg = rng.sample(have, 3)
            orient(tg[0], have); direction(tg[0], x)
            add(x, f"ang {x} {tg[1]} {tg[2]} {H((brg(T[x], T[tg[2]]) - brg(T[x], T[tg[1]])) % TWO_PI)}")
        elif k == "outer":
            # an angle observed at a known point between a known point and the new one (either arm) + a distance
            if rng.random() < 0.5:
                add(a, f"ang {a} {b} {x} {H(bad((brg(T[a], T[x]) - brg(T[a], T[b])) % TWO_PI, [0.02]) % TWO_PI)}")
            else:
                add(a, f"ang {a} {x} {b} {H((brg(T[a], T[b]) - brg(T[a], T[x])) % TWO_PI)}")
            distance(rng.choice([a, b]), x)
        elif k == "az":
            add(a, f"az {a} {x} {H(bad((brg(T[a], T[x]) - xn) % TWO_PI, [0.01, 1.0]) % TWO_PI)}")
            distance(rng.choice([a, b]), x)
        elif k == "azrev":
            add(x, f"az {x} {a} {H(bad((brg(T[x], T[a]) - xn) % TWO_PI, [0.01]) % TWO_PI)}")
            if rng.random() < 0.5:
                distance(a, x); distance(b, x)
            else:
                distance(b, x)
                if rng.random() < 0.5:
                    orient(a, have); direction(a, x)
        else:                                           # slope distance: with a zenith angle / with both heights
            orient(a, have); direction(a, x)
            f, t = (a, x) if rng.random() < 0.5 else (x, a)
            # instrument / target heights above the marks (half of the cases): the line of sight runs between them
            fdh, tdh = (rng.uniform(1.2, 1.9), rng.uniform(0.1, 2.6)) if rng.random() < 0.5 else (0.0, 0.0)
            dz = T[t][2] + tdh - (T[f][2] + fdh)
            h = hd(T[f], T[t])
            if k == "sdza":
                add(f, f"sd {f} {t} {H(math.hypot(h, dz))} {H(fdh)} {H(tdh)}")
                add(f, f"za {f} {t} {H(math.atan2(h, dz))} {H(fdh)} {H(tdh)}")
            else:
                zknown |= {f, t}
                add(f, f"sd {f} {t} {H(bad(math.hypot(h, dz), [0.2]))} {H(fdh)} {H(tdh)}")
        if rng.random() < 0.7:
            have.append(x)                              # the next point may be tied to this one
    recs = []
    for i in ids:
        if i in known or rng.random() < 0.8:
            recs.append(P(i, T[i], i in known, i in zknown, 1 if i in unknown else rng.random() < 0.9, rng.random() < 0.6))
    sts = list(clusters)
    rng.shuffle(sts)
    for st in sts:
        obs = clusters[st]
        if rng.random() < 0.5:
            rng.shuffle(obs)
        recs.append(f"S {st} " + " ".join(obs))
    return hdr + " " + " ".join(recs), dict(alg="intersection", truth=T, consistent=consistent, branches=branch)


def gen_acord2(rng):
    """a whole network for Acord2::execute: 2..4 given points, then 2..6 construction stages, each tying a new point (or
    the missing height of an existing one) to points that are known OR will be known after an earlier stage, by a
    construction of ONE strategy: azimuth + distance (AcordAzimuth), levelling (AcordHdiff), zenith angle + distance
    either way (AcordZderived), a vector (AcordVector), distances / directions from oriented stations / resection
    (AcordIntersection), and - rarely - direction + distance from one station (AcordPolar: no model, the case must be
    reported as `acted`).  Exact data only.  The position of a stage's strategy in the list az, hd, zd, vec, polar, ai
    against the stage order decides the number of rounds."""
    cs, rh = rng.randrange(8), rng.randrange(2)
    xn = x_north(cs, rh)
    nk = rng.randint(2, 4)
    ns = rng.randint(2, 6)
    ids = pick_ids(rng, min(len(ID_POOL), nk + ns))
    T = {i: coords(rng) for i in ids}
    known, fresh = ids[:nk], ids[nk:]
    xy = set(known)                                   # points that have / will have xy
    z0 = {i for i in known if rng.random() < 0.6}     # given heights
    if not z0 and rng.random() < 0.8:
        z0 = {rng.choice(known)}
    z = set(z0)
    ori = {}
    st, hds, vecs = {}, [], []
    branch = set()
    want_z = set()

    def O(s):
        if s not in ori:
            ori[s] = rng.uniform(0, TWO_PI)
        return ori[s]

    def add(s, rec):
        st.setdefault(s, []).append(rec)

    def direction(f, t):
        add(f, f"dir {f} {t} {H((brg(T[f], T[t]) - O(f)) % TWO_PI)}")

    def distance(a, b):
        f, t = (a, b) if rng.random() < 0.5 else (b, a)
        add(f, f"d {f} {t} {H(hd(T[f], T[t]))}")

    def orient(s):
        others = [k for k in xy if k != s]
        for t in rng.sample(others, min(len(others), rng.choice([1, 2]))):
            direction(s, t)

    def height(x):
        """a source for the height of x (x has / will have xy unless it is a bench mark)"""
        want_z.add(x)
        kinds = ["hd", "hd", "zd-target", "zd-station", "none"]
        if not z:
            return
        k = rng.choice(kinds)
        if k == "none":
            return
        b = rng.choice(sorted(z))
        if k == "hd":
            # a levelling line b -> (0..2 bench marks without xy) -> x
            line = [b] + [m for m in fresh_marks[:rng.choice([0, 0, 1, 2])]] + [x]
            del fresh_marks[:len(line) - 2]
            for p, q in zip(line, line[1:]):
                f, t = (p, q) if rng.random() < 0.5 else (q, p)
                hds.append(f"hd {f} {t} {H(T[t][2] - T[f][2])}")
            for m in line[1:-1]:
                marks.add(m); z.add(m)
            branch.add("hd-late" if b not in z0 else "hd")
            z.add(x)
            return
        if x not in xy or b not in xy or b == x:
            return
        use_dh = rng.random() < 0.5
        fdh = rng.uniform(1.2, 1.9) if use_dh else 0.0
        tdh = rng.uniform(0.1, 2.6) if use_dh else 0.0
        s, t = (b, x) if k == "zd-target" else (x, b)
        h = hd(T[s], T[t])
        dzi = T[t][2] + tdh - (T[s][2] + fdh)
        za = math.atan2(h, dzi)
        if rng.random() < 0.15:
            za = TWO_PI - za
        add(s, f"za {s} {t} {H(za)} {H(fdh)} {H(tdh)}")
        r = rng.random()
        # slope distances WITH instrument / target heights are drawn again: AcordIntersection::execute reduces them with
        # the heights above the marks since 863dd00 (regression input corpus/C06/acord2-intersection-slope-dh.txt)
        if r < 0.4:
            add(s, f"d {s} {t} {H(h)}")
        elif r < 0.8:
            add(s, f"sd {s} {t} {H(math.hypot(h, dzi))} {H(fdh)} {H(tdh)}")
        branch.add(k + ("-late" if b not in z0 else ""))
        z.add(x)

    marks = set()
    n_marks = rng.choice([0, 0, 1, 2])
    fresh_marks = fresh[len(fresh) - n_marks:] if n_marks else []
    fresh = fresh[:len(fresh) - n_marks] if n_marks else fresh
    for x in known:
        if x not in z0 and rng.random() < 0.5:
            height(x)
    for x in fresh:
        have = sorted(xy)
        kinds = ["dist2", "dist3", "dirdir", "resect", "az", "az", "vec", "polar"] if rng.random() < 0.15 else \
                ["dist2", "dist3", "dirdir", "resect", "az", "az", "vec"]
        if len(have) < 3:
            kinds = [k for k in kinds if k not in ("dist3", "resect")]
        full = [p for p in have if p in z]
        if not full:
            kinds = [k for k in kinds if k != "vec"]
        k = rng.choice(kinds)
        branch.add(k)
        a, b = rng.sample(have, 2)
        if k == "dist2":
            distance(a, x); distance(b, x)
            if len(have) >= 3 and rng.random() < 0.7:      # a third observation for the side
                c = rng.choice([p for p in have if p not in (a, b)])
                if rng.random() < 0.5:
                    distance(c, x)
                else:
                    orient(c); direction(c, x)
        elif k == "dist3":
            for s in rng.sample(have, 3):
                distance(s, x)
        elif k == "dirdir":
            for s in (a, b):
                orient(s); direction(s, x)
        elif k == "resect":
            for t in rng.sample(have, min(len(have), rng.choice([3, 3, 4]))):
                direction(x, t)
        elif k == "az":
            f, t = (a, x) if rng.random() < 0.5 else (x, a)
            add(f, f"az {f} {t} {H((brg(T[f], T[t]) - xn) % TWO_PI)}")
            distance(a, x)
        elif k == "vec":
            b = rng.choice(full)
            f, t = (b, x) if rng.random() < 0.5 else (x, b)
            comp = [f"dx {f} {t} {H(T[t][0] - T[f][0])}", f"dy {f} {t} {H(T[t][1] - T[f][1])}", f"dz {f} {t} {H(T[t][2] - T[f][2])}"]
            vecs.append(comp)
            z.add(x)
        else:                                               # polar: AcordPolar (no model)
            orient(a); direction(a, x); add(a, f"d {a} {x} {H(hd(T[a], T[x]))}")
        xy.add(x)
        if x not in z and rng.random() < 0.6:
            height(x)
    recs = []
    for i in ids:
        if i in known:
            recs.append(P(i, T[i], 1, i in z0, rng.random() < 0.9, 1 if i in want_z else rng.random() < 0.5))
        elif i in marks:
            if rng.random() < 0.85:
                recs.append(P(i, T[i], 0, 0, 0, 1))
        elif i in xy and (rng.random() < 0.85 or i in want_z):
            recs.append(P(i, T[i], 0, 0, 1, 1 if i in want_z else rng.random() < 0.3))
    blocks = []
    for s_, obs in st.items():
        if rng.random() < 0.5:
            rng.shuffle(obs)
        blocks.append(f"S {s_} " + " ".join(obs))
    if hds:
        rng.shuffle(hds)
        g = [[]]
        for h_ in hds:
            if g[-1] and rng.random() < 0.3:
                g.append([])
            g[-1].append(h_)
        blocks += ["H " + " ".join(x) for x in g]
    if vecs:
        g = [[]]
        for c in vecs:
            if g[-1] and rng.random() < 0.3:
                g.append([])
            g[-1] += c
        blocks += ["V " + " ".join(x) for x in g]
    rng.shuffle(blocks)
    return f"acord2 {cs} {rh} " + " ".join(recs + blocks), dict(alg="acord2", truth=T, consistent=True, branches=branch)


GENS = [gen_azimuth, gen_hdiff, gen_vector, gen_zderived, gen_intersection, gen_intersection]


def gen(rng):
    return rng.choice(GENS)(rng)


def check(meta, out, tol=1e-6):
    """oracle on the implementation's own answer: exact observations + true known points => every published
    coordinate is the true one; returns a message or None"""
    from lib.core import hex2float
    if not meta["consistent"]:
        return None
    for l in out:
        t = l.split()
        if t[0] != "pt":
            continue
        tr = meta["truth"][t[1]]
        if t[2] == "1":
            x, y = hex2float(t[3]), hex2float(t[4])
            if abs(x - tr[0]) > tol or abs(y - tr[1]) > tol:
                return f"{meta['alg']}: point {t[1]} xy ({x}, {y}) != true ({tr[0]}, {tr[1]})"
        if t[5] == "1":
            z = hex2float(t[6])
            if abs(z - tr[2]) > tol:
                return f"{meta['alg']}: point {t[1]} z {z} != true {tr[2]}"
    return None
