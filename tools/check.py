#!/usr/bin/env python3
"""Entry point of every registered check:  python3 tools/check.py <ID> [--tier quick|thorough]
   [--seed N] [--replay FILE].   Honours VERIF_SEED / VERIF_TIER.   See DESIGN.md section 2."""
import argparse
import importlib
import json
import os
import sys
from pathlib import Path

sys.path.insert(0, str(Path(__file__).resolve().parent))
from lib import core  # noqa: E402


def main():
    ap = argparse.ArgumentParser()
    ap.add_argument("id")
    ap.add_argument("--tier", default=os.environ.get("VERIF_TIER") or "quick", choices=["quick", "thorough"])
    ap.add_argument("--seed", type=int, default=int(os.environ.get("VERIF_SEED") or 1))
    ap.add_argument("--replay")
    a = ap.parse_args()
    plugin = core.load_plugin(a.id)
    if a.replay:
        payload = json.loads(Path(a.replay).read_text())
        ctx = core.Ctx(plugin.ID, a.tier, payload.get("seed", a.seed))
        if not hasattr(plugin, "replay"):
            print("no replay support for", a.id)
            return 2
        return plugin.replay(ctx, payload)
    return core.run_check(plugin, a.tier, a.seed)


if __name__ == "__main__":
    sys.exit(main())
