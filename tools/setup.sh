#!/bin/bash
# MANIFEST.setup_cmd: see tools/setup.py
cd "$(dirname "$0")/.." && exec python3 tools/setup.py
