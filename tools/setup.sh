#!/bin/bash
# Run once after a fresh restore (offline): builds the Lean project (all models, lemmas,
# property theorems, drivers).  Harnesses are built by the checks themselves from /repo's
# current working tree.
set -e
cd "$(dirname "$0")/../lean"
lake build 2>&1 | tail -5
# every lean_exe driver
for exe in $(grep -A1 '^\[\[lean_exe\]\]' lakefile.toml | sed -n 's/^name = "\(.*\)"/\1/p'); do
  lake build "$exe" 2>&1 | tail -1
done
