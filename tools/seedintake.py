#!/usr/bin/env python3
"""Take in seeded changes produced by independent agents and measure what the registered checks do with them.

  seedintake.py intake <ID> [<ID> …]        copy /tmp/seedout-<ID>/seed{1,2} to seeded/<ID>-seed{1,2}, confirm each
                                           (tools/seedconfirm.py: build, pinned suite, demo with/without the change)
  seedintake.py test <name> [<check> …]    run checks (default: the seed's own property) against seeded/<name>/patch.diff
                                           in a scratch worktree (tools/seedtest.py) and record the outcome in meta.json
                                           under checks_run.runs (appended; the first run of a check is never overwritten)
Everything runs sequentially: translators rewrite lean/Gama/Gen/*.lean, so two checks of one property must not overlap.
"""
import json
import shutil
import subprocess
import sys
import time
from pathlib import Path

V = Path(__file__).resolve().parents[1]


def intake(ids, batch=""):
    """batch "" -> /tmp/seedout-<ID>/seed{1,2} become <ID>-seed{1,2}; batch "B" -> /tmp/seedoutB-<ID>/seed{1,2} become <ID>-seed{3,4}"""
    off = {"": 0, "B": 2, "C": 4}[batch]
    for pid in ids:
        for n in (1, 2):
            src = Path(f"/tmp/seedout{batch}-{pid}/seed{n}")
            if not (src / "patch.diff").exists():
                print("missing", src)
                continue
            dst = V / "seeded" / f"{pid}-seed{n + off}"
            if dst.exists():
                shutil.rmtree(dst)
            shutil.copytree(src, dst, ignore=shutil.ignore_patterns("*.log", "ctest*", "_b", "*.o", "bin", "__pycache__"))
            for f in dst.rglob("*"):       # no build products / large files
                if f.is_file() and (f.stat().st_size > 400_000 or (f.suffix == "" and f.read_bytes()[:4] == b"\x7fELF")):
                    f.unlink()
            r = subprocess.run(["python3", str(V / "tools/seedconfirm.py"), str(dst)], capture_output=True, text=True)
            print(r.stdout.strip()[-400:], r.stderr.strip()[-300:], flush=True)
            c = json.loads((dst / "confirm.json").read_text()) if (dst / "confirm.json").exists() else {}
            m = json.loads((dst / "meta.json").read_text())
            m["confirmed_by_lead"] = {"worktree": "scratch worktree of /repo HEAD (tools/seedconfirm.py)",
                                      "suite_with_seed": c.get("suite"), "demo_without_seed_rc": (c.get("demo_without_seed") or {}).get("rc"),
                                      "demo_with_seed_rc": (c.get("demo_with_seed") or {}).get("rc"), "confirmed": c.get("confirmed")}
            (dst / "meta.json").write_text(json.dumps(m, indent=1))


def test(name, checks, tier="quick"):
    d = V / "seeded" / name
    m = json.loads((d / "meta.json").read_text())
    checks = checks or [m.get("property") or name[:3]]
    r = subprocess.run(["python3", str(V / "tools/seedtest.py"), str(d / "patch.diff")] + checks + (["--tier=thorough"] if tier == "thorough" else []),
                       capture_output=True, text=True, cwd=V)
    cr = m.setdefault("checks_run", {"how": "tools/seedtest.py <patch.diff> <ID…> (patch applied in a scratch worktree, GAMA_REPO=<worktree>)",
                                     "caught_by": {}, "missed_by_first_run": []})
    cr.setdefault("caught_by", {})
    cr.setdefault("missed_by_first_run", [])
    runs = cr.setdefault("runs", [])
    for l in r.stdout.splitlines():
        try:
            j = json.loads(l)
        except ValueError:
            continue
        if "check" not in j:
            print(l)
            continue
        pid = j["check"]
        caught = j["rc"] != 0 and bool(j["violation"])
        desc = ("no-failing-input-found: " if j.get("no_failing_input") else "failing input: ") + str(j.get("what"))[:200] if caught else "not detected"
        first = not any(x["check"] == pid for x in runs) and pid not in cr["caught_by"] and not any(s.startswith(pid) for s in cr["missed_by_first_run"])
        runs.append({"check": pid, "tier": tier, "when": time.strftime("%Y-%m-%d %H:%M"), "verif_commit": subprocess.run(
            ["git", "-C", str(V), "rev-parse", "--short", "HEAD"], capture_output=True, text=True).stdout.strip(),
            "caught": caught, "result": desc, "wall_s": j.get("wall_s")})
        if caught:
            cr["caught_by"][pid] = desc
        elif first:
            cr["missed_by_first_run"].append(f"{pid} (first run)")
        print(name, pid, "CAUGHT" if caught else "missed", desc[:160], f"{j.get('wall_s')}s", flush=True)
    if r.returncode not in (0,):
        print(r.stdout[-500:], r.stderr[-500:])
    (d / "meta.json").write_text(json.dumps(m, indent=1))


if __name__ == "__main__":
    if sys.argv[1] == "intake":
        b = [x[len("--batch="):] for x in sys.argv[2:] if x.startswith("--batch=")]
        intake([x for x in sys.argv[2:] if not x.startswith("--")], b[0] if b else "")
    elif sys.argv[1] == "test":
        tier = "thorough" if "--thorough" in sys.argv else "quick"
        a = [x for x in sys.argv[2:] if not x.startswith("--")]
        test(a[0], a[1:], tier)
