#!/usr/bin/env python3
"""merge checks_run.runs recorded in a test copy (default /root/vt/seeded) back into /verif/seeded/*/meta.json"""
import json, sys
from pathlib import Path
src = Path(sys.argv[1] if len(sys.argv) > 1 else "/root/vt/seeded")
dst = Path(__file__).resolve().parents[1] / "seeded"
n = 0
for d in sorted(src.glob("*/meta.json")):
    t = dst / d.parent.name / "meta.json"
    if not t.exists():
        continue
    a, b = json.loads(d.read_text()), json.loads(t.read_text())
    ra = a.get("checks_run", {}).get("runs", [])
    cb = b.setdefault("checks_run", {"how": "tools/seedtest.py", "caught_by": {}, "missed_by_first_run": []})
    rb = cb.setdefault("runs", [])
    keys = {(r["check"], r["when"], r["verif_commit"], r["caught"]) for r in rb}
    add = [r for r in ra if (r["check"], r["when"], r["verif_commit"], r["caught"]) not in keys]
    if add:
        rb.extend(add)
        rb.sort(key=lambda r: r["when"])
        for r in add:
            if r["caught"]:
                cb.setdefault("caught_by", {})[r["check"]] = r["result"]
        for m in a.get("checks_run", {}).get("missed_by_first_run", []):
            if m not in cb.setdefault("missed_by_first_run", []) and not any(x["check"] == m.split()[0] and x["caught"] for x in rb if x["when"] < min((y["when"] for y in ra if y["check"] == m.split()[0]), default="9")):
                cb["missed_by_first_run"].append(m)
        t.write_text(json.dumps(b, indent=1))
        n += len(add)
print("merged", n, "runs")
