"""
Shared generator of gama-local input networks (.gkf) from TRUE coordinates.

Used by the network-level searches/oracles (C02, C06, C07, C08, C09, C12, C13, C14, C20).
Everything is derived from the `random.Random` passed in, so cases replay exactly.

Conventions (gama defaults): axes-xy="ne", angles="left-handed"; bearing(a,b) = atan2(dy, dx)
normalised to [0, 2pi); direction = bearing - orientation(station) (mod 400 gon);
angle(from; bs, fs) = bearing(from,fs) - bearing(from,bs) (mod 400 gon);
zenith angle = acos(dz / s) with dz including target/instrument heights; units: metres, gon.

A network is a plain dict (JSON-serialisable):
  {"dim": 2|3, "points": {id: {"x":..,"y":..,"z":.., "status": "fix"|"adj"|"con"|"none",
                               "approx": True|False}},
   "obs": [ {"kind":"obs","from":id,"orient":gon, "items":[{"t":"direction","to":id,"val":..,"stdev":..}, …]},
            {"kind":"hdiffs","items":[{"from":..,"to":..,"val":..,"stdev":..}]},
            {"kind":"vectors","items":[{"from","to","dx","dy","dz"}], "cov": [[…]] | None},
            {"kind":"coords","items":[{"id","x","y","z"}], "cov": …} ],
   "params": {"sigma-apr":…, "conf-pr":…, "tol-abs":…, "sigma-act":…} }
"""
import math

GON = 200.0 / math.pi


def bearing(p, q):
    b = math.atan2(q["y"] - p["y"], q["x"] - p["x"])
    return b % (2 * math.pi)


def dist2(p, q):
    return math.hypot(q["x"] - p["x"], q["y"] - p["y"])


def dist3(p, q, dh=0.0):
    return math.sqrt((q["x"] - p["x"]) ** 2 + (q["y"] - p["y"]) ** 2 + (q.get("z", 0) - p.get("z", 0) + dh) ** 2)


def fmt(v, nd=10):
    return f"{v:.{nd}f}"


def xml_escape_attr(s):
    return (s.replace("&", "&amp;").replace("<", "&lt;").replace(">", "&gt;")
            .replace('"', "&quot;").replace("'", "&apos;"))


def random_points(rng, n, dim=2, scale=1000.0, origin=(0.0, 0.0, 0.0), ids=None):
    """n points on a jittered grid (no coincident / nearly collinear degenerate clusters)"""
    pts = {}
    side = int(math.ceil(math.sqrt(n)))
    cells = [(i, j) for i in range(side) for j in range(side)]
    rng.shuffle(cells)
    for k in range(n):
        i, j = cells[k]
        pid = ids[k] if ids else f"P{k + 1}"
        p = {"x": origin[0] + (i + 0.15 + 0.7 * rng.random()) * scale / side,
             "y": origin[1] + (j + 0.15 + 0.7 * rng.random()) * scale / side}
        if dim == 3:
            p["z"] = origin[2] + rng.uniform(0, scale / 10)
        pts[pid] = p
    return pts


def make_network(rng, npts=6, dim=2, nfixed=2, kinds=("direction", "distance"), density=0.6,
                 noise=0.0, free=False, constrained=None, origin=(0.0, 0.0, 0.0), scale=1000.0,
                 stdev_dir=10.0, stdev_dist=5.0, heights=False):
    """A determined network: every station observes a random subset (>=2 targets, biased to all)
    of the other points with the requested observation kinds.  noise = relative size of gaussian
    errors in units of the stdev (0 => exactly consistent observations)."""
    pts = random_points(rng, npts, dim, scale, origin)
    ids = list(pts)
    for k, pid in enumerate(ids):
        pts[pid]["status"] = "fix" if (k < nfixed and not free) else "adj"
        pts[pid]["approx"] = True
    if free:
        cons = constrained if constrained is not None else ids
        for pid in cons:
            pts[pid]["status"] = "con"
    obs = []

    def err(sd):
        return rng.gauss(0, sd) * noise if noise else 0.0

    for s in ids:
        others = [t for t in ids if t != s]
        k = max(2, sum(1 for _ in others if rng.random() < density))
        targets = rng.sample(others, min(k, len(others)))
        items = []
        orient = rng.uniform(0, 400)
        idh = rng.uniform(1.2, 1.8) if heights else 0.0
        for t in targets:
            tdh = rng.uniform(1.0, 2.0) if heights else 0.0
            if "direction" in kinds:
                v = (bearing(pts[s], pts[t]) * GON - orient + err(stdev_dir / 1e4)) % 400.0
                items.append({"t": "direction", "to": t, "val": v, "stdev": stdev_dir})
            if "distance" in kinds:
                items.append({"t": "distance", "to": t, "val": dist2(pts[s], pts[t]) + err(stdev_dist / 1e3),
                              "stdev": stdev_dist})
            if dim == 3 and "s-distance" in kinds:
                it = {"t": "s-distance", "to": t, "val": dist3(pts[s], pts[t], tdh - idh) + err(stdev_dist / 1e3),
                      "stdev": stdev_dist}
                if heights:
                    it["from_dh"], it["to_dh"] = idh, tdh
                items.append(it)
            if dim == 3 and "z-angle" in kinds:
                dz = pts[t]["z"] - pts[s]["z"] + tdh - idh
                sd = dist3(pts[s], pts[t], tdh - idh)
                it = {"t": "z-angle", "to": t, "val": math.acos(dz / sd) * GON + err(stdev_dir / 1e4),
                      "stdev": stdev_dir}
                if heights:
                    it["from_dh"], it["to_dh"] = idh, tdh
                items.append(it)
            if "azimuth" in kinds:
                items.append({"t": "azimuth", "to": t, "val": (bearing(pts[s], pts[t]) * GON + err(stdev_dir / 1e4)) % 400.0,
                              "stdev": stdev_dir})
        if "angle" in kinds and len(targets) >= 2:
            for a, b in zip(targets, targets[1:]):
                v = ((bearing(pts[s], pts[b]) - bearing(pts[s], pts[a])) * GON + err(stdev_dir / 1e4)) % 400.0
                items.append({"t": "angle", "bs": a, "fs": b, "val": v, "stdev": stdev_dir})
        obs.append({"kind": "obs", "from": s, "orient": orient, "items": items})
    if dim == 3 and "dh" in kinds:
        items = []
        for a, b in zip(ids, ids[1:] + ids[:1]):
            items.append({"from": a, "to": b, "val": pts[b]["z"] - pts[a]["z"] + err(1e-3), "stdev": 1.0})
        obs.append({"kind": "hdiffs", "items": items})
    if dim == 3 and "vector" in kinds:
        items = []
        for a, b in zip(ids, ids[1:]):
            items.append({"from": a, "to": b, "dx": pts[b]["x"] - pts[a]["x"] + err(1e-3),
                          "dy": pts[b]["y"] - pts[a]["y"] + err(1e-3), "dz": pts[b]["z"] - pts[a]["z"] + err(1e-3)})
        obs.append({"kind": "vectors", "items": items, "cov": None})
    return {"dim": dim, "points": pts, "obs": obs,
            "params": {"sigma-apr": 10, "conf-pr": 0.95, "tol-abs": 1000, "sigma-act": "aposteriori"}}


def levelling_network(rng, npts=6, nfixed=1, extra=3, noise=0.0, free=False):
    ids = [f"H{k + 1}" for k in range(npts)]
    pts = {pid: {"z": rng.uniform(100, 300), "status": ("fix" if (k < nfixed and not free) else ("con" if free else "adj")),
                 "approx": True} for k, pid in enumerate(ids)}
    items = []
    pairs = list(zip(ids, ids[1:]))
    while len(pairs) < npts - 1 + extra:
        a, b = rng.sample(ids, 2)
        pairs.append((a, b))
    for a, b in pairs:
        d = rng.uniform(0.2, 3.0)
        items.append({"from": a, "to": b, "val": pts[b]["z"] - pts[a]["z"] + (rng.gauss(0, 1e-3) * noise if noise else 0.0),
                      "dist": d})
    return {"dim": 1, "points": pts, "obs": [{"kind": "hdiffs", "items": items}],
            "params": {"sigma-apr": 10, "conf-pr": 0.95, "tol-abs": 1000, "sigma-act": "aposteriori"}}


def _cov_xml(cov, band=None):
    n = len(cov)
    if band is None:
        band = n - 1
    rows = []
    for i in range(n):
        rows.append(" ".join(repr(float(cov[i][j])) for j in range(i, min(n, i + band + 1))))
    return f'<cov-mat dim="{n}" band="{band}">\n' + "\n".join(rows) + "\n</cov-mat>\n"


def to_gkf(net, nd=10, axes=None, angles=None, description="generated", algorithm=None, extra_params=None):
    dim = net["dim"]
    out = ['<?xml version="1.0" ?>', '<gama-local xmlns="http://www.gnu.org/software/gama/gama-local">']
    na = ""
    if axes:
        na += f' axes-xy="{axes}"'
    if angles:
        na += f' angles="{angles}"'
    out.append(f"<network{na}>")
    out.append(f"<description>{xml_escape_attr(description)}</description>")
    par = dict(net.get("params", {}))
    if extra_params:
        par.update(extra_params)
    if algorithm:
        par["algorithm"] = algorithm
    out.append("<parameters " + " ".join(f'{k}="{v}"' for k, v in par.items()) + " />")
    out.append("<points-observations>")
    for pid, p in net["points"].items():
        a = f'<point id="{xml_escape_attr(pid)}"'
        if p.get("approx", True) or p["status"] == "fix":
            if "x" in p:
                a += f' x="{fmt(p["x"], nd)}" y="{fmt(p["y"], nd)}"'
            if "z" in p:
                a += f' z="{fmt(p["z"], nd)}"'
        what = ("xy" if "x" in p else "") + ("z" if "z" in p else "")
        st = p["status"]
        if st == "fix":
            a += f' fix="{what}"'
        elif st == "adj":
            a += f' adj="{what}"'
        elif st == "con":
            a += f' adj="{what.upper()}"'
        out.append(a + " />")
    for o in net["obs"]:
        if o["kind"] == "obs":
            out.append(f'<obs from="{xml_escape_attr(o["from"])}">')
            for it in o["items"]:
                t = it["t"]
                a = f"<{t}"
                for k in ("to", "bs", "fs"):
                    if k in it:
                        a += f' {k}="{xml_escape_attr(it[k])}"'
                a += f' val="{fmt(it["val"], nd)}"'
                if "stdev" in it:
                    a += f' stdev="{it["stdev"]}"'
                for k in ("from_dh", "to_dh", "bs_dh", "fs_dh"):
                    if k in it:
                        a += f' {k}="{fmt(it[k], nd)}"'
                out.append(a + " />")
            if o.get("cov"):
                out.append(_cov_xml(o["cov"], o.get("band")))
            out.append("</obs>")
        elif o["kind"] == "hdiffs":
            out.append("<height-differences>")
            for it in o["items"]:
                a = f'<dh from="{xml_escape_attr(it["from"])}" to="{xml_escape_attr(it["to"])}" val="{fmt(it["val"], nd)}"'
                if "stdev" in it:
                    a += f' stdev="{it["stdev"]}"'
                if "dist" in it:
                    a += f' dist="{fmt(it["dist"], 6)}"'
                out.append(a + " />")
            if o.get("cov"):
                out.append(_cov_xml(o["cov"], o.get("band")))
            out.append("</height-differences>")
        elif o["kind"] == "vectors":
            out.append("<vectors>")
            for it in o["items"]:
                out.append(f'<vec from="{xml_escape_attr(it["from"])}" to="{xml_escape_attr(it["to"])}" '
                           f'dx="{fmt(it["dx"], nd)}" dy="{fmt(it["dy"], nd)}" dz="{fmt(it["dz"], nd)}" />')
            n = 3 * len(o["items"])
            cov = o.get("cov") or [[1.0 if i == j else 0.0 for j in range(n)] for i in range(n)]
            out.append(_cov_xml(cov, o.get("band", 0 if not o.get("cov") else None)))
            out.append("</vectors>")
        elif o["kind"] == "coords":
            out.append("<coordinates>")
            for it in o["items"]:
                a = f'<point id="{xml_escape_attr(it["id"])}"'
                for k in ("x", "y", "z"):
                    if k in it:
                        a += f' {k}="{fmt(it[k], nd)}"'
                out.append(a + " />")
            out.append(_cov_xml(o["cov"], o.get("band")))
            out.append("</coordinates>")
    out += ["</points-observations>", "</network>", "</gama-local>", ""]
    return "\n".join(out)


# ---- reading gama-local's adjustment XML (small, regex based; enough for oracles) ----
import re


def parse_result_xml(text):
    """returns dict with adjusted coordinates {id:{x,y,z}}, fixed coordinates, observations residuals,
    sum_of_squares, defect, dof, m0 (aposteriori), removed/err status"""
    res = {"adjusted": {}, "fixed": {}, "obs": [], "raw": None}

    def num(tag, blk):
        m = re.search(rf"<{tag}>\s*([^<\s]+)\s*</{tag}>", blk)
        return float(m.group(1)) if m else None

    for sect, key in (("adjusted", "adjusted"), ("fixed", "fixed")):
        m = re.search(rf"<{sect}>(.*?)</{sect}>", text, re.S)
        if m:
            for pm in re.finditer(r"<point>(.*?)</point>", m.group(1), re.S):
                blk = pm.group(1)
                pid = re.search(r"<id>(.*?)</id>", blk, re.S).group(1).strip()
                d = {}
                for c in ("x", "y", "z", "X", "Y", "Z"):
                    v = num(c, blk)
                    if v is not None:
                        d[c.lower()] = v
                res[key][pid] = d
    res["sum_of_squares"] = num("sum-of-squares", text)
    res["defect"] = num("defect", text)
    res["dof"] = num("degrees-of-freedom", text)
    m = re.search(r"<standard-deviation>(.*?)</standard-deviation>", text, re.S)
    if m:
        res["m0_apost"] = num("aposteriori", m.group(1))
        res["m0_apr"] = num("apriori", m.group(1))
    mo = re.search(r"<observations>(.*?)</observations>", text, re.S)
    if mo:
        for om in re.finditer(r"<(direction|distance|angle|slope-distance|zenith-angle|azimuth|dh|dx|dy|dz|coordinate-x|coordinate-y|coordinate-z)>(.*?)</\1>", mo.group(1), re.S):
            blk = om.group(2)
            d = {"t": om.group(1)}
            for k in ("from", "to", "left", "right"):
                mm = re.search(rf"<{k}>(.*?)</{k}>", blk, re.S)
                if mm:
                    d[k] = mm.group(1).strip()
            for k in ("obs", "adj", "stdev", "qrr", "f", "std-residual", "err-obs", "err-adj"):
                v = num(k, blk)
                if v is not None:
                    d[k] = v
            res["obs"].append(d)
    return res
