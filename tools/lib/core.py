"""
Shared machinery for every property check (see DESIGN.md section 2).

A property plugin (tools/props/cXX.py) declares what must be proved and how the
model is tied to /repo's current working tree; this module runs the pipeline

  translate -> prove (lake build + axiom/forbidden-token audit) -> build harness
  -> correspond (+ property oracle on the implementation) -> decide -> evidence

and owns the VIOLATION / KNOWN-FINDING protocol.
"""
import hashlib
import json
import os
import random
import re
import shutil
import subprocess
import sys
import time
from fractions import Fraction
from pathlib import Path

VERIF = Path(__file__).resolve().parents[2]
REPO = Path(os.environ.get("GAMA_REPO", "/repo"))
LEAN = VERIF / "lean"
BUILD = VERIF / "build"
GUARD = "GAMA_VERIF"
ALLOWED_AXIOMS = {"propext", "Classical.choice", "Quot.sound"}
FORBIDDEN = re.compile(
    r"\bsorry\b|\badmit\b|^\s*axiom\s|native_decide|bv_decide|implemented_by|\bunsafe\s|maxHeartbeats\s+0\b",
    re.M)
CXXFLAGS = ["-std=c++14", "-O1", "-g", "-fsanitize=address,undefined",
            "-fno-sanitize-recover=all", "-fno-omit-frame-pointer", "-D" + GUARD]

BASE_TRUSTED = [
    "Lean 4.33.0 kernel (thorough tier: re-checked with leanchecker)",
    "axioms allowed: propext, Classical.choice, Quot.sound (audited with #print axioms on every run)",
    "Mathlib v4.33.0 definitions used in statements",
    "statements in lean/Gama/Props/*.lean as the meaning of the property",
    "tie to the code: translators / correspondence harness, generators, comparator tolerances (tools/, harness/)",
    "g++ 12, ASan/UBSan runtime, Lean compiler+runtime for executing models (Float = C double)",
]


class Broken:
    """a proof obligation, audit rule, translator or correspondence stream that no longer checks"""

    def __init__(self, kind, name, detail=""):
        self.kind, self.name, self.detail = kind, name, detail

    def to_json(self):
        return {"kind": self.kind, "name": self.name, "detail": self.detail[-4000:]}

    def __repr__(self):
        return f"{self.kind}:{self.name}"


class Failure:
    """a concrete input / history on which the property fails on the implementation"""

    def __init__(self, what, replay, site="", detail=""):
        self.what, self.replay, self.site, self.detail = what, replay, site, detail

    def to_json(self):
        return {"what": self.what, "site": self.site, "detail": self.detail[-4000:], "input": self.replay}


class Corr:
    """what the correspondence / oracle step covered and found"""

    def __init__(self):
        self.evaluations = 0
        self.nontrivial = set()
        self.rule = ""
        self.samples = []
        self.disagreements = []   # (stream, case, impl, model, why)
        self.failures = []        # Failure
        self.stats = {}
        self.inconclusive = []    # strings: generator thresholds not met

    def case(self, key=None, sample=None):
        self.evaluations += 1
        if key is not None:
            self.nontrivial.add(key)
        if sample is not None and len(self.samples) < 5:
            self.samples.append(sample)

    def count(self, k, n=1):
        self.stats[k] = self.stats.get(k, 0) + n

    def maxstat(self, k, v):
        if v > self.stats.get(k, 0):
            self.stats[k] = v

    def disagree(self, stream, case, impl, model, why=""):
        self.disagreements.append({"stream": stream, "case": case, "impl": impl, "model": model, "why": why})

    def fail(self, what, replay, site="", detail=""):
        self.failures.append(Failure(what, replay, site, detail))


def sh(cmd, cwd=None, timeout=None, inp=None, env=None):
    e = dict(os.environ)
    e.setdefault("ASAN_OPTIONS", "detect_leaks=0:abort_on_error=0:exitcode=86")
    e.setdefault("UBSAN_OPTIONS", "print_stacktrace=1:halt_on_error=1:exitcode=87")
    if env:
        e.update(env)
    p = subprocess.run(cmd, cwd=cwd, input=inp, capture_output=True, text=True, timeout=timeout, env=e,
                       errors="replace")
    return p.returncode, p.stdout, p.stderr


def sha(*parts):
    h = hashlib.sha256()
    for p in parts:
        h.update(p if isinstance(p, bytes) else str(p).encode())
        h.update(b"\0")
    return h.hexdigest()[:16]


class Ctx:
    def __init__(self, prop_id, tier, seed):
        self.id, self.tier, self.seed = prop_id, tier, seed
        self.rng = random.Random(f"{prop_id}-{seed}")
        self.verif, self.repo, self.lean, self.build = VERIF, REPO, LEAN, BUILD
        self.t0 = time.time()
        self.notes = []
        BUILD.mkdir(exist_ok=True)
        self.thorough = tier == "thorough"

    def log(self, *a):
        print(f"[{self.id} {time.time() - self.t0:6.1f}s]", *a, flush=True)

    def size(self, quick, thorough):
        return thorough if self.thorough else quick

    # ---------------------------------------------------------------- Lean
    def lake_build(self, targets):
        rc, out, err = sh(["lake", "build"] + list(targets), cwd=LEAN, timeout=3600)
        return rc == 0, out + err

    def driver(self, name):
        return LEAN / ".lake" / "build" / "bin" / name

    def leanchecker(self, module):
        rc, out, err = sh(["lake", "env", "leanchecker", module], cwd=LEAN, timeout=3600)
        return rc == 0, out + err

    # ---------------------------------------------------------------- C++
    def build_cpp(self, name, sources, flags=(), libs=(), includes=()):
        """compile a harness against /repo's working tree; cached by content hash of all deps"""
        srcs = [str(s) for s in sources]
        inc = ["-I" + str(REPO / "lib")] + ["-I" + str(i) for i in includes]
        base = ["g++"] + CXXFLAGS + list(flags) + inc
        rc, out, err = sh(base + ["-MM"] + srcs, timeout=600)
        if rc != 0:
            raise BuildError(name, err)
        deps = sorted(set(t for t in out.replace("\\\n", " ").split() if not t.endswith(":")))
        h = hashlib.sha256(" ".join(base + list(libs)).encode())
        for d in deps:
            try:
                h.update(Path(d).read_bytes())
            except OSError:
                pass
        exe = BUILD / f"{name}-{h.hexdigest()[:16]}"
        if not exe.exists():
            olds = sorted((o for o in BUILD.glob(f"{name}-*") if o.is_file() and ".tmp" not in o.name),
                          key=lambda o: o.stat().st_mtime)
            for old in olds[:-3]:
                try:
                    old.unlink()
                except OSError:
                    pass
            tmp = str(exe) + ".tmp%d" % os.getpid()
            if len(srcs) > 3:      # compile translation units in parallel
                objs, procs = [], []
                odir = BUILD / f"obj-{name}-{os.getpid()}"
                odir.mkdir(exist_ok=True)
                for s in srcs:
                    o = odir / (sha(s) + ".o")
                    objs.append(str(o))
                    procs.append(subprocess.Popen(base + ["-c", s, "-o", str(o)], stderr=subprocess.PIPE, text=True))
                errs = [p.communicate()[1] for p in procs]
                if any(p.returncode for p in procs):
                    shutil.rmtree(odir, ignore_errors=True)
                    raise BuildError(name, "\n".join(errs))
                rc, out, err = sh(["g++"] + CXXFLAGS + objs + ["-o", tmp] + list(libs), timeout=1800)
                shutil.rmtree(odir, ignore_errors=True)
            else:
                rc, out, err = sh(base + srcs + ["-o", tmp] + list(libs), timeout=1800)
            if rc != 0:
                raise BuildError(name, err)
            os.replace(tmp, exe)
        return exe

    def tree_hash(self):
        h = hashlib.sha256()
        for sub in ("lib", "src", "CMakeLists.txt", "xml"):
            p = REPO / sub
            files = [p] if p.is_file() else sorted(q for q in p.rglob("*") if q.is_file())
            for f in files:
                h.update(str(f.relative_to(REPO)).encode())
                h.update(f.read_bytes())
        return h.hexdigest()[:16]

    def gama_dir(self, sanitize=True):
        """build directory of the executables for the current tree and source directory"""
        tag = "san" if sanitize else "rel"
        return BUILD / f"gama-{tag}-{sha(self.tree_hash(), str(REPO.resolve()))}"

    def build_gama(self, sanitize=True, targets=("gama-local", "gama-g3", "compare-xyz", "gama-local-deformation")):
        """CMake build of the executables from the current tree (guard on); cached per tree hash"""
        tag = "san" if sanitize else "rel"
        # keyed by the tree content AND the source directory: a CMake cache records its source path, so a scratch
        # worktree and /repo with identical content must not share a build directory
        d = self.gama_dir(sanitize)
        stamp = d / ".ok"
        want = [d / t for t in targets]
        if stamp.exists() and all(w.exists() for w in want):
            return d
        # keep the few most recent trees (several checks / scratch worktrees may build concurrently)
        olds = sorted((o for o in BUILD.glob(f"gama-{tag}-*") if o != d), key=lambda o: o.stat().st_mtime)
        for old in olds[:-3]:
            if time.time() - old.stat().st_mtime > 1800:
                shutil.rmtree(old, ignore_errors=True)
        d.mkdir(parents=True, exist_ok=True)
        import fcntl
        lock = open(str(d) + ".lock", "w")
        fcntl.flock(lock, fcntl.LOCK_EX)       # one builder per tree; others wait and then find the stamp
        try:
            return self._build_gama_locked(d, stamp, want, sanitize, targets)
        finally:
            fcntl.flock(lock, fcntl.LOCK_UN)
            lock.close()

    def _build_gama_locked(self, d, stamp, want, sanitize, targets):
        if stamp.exists() and all(w.exists() for w in want):
            return d
        cxx = f"-D{GUARD} -g -O1" + (" -fsanitize=address,undefined -fno-sanitize-recover=all -fno-omit-frame-pointer" if sanitize else "")
        cmake_cmd = (["cmake", "-G", "Ninja", "-S", str(REPO), "-B", str(d), "-DCMAKE_BUILD_TYPE=None",
                      f"-DCMAKE_CXX_FLAGS={cxx}", f"-DCMAKE_C_FLAGS=-O1"
                      + (" -fsanitize=address,undefined" if sanitize else ""),
                      ] + ([f"-DCMAKE_EXE_LINKER_FLAGS=-fsanitize=address,undefined"] if sanitize else []))
        rc, out, err = sh(cmake_cmd, timeout=600)
        if rc != 0 and "does not match the source" in (out + err):     # stale cache of another source directory
            shutil.rmtree(d, ignore_errors=True)
            d.mkdir(parents=True, exist_ok=True)
            rc, out, err = sh(cmake_cmd, timeout=600)
        if rc != 0:
            raise BuildError("cmake", out + err)
        rc, out, err = sh(["cmake", "--build", str(d), "-j16", "--target"] + list(targets), timeout=3600)
        if rc != 0:
            raise BuildError("gama", (out + err)[-6000:])
        stamp.write_text("ok")
        return d


class BuildError(Exception):
    def __init__(self, name, log):
        super().__init__(f"build of {name} failed")
        self.name, self.log = name, log


class TieBroken(Exception):
    """raised by a translator that can no longer read the code"""

    def __init__(self, name, detail=""):
        super().__init__(name)
        self.name, self.detail = name, detail


# -------------------------------------------------------------------- protocol

def hex2float(tok):
    import struct
    return struct.unpack(">d", bytes.fromhex(tok[2:].rjust(16, "0")))[0]


def float2hex(x):
    import struct
    return "0x" + struct.pack(">d", float(x)).hex()


def is_hex(tok):
    return len(tok) == 18 and tok.startswith("0x")


_ratre = re.compile(r"^-?\d+(/\d+)?$")


def tok_equal(a, b, rtol=0.0, atol=0.0):
    """compare one implementation token `a` with one model token `b`"""
    if a == b:
        return True
    if is_hex(a) and is_hex(b):
        x, y = hex2float(a), hex2float(b)
        if x != x and y != y:
            return True
        if x == y:
            return True          # +0 / -0
        if rtol == 0 and atol == 0:
            return False
        if x != x or y != y or abs(x) == float("inf") or abs(y) == float("inf"):
            return False
        return abs(x - y) <= atol + rtol * max(abs(x), abs(y))
    if is_hex(a) and _ratre.match(b):
        x = hex2float(a)
        if x != x or abs(x) == float("inf"):
            return False
        q = Fraction(b)
        return abs(Fraction(x) - q) <= Fraction(atol) + Fraction(rtol) * abs(q)
    return False


def lines_equal(impl, model, rtol=0.0, atol=0.0):
    ta, tb = impl.split(), model.split()
    if len(ta) != len(tb):
        return False
    return all(tok_equal(x, y, rtol, atol) for x, y in zip(ta, tb))


def run_proc(exe, text, timeout=600, args=()):
    rc, out, err = sh([str(exe)] + list(args), inp=text, timeout=timeout)
    return rc, out.splitlines(), err


def run_cases(exe, cases, timeout=900, args=()):
    """Feed `cases` (list of list-of-lines) to a line-protocol process.  Each case is
    preceded by `case <i>` which the process must echo as `case <i>`.  Returns
    (outputs per case, crashes) where crashes maps case index -> (rc, stderr).
    A process that dies is restarted after the offending case."""
    outs = [None] * len(cases)
    crashes = {}
    start = 0
    while start < len(cases):
        text = "".join(f"case {i}\n" + "".join(l + "\n" for l in cases[i]) for i in range(start, len(cases)))
        try:
            rc, lines, err = run_proc(exe, text, timeout=timeout, args=args)
        except subprocess.TimeoutExpired:
            crashes[start] = (-9, "timeout")
            outs[start] = ["<timeout>"]
            start += 1
            continue
        cur = None
        for l in lines:
            if l.startswith("case "):
                cur = int(l.split()[1])
                outs[cur] = []
            elif cur is not None:
                outs[cur].append(l)
        if rc == 0:
            break
        last = cur if cur is not None else start
        crashes[last] = (rc, err[-3000:])
        (outs[last] if outs[last] is not None else []).append(f"<crash rc={rc}>")
        if outs[last] is None:
            outs[last] = [f"<crash rc={rc}>"]
        start = last + 1
    return [o if o is not None else [] for o in outs], crashes


def ddmin(items, still_fails, max_tests=400):
    """delta debugging over a list; returns a smaller list on which still_fails holds"""
    n, tests = 2, 0
    items = list(items)
    while len(items) >= 2 and tests < max_tests:
        chunk = max(1, len(items) // n)
        reduced = False
        for i in range(0, len(items), chunk):
            cand = items[:i] + items[i + chunk:]
            tests += 1
            if cand and still_fails(cand):
                items, n, reduced = cand, max(n - 1, 2), True
                break
        if not reduced:
            if chunk == 1:
                break
            n = min(len(items), n * 2)
    return items


# -------------------------------------------------------------------- audit

def strip_comments(src):
    out, i, depth = [], 0, 0
    while i < len(src):
        if src.startswith("/-", i):
            depth += 1
            i += 2
        elif depth and src.startswith("-/", i):
            depth -= 1
            i += 2
        elif depth:
            if src[i] == "\n":
                out.append("\n")
            i += 1
        elif src.startswith("--", i):
            while i < len(src) and src[i] != "\n":
                i += 1
        else:
            out.append(src[i])
            i += 1
    return "".join(out)


def import_closure(roots):
    """Lean source files (relative to lean/) reachable from the given modules through `import Gama.*` / `import Driver.*`"""
    seen, todo = set(), list(roots)
    while todo:
        mod = todo.pop()
        if mod in seen:
            continue
        f = LEAN / (mod.replace(".", "/") + ".lean")
        if not f.exists():
            continue
        seen.add(mod)
        for m in re.finditer(r"^\s*(?:public\s+)?import\s+((?:Gama|Driver)[\w.]*)", strip_comments(f.read_text()), re.M):
            todo.append(m.group(1))
    return sorted(seen)


def forbidden_tokens(roots=None):
    """forbidden constructs in the non-comment text of every file the property's targets depend on"""
    hits = []
    if roots is None:
        files = sorted((LEAN / "Gama").rglob("*.lean")) + sorted((LEAN / "Driver").rglob("*.lean"))
    else:
        files = [LEAN / (m.replace(".", "/") + ".lean") for m in import_closure(roots)]
    for f in files:
        txt = strip_comments(f.read_text())
        for m in FORBIDDEN.finditer(txt):
            line = txt.count("\n", 0, m.start()) + 1
            hits.append(f"{f.relative_to(LEAN)}:{line}: {m.group(0).strip()}")
    return hits


def driver_roots(drivers):
    """module names of the lean_exe roots declared in lakefile.toml"""
    txt = (LEAN / "lakefile.toml").read_text()
    roots = []
    for m in re.finditer(r'\[\[lean_exe\]\]\s*name\s*=\s*"([^"]+)"\s*root\s*=\s*"([^"]+)"', txt):
        if m.group(1) in drivers:
            roots.append(m.group(2))
    return roots


def theorems_in(props_file):
    """(namespace, [theorem names]) declared in a Props file"""
    txt = strip_comments((LEAN / props_file).read_text())
    ns = re.search(r"^namespace\s+(\S+)", txt, re.M)
    names = re.findall(r"^(?:@\[[^\]]*\]\s*)?(?:private\s+|protected\s+)?theorem\s+([^\s:({\[]+)", txt, re.M)
    return (ns.group(1) if ns else ""), names


def audit_axioms(ctx, props_files):
    """#print axioms for every property theorem; returns ({thm: [axioms]}, [missing thms], log)"""
    audit_dir = LEAN / "Audit"
    audit_dir.mkdir(exist_ok=True)
    lines, wanted = [], []
    for pf in props_files:
        mod = pf[:-5].replace("/", ".")
        ns, names = theorems_in(pf)
        lines.append(f"import {mod}")
        for n in names:
            wanted.append(f"{ns}.{n}" if ns else n)
    body = "\n".join(lines) + "\n" + "\n".join(f"#print axioms {w}" for w in wanted) + "\n"
    f = audit_dir / f"{ctx.id}.lean"
    f.write_text(body)
    rc, out, err = sh(["lake", "env", "lean", str(f)], cwd=LEAN, timeout=1800)
    txt = out + err
    res = {}
    for m in re.finditer(r"'([^']+)' (depends on axioms: \[([^\]]*)\]|does not depend on any axioms)", txt):
        res[m.group(1)] = [a.strip() for a in (m.group(3) or "").replace("\n", " ").split(",") if a.strip()]
    missing = [w for w in wanted if w not in res]
    return res, missing, txt


def failing_decls(log):
    """map lake error lines to the enclosing declarations"""
    out = []
    for m in re.finditer(r"error: (\S+?\.lean):(\d+):(\d+): (.*)", log):
        path, line = m.group(1), int(m.group(2))
        p = LEAN / path if not os.path.isabs(path) else Path(path)
        decl = "?"
        try:
            src = p.read_text().splitlines()
            for i in range(min(line, len(src)) - 1, -1, -1):
                mm = re.match(r"\s*(?:@\[[^\]]*\]\s*)?(?:private |protected |noncomputable )*(theorem|lemma|def|example|instance|abbrev)\s*([^\s:({\[]*)", src[i])
                if mm:
                    decl = f"{mm.group(1)} {mm.group(2)}".strip()
                    break
        except OSError:
            pass
        out.append(f"{path}:{line} [{decl}] {m.group(4)[:200]}")
    return out


# -------------------------------------------------------------------- known findings

def load_findings(prop_id):
    f = VERIF / "known_findings.jsonl"
    res = []
    if f.exists():
        for l in f.read_text().splitlines():
            l = l.strip()
            if l and not l.startswith("#"):
                j = json.loads(l)
                if j.get("property") == prop_id:
                    res.append(j)
    return res


# -------------------------------------------------------------------- plugins

def load_plugin(prop_id):
    """import tools/props/<id>.py and apply the cross-property extensions of tools/props/extra.py"""
    import importlib
    m = importlib.import_module("props." + prop_id.lower())
    try:
        from props import extra
        extra.apply(m)
    except ImportError:
        pass
    return m


# -------------------------------------------------------------------- pipeline

def write_replay(ctx, payload):
    d = VERIF / "replays"
    d.mkdir(exist_ok=True)
    n = 1
    while (d / f"{ctx.id}-{n}.json").exists():
        n += 1
    p = d / f"{ctx.id}-{n}.json"
    payload = dict(payload)
    payload.setdefault("property", ctx.id)
    payload.setdefault("seed", ctx.seed)
    payload.setdefault("tier", ctx.tier)
    payload.setdefault("replay_cmd", f"python3 tools/check.py {ctx.id} --replay {p}")
    p.write_text(json.dumps(payload, indent=1, default=str))
    return p


def run_check(plugin, tier, seed):
    """When GAMA_REPO points at a scratch tree (mutation / seeded-change runs) the regenerated lean/Gama/Gen files are
    restored afterwards: they are shared by the drivers of several properties and must describe /repo between runs."""
    if REPO.resolve() == Path("/repo"):
        return _run_check(plugin, tier, seed)
    gen = LEAN / "Gama" / "Gen"
    snap = {f: f.read_bytes() for f in gen.glob("*.lean")}
    try:
        return _run_check(plugin, tier, seed)
    finally:
        # (files that appeared meanwhile are left alone: another check may have generated them; the next run against
        # /repo regenerates every Gen file it needs anyway)
        for f, b in snap.items():
            if not f.exists() or f.read_bytes() != b:
                f.write_bytes(b)


def _run_check(plugin, tier, seed):
    ctx = Ctx(plugin.ID, tier, seed)
    broken, failures = [], []
    corr = Corr()
    props_files = list(getattr(plugin, "PROPS_FILES", []))
    lean_targets = list(getattr(plugin, "LEAN_TARGETS", []))
    drivers = list(getattr(plugin, "DRIVERS", []))
    axioms, obligations, discharged = {}, 0, 0

    # 1 translate -------------------------------------------------------
    if hasattr(plugin, "translate"):
        try:
            plugin.translate(ctx)
            ctx.log("translate ok")
        except TieBroken as e:
            broken.append(Broken("translator", e.name, e.detail))
            ctx.log("translator broken:", e.name)

    # 2 prove -----------------------------------------------------------
    ok, log = ctx.lake_build(lean_targets + drivers)
    if not ok:
        decls = failing_decls(log)
        for d in decls or ["lake build failed (no location parsed)"]:
            broken.append(Broken("proof", d, log[-3000:]))
        ctx.log("lake build FAILED:", *decls[:5])
    bad = forbidden_tokens(lean_targets + driver_roots(drivers))
    for b in bad:
        broken.append(Broken("audit", "forbidden token " + b))
    names = []
    for pf in props_files:
        ns, ns_names = theorems_in(pf)
        names += [f"{ns}.{n}" if ns else n for n in ns_names]
    obligations = len(names)
    if ok:
        axioms, missing, alog = audit_axioms(ctx, props_files)
        for m in missing:
            broken.append(Broken("proof", f"theorem {m} not found by #print axioms", alog[-2000:]))
        for t, ax in axioms.items():
            extra = [a for a in ax if a not in ALLOWED_AXIOMS]
            if extra:
                broken.append(Broken("audit", f"theorem {t} depends on {extra}"))
        discharged = sum(1 for n in names if n in axioms and all(a in ALLOWED_AXIOMS for a in axioms[n]))
        ctx.log(f"lake build ok; {discharged}/{obligations} property theorems kernel-checked, axioms audited")
        if ctx.thorough:
            for pf in props_files:
                mod = pf[:-5].replace("/", ".")
                okc, clog = ctx.leanchecker(mod)
                if not okc:
                    broken.append(Broken("audit", f"leanchecker {mod}", clog[-2000:]))
                ctx.log("leanchecker", mod, "ok" if okc else "FAILED")

    # 3+4+5 harness, correspondence, oracle -----------------------------------
    have_drivers = all(ctx.driver(d).exists() for d in drivers)
    try:
        if not have_drivers:
            raise BuildError("lean drivers", log[-3000:])
        plugin.correspond(ctx, corr)
    except BuildError as e:
        broken.append(Broken("build", e.name, e.log[-4000:]))
        ctx.log("BUILD FAILED:", e.name, e.log[-1500:])
    for d in corr.disagreements:
        broken.append(Broken("correspondence", d["stream"], json.dumps(d, default=str)[:3000]))
    failures += corr.failures
    ctx.log(f"correspondence: {corr.evaluations} cases, {len(corr.nontrivial)} distinct non-trivial, "
            f"{len(corr.disagreements)} disagreements, {len(corr.failures)} oracle failures")

    # 6 decide ------------------------------------------------------------
    findings = load_findings(plugin.ID)
    known = {f["id"]: f for f in findings if f.get("status") == "known"}
    classify = getattr(plugin, "classify", lambda ctx, f: None)
    # the search runs when something broke and no failing input OTHER than reproductions of known findings is at hand
    fresh_failures = [f for f in failures if classify(ctx, f) not in known]
    if broken and not fresh_failures and hasattr(plugin, "search"):
        ctx.log("something broke (%s); searching for a failing input" % ", ".join(map(repr, broken[:4])))
        try:
            failures += plugin.search(ctx, broken, corr) or []
        except BuildError as e:
            ctx.log("search could not build:", e.name)

    seen_known, unknown = {}, []
    for f in failures:
        fid = classify(ctx, f)
        if fid in known:
            seen_known.setdefault(fid, []).append(f)
        else:
            unknown.append(f)
    for fid, fs in seen_known.items():
        print(f"KNOWN-FINDING: property={plugin.ID} {fid}: {known[fid]['what']} ({len(fs)} failing case(s) matched)")
    # a correspondence disagreement explained by a known finding is not an unexplained break
    explained = getattr(plugin, "explained_by_known", lambda ctx, b, ks: False)
    residual_broken = [b for b in broken if not explained(ctx, b, set(seen_known))]

    rc = 0
    viol_lines = []
    if unknown:
        f = unknown[0]
        p = write_replay(ctx, {"kind": "failing-input", "failure": f.to_json(),
                               "other_failures": [x.to_json() for x in unknown[1:6]],
                               "broken": [b.to_json() for b in broken[:10]]})
        viol_lines.append(f"VIOLATION property={plugin.ID} replay={p}")
        rc = 1
    elif residual_broken:
        p = write_replay(ctx, {"kind": "no-failing-input-found",
                               "no_longer_checks": [b.to_json() for b in residual_broken[:20]],
                               "explanation": "a proof obligation, audit rule, translator or correspondence stream "
                                              "no longer checks on this tree; the search did not find an input on "
                                              "which the implementation violates the property"})
        viol_lines.append(f"VIOLATION property={plugin.ID} replay={p} no-failing-input-found")
        rc = 1
    if corr.inconclusive and rc == 0:
        ctx.log("INCONCLUSIVE generator thresholds:", corr.inconclusive)

    # 7 evidence ------------------------------------------------------------
    wall = time.time() - ctx.t0
    cov = {
        "obligations": obligations, "discharged": discharged,
        "checker_cmd": "cd /verif/lean && lake build " + " ".join(lean_targets) +
                       " && lake env lean Audit/%s.lean  # #print axioms" % plugin.ID +
                       (" && lake env leanchecker <Props module>" if ctx.thorough else ""),
        "trusted_base": BASE_TRUSTED + list(getattr(plugin, "TRUSTED", [])),
        "theorems": {k: v for k, v in sorted(axioms.items())},
        "evaluations": corr.evaluations, "distinct_nontrivial": len(corr.nontrivial),
        "rule": corr.rule or getattr(plugin, "RULE", ""),
        "samples": corr.samples or [{"theorem": n, "axioms": axioms.get(n)} for n in names[:3]],
        "correspondence_disagreements": len(corr.disagreements),
        "oracle_failures": len(corr.failures),
        "known_findings_matched": {k: len(v) for k, v in seen_known.items()},
        "stats": corr.stats, "inconclusive": corr.inconclusive,
        "broken": [b.to_json() for b in broken[:10]],
        "modelled_not_verified": list(getattr(plugin, "MODELLED", [])),
    }
    ev = {"property_id": plugin.ID, "tier": tier, "seed": seed, "level": getattr(plugin, "LEVEL", "proof"),
          "coverage": cov, "assumptions": list(getattr(plugin, "ASSUMPTIONS", [])), "wall_s": round(wall, 2),
          "violations": len(unknown) + (1 if (residual_broken and not unknown) else 0)}
    # evidence/<ID>.json describes runs against /repo itself; a run against a scratch tree (GAMA_REPO: mutation or
    # seeded-change tests) writes to evidence/scratch/ instead (git-ignored), so it can never replace the real record
    evdir = VERIF / "evidence" if REPO.resolve() == Path("/repo") else VERIF / "evidence" / "scratch"
    evdir.mkdir(parents=True, exist_ok=True)
    (evdir / f"{plugin.ID}.json").write_text(json.dumps(ev, indent=1, default=str))
    for l in viol_lines:
        print(l)
    ctx.log("done rc=%d wall=%.1fs" % (rc, wall))
    return rc
