"""
Exact-reference verdict for solver-level correspondence streams (C01, C02, C08, C20; C03 has the cofactor analogue
`exact_q_verdict` in tools/props/c03.py).

The streams compare implementation and model line by line with a fixed COMPONENTWISE tolerance
(|a - b| <= 1e-9 (1 + |a|)).  That comparison is not changed.  A linear solver is accurate NORMWISE, with a forward error
of eps * kappa: on a demonstrably ill-conditioned problem both sides may be right and still miss the componentwise 1e-9 in
a component that is small against max|x| (thorough run 3: C08 17 x 19 'parts' problem with one covariance block of band
width 15, kappa = 7.3e9; C02 34 x 21).  The rule applied here is narrow:

  * only a missed line that holds the unknowns x (an `x` answer of a resolving regularisation subset) can be excused;
    a miss in r, rtr, defect, cofactors, flags, a throw, a length difference … stays a disagreement;
  * the problem must BE ill conditioned: eps * kappa >= 1e-9 with kappa = |N|_inf |Q|_inf, N = A'PA and Q its regularised
    inverse, both EXACT (gen_ls.reference);
  * BOTH sides must lie within tol = min(eps * kappa, 1e-7) of the EXACT minimum-S-norm solution x*:
    max_i |x_i - x*_i| <= tol (1 + max_i |x*_i|);
  * at most `cap` cases per run are judged (afterwards: plain disagreements), and the stream is INCONCLUSIVE when more
    than max(12, 0.1 %) of its cases needed the verdict.
"""
from fractions import Fraction as F

from .core import hex2float
from . import gen_ls as g

EPS = 2.2e-16


def _vec(line):
    t = line.split()
    try:
        return [hex2float(x) for x in t[1:]] if t and t[0] == "vec" else None
    except (ValueError, TypeError):
        return None


def _val(line):
    t = line.split()
    try:
        return hex2float(t[1]) if len(t) == 2 and t[0] == "val" else None
    except (ValueError, TypeError):
        return None


def kappa_inf(ref):
    """|N|_inf |Q|_inf of an exact reference (gen_ls.reference)"""
    return float(max(sum(abs(v) for v in r) for r in ref["N"]) * max(sum(abs(v) for v in r) for r in ref["Q"]))


def exact_x_verdict(p, S, impl_line, model_line, corr=None, prefix="ls_x", ref=None):
    """returns (accepted, explanation); see the module text.  `ref` = gen_ls.reference(p, S) if the caller has it"""
    xi, xm = _vec(impl_line), _vec(model_line)
    if xi is None or xm is None or len(xi) != p["n"] or len(xm) != p["n"]:
        return False, "x not answered by both sides"
    if ref is None:
        try:
            ref = g.reference(p, S)
        except (ZeroDivisionError, IndexError):
            return False, "no exact reference (subset does not resolve the defect)"
    xe = ref["x"]
    kappa = kappa_inf(ref)
    tol = min(1e-7, EPS * kappa)
    scale = 1.0 + float(max([abs(v) for v in xe] + [F(0)]))
    di = max(abs(float(F(a) - e)) for a, e in zip(xi, xe)) / scale
    dm = max(abs(float(F(a) - e)) for a, e in zip(xm, xe)) / scale
    if corr is not None:
        corr.maxstat(prefix + "_judged_max_kappa", kappa)
        corr.maxstat(prefix + "_judged_max_dev_impl", di)
        corr.maxstat(prefix + "_judged_max_dev_model", dm)
    why = (f"against the exact solution: implementation {di:.3g}, model {dm:.3g} (normwise, relative), "
           f"tolerance {tol:.3g} = eps*kappa, kappa = {kappa:.3g}")
    if tol < 1e-9:
        return False, "problem is well conditioned (rounding does not explain the difference); " + why
    return (di <= tol and dm <= tol), why


def exact_q_verdict(ref, q_impl, q_model, missed, corr=None, prefix="ls_q"):
    """cofactor analogue (same rule as exact_q_verdict of tools/props/c03.py, for streams that ask single `qxx i j`
    entries): q_impl / q_model = {(i, j): value} of EVERY q_xx entry the case asked (1-based), missed = the keys whose
    lines failed the entrywise comparison.  A factorisation-based (generalised) inverse is accurate normwise: the
    first-order forward error of every entry is eps * kappa * max|Q|.  Accepted iff
      * for every missed entry rounding can explain the miss: tol = min(eps*kappa, 1e-7) (1 + max|Q|) exceeds what the
        comparator asked there, 1e-9 (1 + |Q_ij|) (never for a well-conditioned or evenly scaled matrix), and
      * BOTH sides lie within tol of the exact Q in every entry that was asked (not only the missed ones).
    returns (accepted, explanation)"""
    Q = ref["Q"]
    if not missed or set(q_impl) != set(q_model) or any(k not in q_impl for k in missed):
        return False, "q_xx not answered alike by both sides"
    kappa = kappa_inf(ref)
    qmax = float(max(abs(v) for r in Q for v in r))
    tol = min(1e-7, EPS * kappa) * (1.0 + qmax)
    di = max(abs(float(F(v) - Q[i - 1][j - 1])) for (i, j), v in q_impl.items())
    dm = max(abs(float(F(v) - Q[i - 1][j - 1])) for (i, j), v in q_model.items())
    if corr is not None:
        corr.maxstat(prefix + "_judged_max_kappa", kappa)
        corr.maxstat(prefix + "_judged_max_dev_impl_over_maxQ", di / (1.0 + qmax))
        corr.maxstat(prefix + "_judged_max_dev_model_over_maxQ", dm / (1.0 + qmax))
    i, j = sorted(missed)[0]
    why = (f"{len(missed)} q_xx entries, first ({i},{j}) = {float(Q[i - 1][j - 1]):.6g} exactly; against the exact Q "
           f"({len(q_impl)} entries asked): implementation {di:.3g}, model {dm:.3g}, tolerance {tol:.3g} = "
           f"eps*kappa*(1+max|Q|), kappa = {kappa:.3g}, max|Q| = {qmax:.3g}")
    for (i, j) in missed:
        if tol < 1e-9 * (1.0 + abs(float(Q[i - 1][j - 1]))):
            return False, "rounding does not explain the difference (matrix well conditioned / evenly scaled); " + why
    return (di <= tol and dm <= tol), why


class XJudge:
    """the narrow rule as one object per stream.  Use:
         judge = XJudge(corr, "ls_x")
         … miss = [indexes of output lines that fail the stream's own comparison] …
         ok, why = judge.misses(p, S, impl_out, model_out, miss, x_at=(2,))   # ok: every miss excused
         judge.finish(ncases)
       x_at: output indexes that hold an `x` answer; qxx_at: {output index: (i, j)} of EVERY `qxx i j` answer of the
       case (streams that ask cofactors); a miss anywhere else is never excused."""

    def __init__(self, corr, prefix="ls_x", cap=60):
        self.corr, self.prefix, self.cap = corr, prefix, cap
        self.qprefix = (prefix[:-2] if prefix.endswith("_x") else prefix) + "_q"      # statistics of cofactor verdicts
        self.refs = {}

    def judged(self):
        return self.corr.stats.get(self.prefix + "_judged_by_exact_reference", 0)

    def misses(self, p, S, impl_out, model_out, miss, x_at=(2,), qxx_at=None, resolving=True):
        if not miss:
            return True, ""
        qxx_at = qxx_at or {}
        if not resolving or len(impl_out) != len(model_out) or any(k not in x_at and k not in qxx_at for k in miss):
            return False, ""
        if self.judged() >= self.cap:
            return False, "(cap of exact-reference verdicts reached)"
        self.corr.count(self.prefix + "_judged_by_exact_reference")
        key = (id(p), tuple(S))
        if key not in self.refs:
            try:
                self.refs[key] = g.reference(p, S)
            except (ZeroDivisionError, IndexError):
                self.refs[key] = None
        ref = self.refs[key]
        if ref is None:
            return False, "no exact reference (subset does not resolve the defect)"
        whys = []
        for k in miss:
            if k in x_at:
                ok, why = exact_x_verdict(p, S, impl_out[k], model_out[k], self.corr, self.prefix, ref)
                whys.append(why)
                if not ok:
                    return False, why
        qmiss = [qxx_at[k] for k in miss if k in qxx_at and k not in x_at]
        if qmiss:
            qi, qm = {}, {}
            for k, ij in qxx_at.items():
                a, b = _val(impl_out[k]), _val(model_out[k])
                if a is None or b is None:
                    return False, "q_xx not answered by both sides"
                qi[ij], qm[ij] = a, b
            ok, why = exact_q_verdict(ref, qi, qm, qmiss, self.corr, self.qprefix)
            whys.append(why)
            if not ok:
                return False, why
        self.corr.count(self.prefix + "_rounding_on_ill_conditioned_problem")
        return True, "; ".join(whys)

    def finish(self, ncases):
        j = self.judged()
        if j > max(12, ncases // 1000):
            self.corr.inconclusive.append(f"{j} ls cases needed the exact reference to compare x / q_xx (more than 0.1% of the cases)")
