"""
Shared generator of weighted least-squares problems (A, b, C, S) for the adjustment core
(C01-C04, C08, C20) and an exact rational reference solver used as oracle.

All numbers handed to the implementation are small dyadic rationals, hence exactly
representable as doubles and as `Fraction`s: rank, kernel, "S resolves the defect" and the
reference solution are decided exactly.  Everything derives from the `random.Random` passed in.

problem dict:
  m, n, rows: [[(col, Fraction), …] per row] (1-based cols), cov: [{"dim","width","v":[Fraction…]}],
  rhs: [Fraction], family: str, kernel: [[Fraction]*n …] (basis of ker A), defect: int
"""
from fractions import Fraction as F
from .core import float2hex


# ------------------------------------------------------------------ exact linear algebra

def mat_mul(A, B):
    return [[sum(A[i][k] * B[k][j] for k in range(len(B))) for j in range(len(B[0]))] for i in range(len(A))]


def transpose(A):
    return [list(r) for r in zip(*A)] if A else []


def rref(M):
    """returns (R, pivot columns) over Fractions"""
    M = [list(map(F, r)) for r in M]
    piv, r = [], 0
    rows, cols = len(M), len(M[0]) if M else 0
    for c in range(cols):
        p = next((i for i in range(r, rows) if M[i][c] != 0), None)
        if p is None:
            continue
        M[r], M[p] = M[p], M[r]
        pv = M[r][c]
        M[r] = [x / pv for x in M[r]]
        for i in range(rows):
            if i != r and M[i][c] != 0:
                f = M[i][c]
                M[i] = [a - f * b for a, b in zip(M[i], M[r])]
        piv.append(c)
        r += 1
        if r == rows:
            break
    return M, piv


def kernel(A, n):
    """basis of {g | A g = 0} as list of vectors"""
    if not A:
        return [[F(int(i == j)) for i in range(n)] for j in range(n)]
    R, piv = rref(A)
    free = [c for c in range(n) if c not in piv]
    basis = []
    for f in free:
        g = [F(0)] * n
        g[f] = F(1)
        for r, c in enumerate(piv):
            g[c] = -R[r][f]
        basis.append(g)
    return basis


def rank(A):
    return len(rref(A)[1]) if A and A[0] else 0


def solve(M, B):
    """solve M X = B for square non-singular M (lists of Fractions); B is a matrix"""
    n = len(M)
    aug = [list(M[i]) + list(B[i]) for i in range(n)]
    R, piv = rref(aug)
    if piv[:n] != list(range(n)):
        raise ZeroDivisionError("singular")
    return [r[n:] for r in R[:n]]


def dense(p):
    A = [[F(0)] * p["n"] for _ in range(p["m"])]
    for i, r in enumerate(p["rows"]):
        for c, v in r:
            A[i][c - 1] += v
    return A


def cov_dense(p):
    m = p["m"]
    C = [[F(0)] * m for _ in range(m)]
    off = 0
    for b in p["cov"]:
        d, w, k = b["dim"], b["width"], 0
        for r in range(d):
            for j in range(r, min(d, r + w + 1)):
                C[off + r][off + j] = C[off + j][off + r] = b["v"][k]
                k += 1
        off += d
    return C


def resolves(p, S):
    """does the subset S (1-based unknown indices) resolve the defect?"""
    Z = p["kernel"]
    if not Z:
        return True
    ZS = [[g[i - 1] for g in Z] for i in S]      # |S| x d
    return bool(ZS) and rank(ZS) == len(Z)


def reference(p, S):
    """exact solution: x (min ||x_S|| among minimisers), v = A x - b, rtr = v' P v, Q (n x n), P"""
    A, C, b, n, m = dense(p), cov_dense(p), p["rhs"], p["n"], p["m"]
    I = [[F(int(i == j)) for j in range(m)] for i in range(m)]
    P = solve(C, I)
    At = transpose(A)
    AtP = mat_mul(At, P)
    N = mat_mul(AtP, A)
    c = [sum(AtP[i][k] * b[k] for k in range(m)) for i in range(n)]
    Z = p["kernel"]
    d = len(Z)
    D = [[(Z[k][i] if (i + 1) in S else F(0)) for k in range(d)] for i in range(n)]   # n x d
    K = [N[i] + D[i] for i in range(n)] + [[D[i][k] for i in range(n)] + [F(0)] * d for k in range(d)]
    Iall = [[F(int(i == j)) for j in range(n + d)] for i in range(n + d)]
    Kinv = solve(K, Iall)
    Q = [row[:n] for row in Kinv[:n]]
    x = [sum(Q[i][j] * c[j] for j in range(n)) for i in range(n)]
    v = [sum(A[i][j] * x[j] for j in range(n)) - b[i] for i in range(m)]
    Pv = [sum(P[i][k] * v[k] for k in range(m)) for i in range(m)]
    rtr = sum(v[i] * Pv[i] for i in range(m))
    return {"x": x, "v": v, "rtr": rtr, "Q": Q, "N": N, "P": P}


# ------------------------------------------------------------------ generators

def _spd_block(rng, dim, width):
    """C = L L' with unit-ish lower-band L of small dyadic entries: exactly SPD, band `width`"""
    L = [[F(0)] * dim for _ in range(dim)]
    for i in range(dim):
        L[i][i] = F(rng.choice([1, 1, 2, 3]), rng.choice([1, 1, 2]))
        for j in range(max(0, i - width), i):
            L[i][j] = F(rng.choice([-2, -1, -1, 0, 1, 1, 2]), rng.choice([2, 4]))
    C = mat_mul(L, transpose(L))
    v = []
    for r in range(dim):
        for j in range(r, min(dim, r + width + 1)):
            v.append(C[r][j])
    return {"dim": dim, "width": width, "v": v}


def gen_cov(rng, m, correlated):
    blocks, left = [], m
    while left > 0:
        d = min(left, rng.choice([1, 1, 2, 3, 4, left]))
        if correlated and d > 1:
            w = rng.randint(0, d - 1)
            blocks.append(_spd_block(rng, d, w))
        elif correlated and rng.random() < 0.5:
            blocks.append({"dim": d, "width": 0, "v": [F(rng.choice([1, 2, 4, 9]), rng.choice([1, 4])) for _ in range(d)]})
        else:
            blocks.append({"dim": d, "width": 0, "v": [F(1)] * d})
        left -= d
    return blocks


def gen_dense(rng, mmax=9, nmax=5, min_defect=None):
    if min_defect is not None:          # planted defect min_defect..min_defect+1 (callers that need defect >= 2 often)
        n = rng.randint(min_defect + 1, max(nmax, min_defect + 2))
        m = rng.randint(n, max(mmax, n))
        ndep = min(n - 1, min_defect + rng.choice([0, 0, 1]))
    else:
        n = rng.randint(1, nmax)
        m = rng.randint(n, mmax)
        ndep = rng.choice([0, 0, 1, 1, 2]) if n > 1 else 0
        ndep = min(ndep, n - 1)
    nind = n - ndep
    while True:
        B = [[F(rng.choice([-3, -2, -1, 0, 0, 1, 2, 3])) for _ in range(nind)] for _ in range(m)]
        if rank(B) == nind:
            break
    cols = [[B[i][j] for i in range(m)] for j in range(nind)]
    for _ in range(ndep):
        coef = [F(rng.choice([-1, 0, 1, 2])) for _ in range(len(cols))]
        if all(c == 0 for c in coef):
            coef[0] = F(1)
        cols.insert(rng.randint(0, len(cols)), [sum(c * col[i] for c, col in zip(coef, cols)) for i in range(m)])
    rows = [[(j + 1, cols[j][i]) for j in range(n) if cols[j][i] != 0] for i in range(m)]
    return m, n, rows, "dense"


def gen_levelling(rng, nmax=10):
    """height differences between nodes: incidence rows (-1, +1); fixed nodes removed from unknowns"""
    nodes = rng.randint(2, nmax)
    comps = rng.choice([1, 1, 1, 2])
    comp_of = [0] + [rng.randrange(comps) for _ in range(nodes - 1)]
    edges = []
    order = list(range(nodes))
    rng.shuffle(order)
    seen = {}
    for v in order:                     # spanning tree per component
        c = comp_of[v]
        if c in seen:
            edges.append((rng.choice(seen[c]), v))
            seen[c].append(v)
        else:
            seen[c] = [v]
    for _ in range(rng.randint(0, nodes)):
        a, b = rng.sample(range(nodes), 2)
        if comp_of[a] == comp_of[b]:
            edges.append((a, b))
    fixed = set()
    if rng.random() < 0.35:
        fixed.add(rng.randrange(nodes))
    unk = [v for v in range(nodes) if v not in fixed]
    idx = {v: k + 1 for k, v in enumerate(unk)}
    rows = []
    for a, b in edges:
        r = []
        if a in idx:
            r.append((idx[a], F(-1)))
        if b in idx:
            r.append((idx[b], F(1)))
        if r:
            rows.append(sorted(r))
    rng.shuffle(rows)
    if not rows or not unk:
        return gen_levelling(rng, nmax)
    # every unknown must occur (an unknown without observation is not generated by gama)
    used = {c for r in rows for c, _ in r}
    if len(used) != len(unk):
        return gen_levelling(rng, nmax)
    return len(rows), len(unk), rows, "levelling"


def gen_problem(rng, family=None, correlated=None, min_defect=None):
    family = family or rng.choice(["dense", "dense", "levelling", "levelling"])
    m, n, rows, fam = gen_dense(rng, min_defect=min_defect) if family == "dense" else gen_levelling(rng)
    if correlated is None:
        correlated = rng.random() < 0.5
    p = {"m": m, "n": n, "rows": rows, "family": fam, "cov": gen_cov(rng, m, correlated),
         "rhs": [F(rng.randint(-8, 8), rng.choice([1, 2, 4])) for _ in range(m)]}
    p["kernel"] = kernel(dense(p), n)
    p["defect"] = len(p["kernel"])
    p["unit_cov"] = all(b["width"] == 0 and all(x == 1 for x in b["v"]) for b in p["cov"])
    return p


def gen_subsets(rng, p, k=3):
    """regularisation subsets: [(S, resolves)]; always includes 'all'"""
    n = p["n"]
    res = [(list(range(1, n + 1)), True)]
    for _ in range(k):
        size = rng.randint(1, n)
        S = sorted(rng.sample(range(1, n + 1), size))
        res.append((S, resolves(p, S)))
    return res


# ------------------------------------------------------------------ protocol

def hx(q):
    return float2hex(float(q))


def problem_lines(p, minx=None):
    """minx: None | 'all' | list of indices"""
    out = [f"problem {p['m']} {p['n']}"]
    for r in p["rows"]:
        out.append("row %d %s" % (len(r), " ".join(f"{c} {hx(v)}" for c, v in r)))
    for b in p["cov"]:
        out.append("cov %d %d %s" % (b["dim"], b["width"], " ".join(hx(v) for v in b["v"])))
    out.append("rhs " + " ".join(hx(v) for v in p["rhs"]))
    if minx is None:
        out.append("minx none")
    elif minx == "all":
        out.append("minx all")
    else:
        out.append("minx %d %s" % (len(minx), " ".join(map(str, minx))))
    out.append("end")
    return out
