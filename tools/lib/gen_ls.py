"""
Shared generator of weighted least-squares problems (A, b, C, S) for the adjustment core
(C01-C04, C08, C20) and an exact rational reference solver used as oracle.

All numbers handed to the implementation are small dyadic rationals, hence exactly
representable as doubles and as `Fraction`s: rank, kernel, "S resolves the defect" and the
reference solution are decided exactly.  Everything derives from the `random.Random` passed in.

problem dict:
  m, n, rows: [[(col, Fraction), …] per row] (1-based cols), cov: [{"dim","width","v":[Fraction…]}],
  rhs: [Fraction], family: str, kernel: [[Fraction]*n …] (basis of ker A), defect: int
"""
import concurrent.futures
from fractions import Fraction as F
from .core import float2hex, run_cases


# ------------------------------------------------------------------ exact linear algebra

def mat_mul(A, B):
    return [[sum(A[i][k] * B[k][j] for k in range(len(B))) for j in range(len(B[0]))] for i in range(len(A))]


def transpose(A):
    return [list(r) for r in zip(*A)] if A else []


def rref(M):
    """returns (R, pivot columns) over Fractions"""
    M = [list(map(F, r)) for r in M]
    piv, r = [], 0
    rows, cols = len(M), len(M[0]) if M else 0
    for c in range(cols):
        p = next((i for i in range(r, rows) if M[i][c] != 0), None)
        if p is None:
            continue
        M[r], M[p] = M[p], M[r]
        pv = M[r][c]
        M[r] = [x / pv for x in M[r]]
        for i in range(rows):
            if i != r and M[i][c] != 0:
                f = M[i][c]
                M[i] = [a - f * b for a, b in zip(M[i], M[r])]
        piv.append(c)
        r += 1
        if r == rows:
            break
    return M, piv


def kernel(A, n):
    """basis of {g | A g = 0} as list of vectors"""
    if not A:
        return [[F(int(i == j)) for i in range(n)] for j in range(n)]
    R, piv = rref(A)
    free = [c for c in range(n) if c not in piv]
    basis = []
    for f in free:
        g = [F(0)] * n
        g[f] = F(1)
        for r, c in enumerate(piv):
            g[c] = -R[r][f]
        basis.append(g)
    return basis


def rank(A):
    return len(rref(A)[1]) if A and A[0] else 0


def solve(M, B):
    """solve M X = B for square non-singular M (lists of Fractions); B is a matrix"""
    n = len(M)
    aug = [list(M[i]) + list(B[i]) for i in range(n)]
    R, piv = rref(aug)
    if piv[:n] != list(range(n)):
        raise ZeroDivisionError("singular")
    return [r[n:] for r in R[:n]]


def dense(p):
    A = [[F(0)] * p["n"] for _ in range(p["m"])]
    for i, r in enumerate(p["rows"]):
        for c, v in r:
            A[i][c - 1] += v
    return A


def cov_dense(p):
    m = p["m"]
    C = [[F(0)] * m for _ in range(m)]
    off = 0
    for b in p["cov"]:
        d, w, k = b["dim"], b["width"], 0
        for r in range(d):
            for j in range(r, min(d, r + w + 1)):
                C[off + r][off + j] = C[off + j][off + r] = b["v"][k]
                k += 1
        off += d
    return C


def resolves(p, S):
    """does the subset S (1-based unknown indices) resolve the defect?"""
    Z = p["kernel"]
    if not Z:
        return True
    ZS = [[g[i - 1] for g in Z] for i in S]      # |S| x d
    return bool(ZS) and rank(ZS) == len(Z)


def reference(p, S):
    """exact solution: x (min ||x_S|| among minimisers), v = A x - b, rtr = v' P v, Q (n x n), P"""
    A, C, b, n, m = dense(p), cov_dense(p), p["rhs"], p["n"], p["m"]
    I = [[F(int(i == j)) for j in range(m)] for i in range(m)]
    P = solve(C, I)
    At = transpose(A)
    AtP = mat_mul(At, P)
    N = mat_mul(AtP, A)
    c = [sum(AtP[i][k] * b[k] for k in range(m)) for i in range(n)]
    Z = p["kernel"]
    d = len(Z)
    D = [[(Z[k][i] if (i + 1) in S else F(0)) for k in range(d)] for i in range(n)]   # n x d
    K = [N[i] + D[i] for i in range(n)] + [[D[i][k] for i in range(n)] + [F(0)] * d for k in range(d)]
    Iall = [[F(int(i == j)) for j in range(n + d)] for i in range(n + d)]
    Kinv = solve(K, Iall)
    Q = [row[:n] for row in Kinv[:n]]
    x = [sum(Q[i][j] * c[j] for j in range(n)) for i in range(n)]
    v = [sum(A[i][j] * x[j] for j in range(n)) - b[i] for i in range(m)]
    Pv = [sum(P[i][k] * v[k] for k in range(m)) for i in range(m)]
    rtr = sum(v[i] * Pv[i] for i in range(m))
    return {"x": x, "v": v, "rtr": rtr, "Q": Q, "N": N, "P": P}


# ------------------------------------------------------------------ generators

def _spd_block(rng, dim, width):
    """C = L L' with unit-ish lower-band L of small dyadic entries: exactly SPD, band `width`"""
    L = [[F(0)] * dim for _ in range(dim)]
    for i in range(dim):
        L[i][i] = F(rng.choice([1, 1, 2, 3]), rng.choice([1, 1, 2]))
        for j in range(max(0, i - width), i):
            L[i][j] = F(rng.choice([-2, -1, -1, 0, 1, 1, 2]), rng.choice([2, 4]))
    C = mat_mul(L, transpose(L))
    v = []
    for r in range(dim):
        for j in range(r, min(dim, r + width + 1)):
            v.append(C[r][j])
    return {"dim": dim, "width": width, "v": v}


def gen_cov(rng, m, correlated):
    blocks, left = [], m
    while left > 0:
        d = min(left, rng.choice([1, 1, 2, 3, 4, left]))
        if correlated and d > 1:
            w = rng.randint(0, d - 1)
            blocks.append(_spd_block(rng, d, w))
        elif correlated and rng.random() < 0.5:
            blocks.append({"dim": d, "width": 0, "v": [F(rng.choice([1, 2, 4, 9]), rng.choice([1, 4])) for _ in range(d)]})
        else:
            blocks.append({"dim": d, "width": 0, "v": [F(1)] * d})
        left -= d
    return blocks


def gen_dense(rng, mmax=9, nmax=5, min_defect=None):
    if min_defect is not None:          # planted defect min_defect..min_defect+1 (callers that need defect >= 2 often)
        n = rng.randint(min_defect + 1, max(nmax, min_defect + 2))
        m = rng.randint(n, max(mmax, n))
        ndep = min(n - 1, min_defect + rng.choice([0, 0, 1]))
    else:
        n = rng.randint(1, nmax)
        m = rng.randint(n, mmax)
        ndep = rng.choice([0, 0, 1, 1, 2]) if n > 1 else 0
        ndep = min(ndep, n - 1)
    nind = n - ndep
    while True:
        B = [[F(rng.choice([-3, -2, -1, 0, 0, 1, 2, 3])) for _ in range(nind)] for _ in range(m)]
        if rank(B) == nind:
            break
    cols = [[B[i][j] for i in range(m)] for j in range(nind)]
    for _ in range(ndep):
        coef = [F(rng.choice([-1, 0, 1, 2])) for _ in range(len(cols))]
        if all(c == 0 for c in coef):
            coef[0] = F(1)
        cols.insert(rng.randint(0, len(cols)), [sum(c * col[i] for c, col in zip(coef, cols)) for i in range(m)])
    rows = [[(j + 1, cols[j][i]) for j in range(n) if cols[j][i] != 0] for i in range(m)]
    return m, n, rows, "dense"


def gen_levelling(rng, nmax=10):
    """height differences between nodes: incidence rows (-1, +1); fixed nodes removed from unknowns"""
    nodes = rng.randint(2, nmax)
    comps = rng.choice([1, 1, 1, 2])
    comp_of = [0] + [rng.randrange(comps) for _ in range(nodes - 1)]
    edges = []
    order = list(range(nodes))
    rng.shuffle(order)
    seen = {}
    for v in order:                     # spanning tree per component
        c = comp_of[v]
        if c in seen:
            edges.append((rng.choice(seen[c]), v))
            seen[c].append(v)
        else:
            seen[c] = [v]
    for _ in range(rng.randint(0, nodes)):
        a, b = rng.sample(range(nodes), 2)
        if comp_of[a] == comp_of[b]:
            edges.append((a, b))
    fixed = set()
    if rng.random() < 0.35:
        fixed.add(rng.randrange(nodes))
    unk = [v for v in range(nodes) if v not in fixed]
    idx = {v: k + 1 for k, v in enumerate(unk)}
    rows = []
    for a, b in edges:
        r = []
        if a in idx:
            r.append((idx[a], F(-1)))
        if b in idx:
            r.append((idx[b], F(1)))
        if r:
            rows.append(sorted(r))
    rng.shuffle(rows)
    if not rows or not unk:
        return gen_levelling(rng, nmax)
    # every unknown must occur (an unknown without observation is not generated by gama)
    used = {c for r in rows for c, _ in r}
    if len(used) != len(unk):
        return gen_levelling(rng, nmax)
    return len(rows), len(unk), rows, "levelling"


# ---- free geodetic networks: exact Jacobians with a datum defect of 3, 4 (or 6) -------------------------------
#
# The Jacobian of a distance between points i, j is (-dx, -dy, dx, dy)/d; of a direction from station s to target t
# it is (dy, -dx, -dy, dx)/d^2 with -1 at the station's orientation unknown.  Multiplying a ROW by a positive number
# changes neither the kernel nor the nature of the problem (the solvers see a matrix, not a network), so every row
# is scaled to small dyadic rationals: distance rows by d, direction rows by d^2 / 2^k.  The kernel is the datum of
# the free network, exactly: two translations + rotation (distances, with or without directions: defect 3),
# + scale (directions only: defect 4); space networks of slope / horizontal distances and height differences:
# three translations + rotation about the vertical (defect 4); slope distances only: 6.
# Several kernel vectors of comparable size on a regularisation subset are what makes the solvers' pivoting among
# the null-space vectors (AdjCholDec's Gram-Schmidt g_perm, GSO's second stage, svd's min_subset_x) do real work.

FREE_KINDS = ("dist2d", "distdir2d", "dir2d", "space")
FREE_DEFECT = {"dist2d": 3, "distdir2d": 3, "dir2d": 4, "space": 4, "dist3d": 6}


def _pow2_at_least(v):
    q = 1
    while q < v:
        q *= 2
    return q


def _free_net_once(rng, kind):
    dim = 3 if kind in ("space", "dist3d") else 2
    P = rng.randint(4, 5) if dim == 3 else rng.randint(4, 6)
    pts = set()
    while len(pts) < P:
        pts.add((rng.randint(-4, 4), rng.randint(-4, 4)) + ((rng.randint(-2, 2),) if dim == 3 else ()))
    pts = sorted(pts)
    rng.shuffle(pts)
    pairs = [(i, j) for i in range(P) for j in range(i + 1, P)]
    dens = rng.choice([0.7, 0.85, 1.0])
    stations = []
    if kind == "dir2d":
        stations = rng.sample(range(P), rng.randint(3, P))
    elif kind == "distdir2d":
        stations = rng.sample(range(P), rng.randint(1, 3))
    # unknown labels: ('x'|'y'|'z', point) and ('o', station)
    labels = []
    for i in range(P):
        labels += [(c, i) for c in "xyz"[:dim]]
        if i in stations:
            labels.append(("o", i))
    layout = rng.choice(["points", "shuffled", "shuffled", "point-blocks"])
    if layout == "shuffled":
        rng.shuffle(labels)
    elif layout == "point-blocks":
        order = list(range(P))
        rng.shuffle(order)
        labels = [l for i in order for l in labels if l[1] == i]
    col = {l: k + 1 for k, l in enumerate(labels)}
    rows = []

    def add(entries):
        r = sorted((col[l], F(v)) for l, v in entries if v != 0)
        if r:
            rows.append(r)

    if kind in ("dist2d", "distdir2d", "space", "dist3d"):
        for i, j in pairs:
            if rng.random() > dens:
                continue
            d = [b - a for a, b in zip(pts[i], pts[j])]
            horizontal = kind == "space" and rng.random() < 0.3
            k = 2 if horizontal else dim
            sc = F(1, rng.choice([1, 1, 2]))
            add([(("xyz"[c], i), -d[c] * sc) for c in range(k)] + [(("xyz"[c], j), d[c] * sc) for c in range(k)])
    if kind == "space":
        for i, j in pairs:
            if rng.random() < 0.6:
                add([(("z", i), -1), (("z", j), 1)])
    for s in stations:
        targets = [t for t in range(P) if t != s and rng.random() < max(dens, 0.75)]
        if len(targets) < 2:
            targets = rng.sample([t for t in range(P) if t != s], 2)
        for t in targets:
            dx, dy = pts[t][0] - pts[s][0], pts[t][1] - pts[s][1]
            d2 = dx * dx + dy * dy
            q = _pow2_at_least(d2)
            add([(("x", s), F(dy, q)), (("y", s), F(-dx, q)), (("x", t), F(-dy, q)), (("y", t), F(dx, q)), (("o", s), F(-d2, q))])
    rng.shuffle(rows)
    return len(rows), len(labels), rows, labels


def gen_free_net(rng, kind=None):
    """(m, n, rows, family, labels) of a free network whose exact defect is FREE_DEFECT[kind]"""
    kind = kind or rng.choice(FREE_KINDS)
    for _ in range(200):
        m, n, rows, labels = _free_net_once(rng, kind)
        if m < n - FREE_DEFECT[kind]:
            continue
        if {c for r in rows for c, _ in r} != set(range(1, n + 1)):
            continue
        A = [[F(0)] * n for _ in range(m)]
        for i, r in enumerate(rows):
            for c, v in r:
                A[i][c - 1] += v
        if n - rank(A) == FREE_DEFECT[kind]:
            return m, n, rows, "free-" + kind, labels
    raise RuntimeError("gen_free_net: no rigid network of kind " + kind)


def gen_parts(rng):
    """a determined part (network with two points held fixed, or a levelling net with a fixed node) and an undetermined
    part (free network or free levelling net) side by side, unknowns interleaved, rows shuffled: the kernel lives on
    the unknowns of the second part only (a solver that names an unknown of the first part as dependent is wrong)"""
    def det_part():
        if rng.random() < 0.5:
            while True:
                m, n, rows, fam = gen_levelling(rng, 6)
                A = [[F(0)] * n for _ in range(m)]
                for i, r in enumerate(rows):
                    for c, v in r:
                        A[i][c - 1] += v
                if rank(A) == n:
                    return m, n, rows
        while True:
            m, n, rows, fam, labels = gen_free_net(rng, rng.choice(["dist2d", "distdir2d"]))
            fixed = set(rng.sample(sorted({l[1] for l in labels}), 2))
            keep = [k + 1 for k, l in enumerate(labels) if not (l[0] in "xyz" and l[1] in fixed)]
            ren = {c: k + 1 for k, c in enumerate(keep)}
            rows2 = [[(ren[c], v) for c, v in r if c in ren] for r in rows]
            rows2 = [r for r in rows2 if r]
            A = [[F(0)] * len(keep) for _ in rows2]
            for i, r in enumerate(rows2):
                for c, v in r:
                    A[i][c - 1] += v
            if rows2 and rank(A) == len(keep) and {c for r in rows2 for c, _ in r} == set(range(1, len(keep) + 1)):
                return len(rows2), len(keep), rows2

    def free_part():
        if rng.random() < 0.4:
            while True:
                m, n, rows, fam = gen_levelling(rng, 5)
                A = [[F(0)] * n for _ in range(m)]
                for i, r in enumerate(rows):
                    for c, v in r:
                        A[i][c - 1] += v
                if rank(A) < n:
                    return m, n, rows
        m, n, rows, fam, labels = gen_free_net(rng, rng.choice(["dist2d", "dist2d", "distdir2d", "dir2d"]))
        return m, n, rows

    m1, n1, r1 = det_part()
    m2, n2, r2 = free_part()
    order = list(range(n1 + n2))
    rng.shuffle(order)                     # order[old] = new column (0-based)
    rows = [sorted((order[c - 1] + 1, v) for c, v in r) for r in r1] + \
           [sorted((order[n1 + c - 1] + 1, v) for c, v in r) for r in r2]
    rng.shuffle(rows)
    part = [0] * (n1 + n2)
    for c in range(n1 + n2):
        part[order[c]] = 1 if c < n1 else 2
    return m1 + m2, n1 + n2, rows, "parts", part


def gen_problem(rng, family=None, correlated=None, min_defect=None):
    """family: None (dense / levelling, the historical mix) | 'dense' | 'levelling' | 'free' | 'free-<kind>' | 'parts'"""
    family = family or rng.choice(["dense", "dense", "levelling", "levelling"])
    extra = {}
    if family == "dense":
        m, n, rows, fam = gen_dense(rng, min_defect=min_defect)
    elif family == "levelling":
        m, n, rows, fam = gen_levelling(rng)
    elif family == "parts":
        m, n, rows, fam, extra["part"] = gen_parts(rng)
    elif family.startswith("free"):
        m, n, rows, fam, extra["labels"] = gen_free_net(rng, family[5:] or None)
    else:
        raise ValueError(family)
    if correlated is None:
        correlated = rng.random() < 0.5
    p = {"m": m, "n": n, "rows": rows, "family": fam, "cov": gen_cov(rng, m, correlated),
         "rhs": [F(rng.randint(-8, 8), rng.choice([1, 2, 4])) for _ in range(m)]}
    p.update(extra)
    p["kernel"] = kernel(dense(p), n)
    p["defect"] = len(p["kernel"])
    p["unit_cov"] = all(b["width"] == 0 and all(x == 1 for x in b["v"]) for b in p["cov"])
    return p


def gen_proper_subsets(rng, p, n_res=2, n_non=1):
    """PROPER regularisation subsets (neither empty nor all unknowns) of a singular problem:
    up to n_res that resolve the defect and up to n_non that do not, decided exactly: [(S, resolves)].
    Free networks: the coordinates of some points (what a constrained point is in gama), one point only, one
    coordinate axis only, orientations only; otherwise random subsets."""
    n, d = p["n"], p["defect"]
    labels = p.get("labels")
    res, non, seen = [], [], set()

    def offer(S):
        S = sorted(set(S))
        if not S or len(S) >= n or tuple(S) in seen:
            return
        seen.add(tuple(S))
        ok = resolves(p, S)
        if ok and len(res) < n_res:
            res.append((S, True))
        elif not ok and len(non) < n_non:
            non.append((S, False))

    for _ in range(60):
        if len(res) >= n_res and len(non) >= n_non:
            break
        style = rng.random()
        if labels and style < 0.55:
            ids = sorted({l[1] for l in labels})
            q = rng.randint(1, len(ids) - 1)
            pick = set(rng.sample(ids, q))
            offer([k + 1 for k, l in enumerate(labels) if l[0] in "xyz" and l[1] in pick])
        elif labels and style < 0.7:
            ax = rng.choice(sorted({l[0] for l in labels}))
            offer([k + 1 for k, l in enumerate(labels) if l[0] == ax])
        elif style < 0.85:
            offer(rng.sample(range(1, n + 1), rng.randint(max(1, d), n - 1)) if n > 1 else [])
        else:
            offer(rng.sample(range(1, n + 1), rng.randint(1, max(1, min(n - 1, d)))) if n > 1 else [])
    return res + non


def gen_subsets(rng, p, k=3):
    """regularisation subsets: [(S, resolves)]; always includes 'all'"""
    n = p["n"]
    res = [(list(range(1, n + 1)), True)]
    for _ in range(k):
        size = rng.randint(1, n)
        S = sorted(rng.sample(range(1, n + 1), size))
        res.append((S, resolves(p, S)))
    return res


# ------------------------------------------------------------------ protocol

def hx(q):
    return float2hex(float(q))


def problem_lines(p, minx=None):
    """minx: None | 'all' | list of indices"""
    out = [f"problem {p['m']} {p['n']}"]
    for r in p["rows"]:
        out.append("row %d %s" % (len(r), " ".join(f"{c} {hx(v)}" for c, v in r)))
    for b in p["cov"]:
        out.append("cov %d %d %s" % (b["dim"], b["width"], " ".join(hx(v) for v in b["v"])))
    out.append("rhs " + " ".join(hx(v) for v in p["rhs"]))
    if minx is None:
        out.append("minx none")
    elif minx == "all":
        out.append("minx all")
    else:
        out.append("minx %d %s" % (len(minx), " ".join(map(str, minx))))
    out.append("end")
    return out


def problem_from_lines(lines):
    """inverse of problem_lines (replays): the problem dict (exact: every hex double is a dyadic rational) and minx"""
    from .core import hex2float
    p, minx = {"rows": [], "cov": [], "rhs": [], "family": "replay"}, None
    for l in lines:
        t = l.split()
        if not t:
            continue
        if t[0] == "problem":
            p["m"], p["n"] = int(t[1]), int(t[2])
        elif t[0] == "row":
            p["rows"].append([(int(t[2 + 2 * k]), F(hex2float(t[3 + 2 * k]))) for k in range(int(t[1]))])
        elif t[0] == "cov":
            p["cov"].append({"dim": int(t[1]), "width": int(t[2]), "v": [F(hex2float(x)) for x in t[3:]]})
        elif t[0] == "rhs":
            p["rhs"] = [F(hex2float(x)) for x in t[1:]]
        elif t[0] == "minx":
            minx = None if t[1] == "none" else "all" if t[1] == "all" else [int(x) for x in t[2:2 + int(t[1])]]
        elif t[0] == "end":
            break
    p["kernel"] = kernel(dense(p), p["n"])
    p["defect"] = len(p["kernel"])
    p["unit_cov"] = all(b["width"] == 0 and all(x == 1 for x in b["v"]) for b in p["cov"])
    return p, minx


def run_cases_par(exe, cases, jobs=4, args=()):
    """`core.run_cases` over `jobs` processes (contiguous chunks; outputs and crash indices as for one process)"""
    if jobs <= 1 or len(cases) < 4 * jobs:
        return run_cases(exe, cases, args=args)
    step = (len(cases) + jobs - 1) // jobs
    starts = list(range(0, len(cases), step))
    with concurrent.futures.ThreadPoolExecutor(max_workers=len(starts)) as ex:
        futs = [ex.submit(run_cases, exe, cases[a:a + step], 900, args) for a in starts]
        outs, crashes = [], {}
        for a, f in zip(starts, futs):
            o, c = f.result()
            outs += o
            crashes.update({a + k: v for k, v in c.items()})
    return outs, crashes
