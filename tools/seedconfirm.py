#!/usr/bin/env python3
"""Confirm an independently produced seeded change in a scratch worktree of /repo HEAD:
   builds, runs the pinned suite (ctest -j1) with the seed, runs the seed's demonstration with and
   without the seed.  usage: seedconfirm.py <seeddir> ;  writes <seeddir>/confirm.json"""
import json, os, subprocess, sys, time, re, shutil
from pathlib import Path
seed = Path(sys.argv[1]).resolve()
wt = Path(f"/tmp/confirm-{os.getpid()}")
def sh(cmd, **kw):
    return subprocess.run(cmd, shell=True, capture_output=True, text=True, **kw)
sh(f"git -C /repo worktree add -q {wt} HEAD")
res = {"seed": str(seed)}
try:
    def build():
        r = sh(f"cmake -S {wt} -B {wt}/_b -G Ninja -DCMAKE_BUILD_TYPE=Release >/dev/null && cmake --build {wt}/_b -j16 2>&1 | tail -2")
        return r.returncode == 0 and "error" not in r.stdout.lower()
    def demo():
        # demos refer to the seeding agent's worktree path; point them at ours
        d = Path(f"/tmp/confirm-demo-{os.getpid()}")
        shutil.rmtree(d, ignore_errors=True); shutil.copytree(seed, d)
        orig = None
        for f in d.rglob("*"):
            if f.is_file() and f.suffix in (".sh", ".py", ".json", ".cpp", ""):
                try:
                    t = f.read_text()
                except Exception:
                    continue
                m = re.search(r"/tmp/seed[A-Z]?-C\d\d", t)
                if m:
                    orig = m.group(0)
                    f.write_text(t.replace(orig, str(wt)).replace(str(seed), str(d)))
        txt = (d / "demo.sh").read_text()
        if re.search(r"SRC=\$\{?1|SRC=\"?\$\{1", txt):
            arg = f"{wt}"
        elif re.search(r"build dir|BUILD=\$\{?1|BLD=\$\{?1|\$1/gama-local", txt):
            arg = f"{wt}/_b"
        else:
            arg = f"{wt}/_b/gama-local"
        r = sh(f"cd {d} && sh demo.sh {arg} 2>&1", timeout=1800)
        shutil.rmtree(d, ignore_errors=True)
        return r.returncode, r.stdout[-600:]
    res["build_clean"] = build()
    rc0, out0 = demo()
    res["demo_without_seed"] = {"rc": rc0, "tail": out0}
    a = sh(f"git -C {wt} apply {seed}/patch.diff")
    res["applies"] = a.returncode == 0
    res["build_seeded"] = build()
    t = sh(f"ctest --test-dir {wt}/_b -j1 --timeout 900 2>&1 | grep -E 'tests passed|^\\s+[0-9]+ - '")
    res["suite"] = t.stdout.strip().replace("\n", "; ")
    rc1, out1 = demo()
    res["demo_with_seed"] = {"rc": rc1, "tail": out1}
    failed = re.findall(r"\d+ - (\S+)", t.stdout)
    res["suite_ok"] = all(f.startswith("check_deformation_data_1_2_diff") for f in failed)
    res["confirmed"] = bool(res["applies"] and res["build_seeded"] and res["suite_ok"] and rc0 == 0 and rc1 != 0)
finally:
    sh(f"git -C /repo worktree remove --force {wt}")
(seed / "confirm.json").write_text(json.dumps(res, indent=1))
print(json.dumps({k: res.get(k) for k in ("seed", "confirmed", "suite", "suite_ok")}), res.get("demo_without_seed", {}).get("rc"), res.get("demo_with_seed", {}).get("rc"))
