// replay through class Adj: cholesky, singular system, no regularisation list stored with the data
#include <iostream>
#include <gnu_gama/adj/adj.h>
#include <gnu_gama/adj/adj_input_data.h>
using namespace GNU_gama;
static AdjInputData* make() {
  AdjInputData* d = new AdjInputData;
  SparseMatrix<>* A = new SparseMatrix<>(6, 3, 3);
  A->new_row(); A->add_element(-1,1); A->add_element(1,2);
  A->new_row(); A->add_element(-1,2); A->add_element(1,3);
  A->new_row(); A->add_element(-1,1); A->add_element(1,3);
  d->set_mat(A);
  BlockDiagonal<>* bd = new BlockDiagonal<>(1, 3);
  double c[3] = {1,1,1}; bd->add_block(3, 0, c);
  d->set_cov(bd);
  Vec<> v(3); v(1)=0.1; v(2)=0.2; v(3)=0.25; d->set_rhs(v);
  return d;
}
int main() {
  Adj adj;
  adj.set_algorithm(Adj::cholesky);
  adj.set(make());
  std::cout << "x = " << trans(adj.x()) << std::flush;
  adj.set_algorithm(Adj::gso);
  std::cout << "gso x = " << trans(adj.x()) << std::flush;
  adj.set_algorithm(Adj::cholesky);            // back to cholesky: a new AdjCholDec is allocated
  std::cout << "x = " << trans(adj.x()) << std::flush;       // fresh Adj answers this; this object may crash
  adj.set_algorithm(Adj::cholesky);
  std::cout << "x = " << trans(adj.x()) << std::flush;
  return 0;
}
