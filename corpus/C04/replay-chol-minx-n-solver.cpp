// replay: AdjCholDec::minx_n is read uninitialised by solve() on a fresh object (singular system)
#include <iostream>
#include <matvec/matvec.h>
#include <gnu_gama/adj/adj_chol.h>
using namespace GNU_gama;
typedef AdjCholDec<double,int,Exception::matvec> Chol;
int main() {
  // levelling chain of 3 points, no fixed height: defect 1
  Mat<> A(3,3); A.set_zero(); Vec<> b(3);
  A(1,1)=-1; A(1,2)=1; A(2,2)=-1; A(2,3)=1; A(3,1)=-1; A(3,3)=1;
  b(1)=0.1; b(2)=0.2; b(3)=0.25;
  {
    Chol* c = new Chol;          // object 1: regularisation over all unknowns (default)
    c->reset(A,b);
    std::cout << "object 1 x: " << trans(c->unknowns());
    delete c;
  }
  Chol* d = new Chol;            // object 2: typically the same heap chunk; minx_n still holds 3
  std::cout << "object 2 at the same address; default regularisation (ALL), same problem" << std::endl;
  d->reset(A,b);
  std::cout << "object 2 x: " << trans(d->unknowns());   // minx_t==ALL && minx_n(garbage 3)==N: list not built, minx_i==nullptr
  delete d;
  return 0;
}
